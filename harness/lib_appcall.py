"""Shared helpers for the app-level checks (C03, C04): call a falcon WSGI / ASGI app directly, the way a server does,
and return what the server would see.  No falcon import at module top level (srcload must come first)."""
import asyncio


class Result:
    __slots__ = ('status', 'headers', 'body', 'escaped', 'events')

    def __init__(self, status=None, headers=None, body=b'', escaped=None, events=None):
        self.status, self.headers, self.body, self.escaped, self.events = status, headers or [], body, escaped, events

    def header(self, name):
        """All values of a header (lower-cased name), in order."""
        name = name.lower()
        return [v for k, v in self.headers if k.lower() == name]


class _Sink:
    """wsgi.errors that swallows the tracebacks falcon's default Exception handler logs."""
    def write(self, s): return len(s)
    def writelines(self, ls): pass
    def flush(self): pass


_loop = None


def loop():
    global _loop
    if _loop is None or _loop.is_closed():
        _loop = asyncio.new_event_loop()
    return _loop


def call_wsgi(app, method='GET', path='/', headers=None, body=b''):
    """Call the WSGI callable; an exception leaving the app is an observation (`escaped`), not an error."""
    import falcon.testing as ft
    env = ft.create_environ(method=method, path=path, headers=headers, body=body)
    env['wsgi.errors'] = _Sink()
    seen = []

    def start_response(status, hdrs, exc_info=None):
        seen.append((status, hdrs))
    try:
        it = app(env, start_response)
        data = b''.join(it)
        if hasattr(it, 'close'):
            it.close()
    except Exception as e:  # noqa
        return Result(escaped=e)
    status, hdrs = seen[-1]
    return Result(int(status.split(' ', 1)[0]), [(k, v) for k, v in hdrs], data)


async def acall_asgi(app, method='GET', path='/', headers=None, body=b''):
    import falcon.testing as ft
    scope = ft.create_scope(method=method, path=path, headers=headers)
    pending = [{'type': 'http.request', 'body': body, 'more_body': False}]
    never = asyncio.get_running_loop().create_future()
    sent = []

    async def receive():
        if pending:
            return pending.pop(0)
        await never

    async def send(ev):
        sent.append(ev)
    try:
        await asyncio.wait_for(app(scope, receive, send), 5)
    except asyncio.TimeoutError:
        raise
    except Exception as e:  # noqa
        return Result(escaped=e, events=sent)
    start = [e for e in sent if e['type'] == 'http.response.start']
    data = b''.join(e.get('body', b'') for e in sent if e['type'] == 'http.response.body')
    if not start:
        return Result(events=sent)
    hdrs = [(k.decode('latin-1'), v.decode('latin-1')) for k, v in start[0]['headers']]
    return Result(start[0]['status'], hdrs, data, events=sent)


def call_asgi(app, **kw):
    return loop().run_until_complete(acall_asgi(app, **kw))


def call_via_testing(app, path='/', headers=None, method='GET'):
    """The same request through falcon.testing.simulate_request (covers the test-helper glue in front of the app)."""
    import falcon.testing as ft
    try:
        kw = {} if hasattr(app, '_call_lifespan_handlers') else {'wsgierrors': _Sink()}
        r = ft.simulate_request(app, method=method, path=path, headers=headers, **kw)
    except Exception as e:  # noqa
        return Result(escaped=e)
    return Result(r.status_code, list(r.headers.items()), r.content)

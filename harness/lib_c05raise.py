"""C05: responses to a *raise* (HTTPError subclasses / HTTPStatus, at responder, middleware and hook sites, with stale
text / data / media / stream / SSE emitter on the response) on both stacks = the composed model Fx (FinalizeRaise.lean:
Es.composeError / Es.composeStatus mapped into Fz.wsgi / Fz.asgi), driver `fxdriver`; plus direct statement oracles."""
import json

import lib_http as H
import lib_respspace as R

SITES = ('responder', 'mw_request', 'mw_resource', 'mw_response', 'hook_before', 'hook_after')
STATUSES = (400, 404, 409, 416, 500, 503, 204, 304, 100, 101, 102, 200, 299, 418, 301)
BODILESS = (100, 101, 204, 304)
ACCEPTS = (None, None, '*/*', 'application/json', 'text/xml', 'application/xml', 'application/x-test', 'text/html',
           'application/x-yaml, text/plain;q=0.5', 'application/vnd.acme+json', 'application/vnd.acme+xml',
           'application/json;q=0.5, text/xml;q=0.9', 'image/png', 'application/x-test;q=0.9, application/json;q=0.1', '')
ERR_HEADERS = (('Content-Length', '999'), ('Content-Type', 'text/plain'), ('Content-Range', 'bytes */9'), ('X-Err', 'e1'),
               ('Vary', 'Origin'), ('x-a', 'over'), ('Content-Length', '0'), ('Cache-Control', 'no-store'))
PRE_HEADERS = (('X-A', '1'), ('Content-Type', 'text/plain'), ('Content-Length', '77'), ('Vary', 'Origin'), ('X-B', 'b'))
ERR_CLASSES = ('HTTPError', 'HTTPError', 'HTTPError-line', 'HTTPNotFound', 'HTTPRangeNotSatisfiable', 'HTTPMethodNotAllowed',
               'HTTPTooManyRequests', 'HTTPUnauthorized', 'Teapot')
STALE_TEXT, STALE_DATA, STALE_MEDIA = 'STALE-TEXT', b'STALE-DATA', {'stale': 'MEDIA'}
STREAM_CHUNKS = ([b'STALE-STREAM'], [b'STALE-', b'STREAM', b'!'], [b'STALE-STREAM' * 3, b'x'])
SSE_MARK = 'STALE-SSE'


def gen_case(rnd):
    kind = rnd.choice('EES')
    hdrs = None
    if rnd.random() < 0.7:
        hdrs = rnd.sample(ERR_HEADERS, rnd.randint(0, 4))
        if rnd.random() < 0.04:
            hdrs.insert(rnd.randint(0, len(hdrs)), ('Set-Cookie', 'z=1'))
    c = {
        'site': rnd.choice(SITES), 'method': rnd.choice(('GET', 'GET', 'HEAD', 'POST')), 'kind': kind,
        'cls': rnd.choice(ERR_CLASSES) if kind == 'E' else 'HTTPStatus', 'rstatus': rnd.choice(STATUSES),
        'rhdr': hdrs, 'rhdr_form': rnd.choice(('dict', 'list')),
        'rtext': rnd.choice((None, None, '', 'ok', 'h\xe9llo')) if kind == 'S' else None,
        'accept': rnd.choice(ACCEPTS), 'xml': rnd.random() < 0.5, 'xtest': rnd.random() < 0.5,
        'dflt': rnd.choice(('application/json', 'application/json', 'text/plain; charset=utf-8')),
        'pre_status': rnd.choice((None, None, 201, 204)),
        'pre_headers': rnd.sample(PRE_HEADERS, rnd.randint(0, 3)),
        'cookie': rnd.random() < 0.3,
        'text': rnd.random() < 0.35, 'data': rnd.random() < 0.25, 'media': rnd.random() < 0.25,
        'stream': rnd.choice((None, None, 'iter', 'file')), 'chunks': rnd.randrange(len(STREAM_CHUNKS)),
        'sse': rnd.random() < 0.3,
    }
    return c


def run(ctx, loop):
    import falcon
    import falcon.asgi
    import falcon.media
    rnd = ctx.rng
    sess = ctx.session('responses to a raise (HTTPError subclasses with headers / any status incl. 204, 304, 1xx, 416 + Content-Range; HTTPStatus with text and headers; '
                       'stale text / data / media / stream / SSE emitter; responder, middleware and hook sites; HEAD and GET; Accept variants), '
                       'WSGI and ASGI: status, header list in order, chunks = Fx.wsgiR / Fx.asgiR (Es.composeError / Es.composeStatus into Fz.wsgi / Fz.asgi)', 'fxdriver')

    class TestHandler(falcon.media.BaseHandler):
        def serialize(self, media, content_type):
            return b'T' + json.dumps(media, sort_keys=True).encode()

        def deserialize(self, stream, content_type, content_length):
            return None

    class Teapot(falcon.HTTPError):
        def __init__(self, **kw):
            super().__init__(418, **kw)

    def make_exc(c):
        hd = c['rhdr']
        if hd is not None:
            hd = dict(hd) if c['rhdr_form'] == 'dict' else [tuple(x) for x in hd]
        k = c['cls']
        if k == 'HTTPStatus':
            return falcon.HTTPStatus(c['rstatus'], headers=hd, text=c['rtext'])
        if k == 'HTTPError':
            return falcon.HTTPError(c['rstatus'], headers=hd)
        if k == 'HTTPError-line':
            return falcon.HTTPError(falcon.code_to_http_status(c['rstatus']), headers=hd)
        if k == 'HTTPNotFound':
            return falcon.HTTPNotFound(headers=hd)
        if k == 'HTTPRangeNotSatisfiable':
            return falcon.HTTPRangeNotSatisfiable(9, headers=hd)
        if k == 'HTTPMethodNotAllowed':
            return falcon.HTTPMethodNotAllowed(['GET', 'POST'], headers=hd)
        if k == 'HTTPTooManyRequests':
            return falcon.HTTPTooManyRequests(retry_after=5, headers=hd)
        if k == 'HTTPUnauthorized':
            return falcon.HTTPUnauthorized(challenges=['Basic realm="x"'], headers=hd)
        return Teapot(headers=hd)

    class FileW:
        def __init__(self, chunks):
            self.chunks = list(chunks)

        def read(self, size=-1):
            return self.chunks.pop(0) if self.chunks else b''

    class FileA:
        def __init__(self, chunks):
            self.chunks = list(chunks)

        async def read(self, size=-1):
            return self.chunks.pop(0) if self.chunks else b''

    async def agen(chunks):
        for ch in chunks:
            yield ch

    async def sse_gen():
        yield falcon.asgi.SSEvent(text=SSE_MARK)

    def fill(resp, c, asgi):
        if c['pre_status'] is not None:
            resp.status = c['pre_status']
        for k, v in c['pre_headers']:
            resp.set_header(k, v)
        if c['cookie']:
            resp.set_cookie('c', '1')
        if c['text']:
            resp.text = STALE_TEXT
        if c['data']:
            resp.data = STALE_DATA
        if c['media']:
            resp.media = STALE_MEDIA
        if c['stream'] is not None:
            chunks = STREAM_CHUNKS[c['chunks']]
            if c['stream'] == 'iter':
                resp.stream = agen(chunks) if asgi else iter(list(chunks))
            else:
                resp.stream = FileA(chunks) if asgi else FileW(chunks)
        if c['sse'] and asgi:
            resp.sse = sse_gen()

    def build(c, asgi):
        site = c['site']

        def boom(resp, here):
            if here == site or (here == 'fill' and site in ('hook_after', 'mw_response')):
                fill(resp, c, asgi)
            if here == site:
                raise make_exc(c)

        if asgi:
            async def hb(req, resp, resource, params):
                boom(resp, 'hook_before')

            async def ha(req, resp, resource):
                boom(resp, 'hook_after')

            class Res:
                @falcon.before(hb)
                @falcon.after(ha)
                async def on_get(self, req, resp):
                    boom(resp, 'fill')
                    boom(resp, 'responder')
                on_head = on_post = on_get

            class Mw:
                async def process_request(self, req, resp):
                    boom(resp, 'mw_request')

                async def process_resource(self, req, resp, resource, params):
                    boom(resp, 'mw_resource')

                async def process_response(self, req, resp, resource, req_succeeded):
                    boom(resp, 'mw_response')
        else:
            def hb(req, resp, resource, params):
                boom(resp, 'hook_before')

            def ha(req, resp, resource):
                boom(resp, 'hook_after')

            class Res:
                @falcon.before(hb)
                @falcon.after(ha)
                def on_get(self, req, resp):
                    boom(resp, 'fill')
                    boom(resp, 'responder')
                on_head = on_post = on_get

            class Mw:
                def process_request(self, req, resp):
                    boom(resp, 'mw_request')

                def process_resource(self, req, resp, resource, params):
                    boom(resp, 'mw_resource')

                def process_response(self, req, resp, resource, req_succeeded):
                    boom(resp, 'mw_response')
        app = (falcon.asgi.App if asgi else falcon.App)(media_type=c['dflt'], middleware=[Mw()])
        app.resp_options.xml_error_serialization = c['xml']
        if c['xtest']:
            app.resp_options.media_handlers['application/x-test'] = TestHandler()
        app.add_route('/', Res())
        return app

    def wire(c):
        hs = [] if c['accept'] is None else [('Accept', c['accept'])]
        return H.Wire(method=c['method'], target='/', headers=hs)

    def go_w(c):
        rec, hung = H.guarded(lambda: H.drive_wsgi(build(c, False), H.wsgi_environ(wire(c))))
        return {'hang': True} if hung else rec

    def go_a(c):
        return loop.run_until_complete(H.drive_asgi(build(c, True), H.asgi_scope(wire(c)), H.asgi_events(b'')))

    def obs_w(rec):
        if rec.get('hang'):
            return 'hang', None
        if rec['app_exc'] is not None:
            return 'none', None
        if len(rec['start']) != 1:
            return f"{len(rec['start'])} start_response calls", None
        st, hl, _ = rec['start'][0]
        return R.fz_show(int(st[:3]), hl, rec['chunks'], rec['iter_exc'] is not None), (int(st[:3]), hl, b''.join(rec['chunks']))

    def obs_a(rec):
        if rec.get('hang'):
            return 'hang', None
        r = H.asgi_response(rec)
        if r is None:
            return ('none' if rec['app_exc'] is not None else 'nothing sent'), None
        code, hl, chunks = r
        return R.fz_show(code, hl, chunks, rec['app_exc'] is not None), (code, hl, b''.join(chunks))

    def model_line(c):
        exc = make_exc(c)
        hd = exc.headers
        if hd is None:
            rhdr = 'none'
        else:
            items = list(hd.items()) if hasattr(hd, 'items') else list(hd)
            rhdr = ','.join(R.hs(k) + ':' + R.hs(v) for k, v in items) or '-'
        B = lambda b: 'none' if b is None else R.hx(b)  # noqa: E731
        jsn = xmlb = mediab = b''
        if c['kind'] == 'E':
            jsn = exc.to_json()
            xmlb = exc._to_xml()
            mediab = TestHandler().serialize(exc.to_dict(), 'application/x-test')
        opts = falcon.ResponseOptions()
        handlers = [(k, 1 if h else 0) for k, h in opts.media_handlers.items()]
        if c['xtest']:
            handlers.append(('application/x-test', 1))
        cookies = []
        if c['cookie']:
            scratch = falcon.Response()
            scratch.set_cookie('c', '1')
            cookies = [v for k, v in scratch._wsgi_headers() if k.lower() == 'set-cookie']
        st = 'none' if c['stream'] is None else ('i' if c['stream'] == 'iter' else 'f') + ':' + ','.join(R.hx(x) for x in STREAM_CHUNKS[c['chunks']])
        sse = 'none'
        if c['sse']:
            sse = R.hx(falcon.asgi.SSEvent(text=SSE_MARK).serialize())
        return (f"case status={c['pre_status'] or 200} hdr={';'.join(R.hs(k.lower()) + ':' + R.hs(v) for k, v in c['pre_headers']) or '.'} "
                f"text={B(STALE_TEXT.encode() if c['text'] else None)} data={B(STALE_DATA if c['data'] else None)} "
                f"media={B(json.dumps(STALE_MEDIA).encode() if c['media'] else None)} stream={st} fail=none sse={sse} "
                f"cookies={';'.join(R.hs(R.norm_cookie(v)) for v in cookies) or '.'} head={1 if c['method'] == 'HEAD' else 0} dflt={R.hs(c['dflt'])} "
                f"kind={c['kind']} rstatus={exc.status_code} rhdr={rhdr} rtext={'none' if c['rtext'] is None else R.hs(c['rtext'])} "
                f"xml={1 if c['xml'] else 0} handlers={','.join(R.hs(k) + ':' + str(v) for k, v in handlers) or '-'} "
                f"accept={'none' if c['accept'] is None else R.hs(c['accept'])} json={R.hx(jsn)} xmlb={R.hx(xmlb)} mediab={R.hx(mediab)}")

    def oracles(c, stack, o):
        case = {'raise_case': c, 'stack': stack}
        if o is None:
            return
        code, hl, payload = o
        names = [k.lower() for k, _ in hl]
        cl = [v for k, v in hl if k.lower() == 'content-length']
        bodiless = c['method'] == 'HEAD' or code in BODILESS
        if bodiless:
            ok = payload == b''
            ctx.oracle('raise-bodiless', ok, None if ok else f'{len(payload)} payload bytes on a {c["method"]} {code} error response', case)
        elif c['stream'] is not None and payload == b''.join(STREAM_CHUNKS[c['chunks']]):
            # the raise defined no body and the stream left on the response was sent: a streamed body (the statement's Content-Length clause
            # is about non-streamed bodies; an application-set Content-Length stays as it is, as for every streamed response)
            ctx.count('raise_stale_stream_sent')
        else:
            ok = len(cl) == 1 and cl[0] == str(len(payload))
            ctx.oracle('raise-content-length', ok, None if ok else f'Content-Length {cl!r} on an error response with {len(payload)} payload bytes', case)
        stale = [m for m in (STALE_TEXT.encode(), STALE_DATA, b'MEDIA', SSE_MARK.encode()) if m in payload]
        ok = not stale
        ctx.oracle('raise-stale', ok, None if ok else f'the response to the raise carries bytes set before the raise: {stale!r}', case)
        if b'STALE-STREAM' in payload or b'STALE-' in payload:
            # _handle_exception leaves resp.stream alone: it is sent when (and only when) the raise defines no body; never mixed with one
            ok = payload == b''.join(STREAM_CHUNKS[c['chunks']]) and (c['kind'] == 'E' or c['rtext'] is None)
            ctx.oracle('raise-stale-stream', ok, None if ok else 'stream bytes from before the raise mixed into / sent instead of the body the raise defines', case)
        ok = names.count('content-type') <= 1
        ctx.oracle('raise-one-content-type', ok, None if ok else f'{names.count("content-type")} Content-Type headers', case)

    n = ctx.n(600, 6000)
    for i in range(n):
        c = gen_case(rnd)
        try:
            line = model_line(c)
        except Exception as e:  # noqa  (constructor rejects the combination)
            ctx.count('raise_case_rejected_' + type(e).__name__)
            continue
        wrec = go_w(c)
        arec = go_a(c)
        W, wo = obs_w(wrec)
        A, ao = obs_a(arec)
        oracles(c, 'wsgi', wo)
        oracles(c, 'asgi', ao)
        if wo is not None and ao is not None:
            ok = (wo[0], [(k.lower(), R.norm_cookie(v)) for k, v in wo[1]], wo[2]) == (ao[0], [(k.lower(), R.norm_cookie(v)) for k, v in ao[1]], ao[2])
            ctx.oracle('raise-stacks-agree', ok, None if ok else f'WSGI {W} / ASGI {A}', {'raise_case': c})
        sess.case({'raise_case': c})
        sess.op(line, f'W {W} A {A}')
        key = json.dumps(c, sort_keys=True, default=repr)
        ctx.seen(('raise', key), True)
        ctx.count('raise_site_' + c['site'])
        ctx.count('raise_' + c['cls'])
        if wo is not None and wo[0] in BODILESS:
            ctx.count('raise_bodiless_status')
        if W == 'none':
            ctx.count('raise_exception_leaves_call')
        if c['accept'] is not None:
            ctx.count('raise_with_accept')
        if i < 2:
            ctx.sample({'raise_case': c})
    sess.finish()

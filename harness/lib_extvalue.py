"""RFC 8187 (obsoletes RFC 5987) extended parameter values - `filename*=charset'language'value-chars` - for the C13 check:
an independent STRICT reference decoder written from the RFC grammar (hand-written UTF-8 / ISO-8859-1 / US-ASCII decoders),
the liberal readings an implementation may give to a value that violates the grammar, the judgement table that turns a raw
parameter value into the set of acceptable observations, and the generators (all single edits of well-formed values + a grammar
that composes well-formed text, octet sequences that are ill-formed in the declared charset, stray percent signs and
characters outside attr-char). Nothing here imports falcon.

    ext-value     = charset "'" [ language ] "'" value-chars
    charset       = "UTF-8" / "ISO-8859-1" / mime-charset
    mime-charset  = 1*mime-charsetc          ; ALPHA / DIGIT / "!" "#" "$" "%" "&" "+" "-" "^" "_" "`" "{" "}" "~"
    language      = <Language-Tag, RFC 5646 2.1>
    value-chars   = *( pct-encoded / attr-char )
    pct-encoded   = "%" HEXDIG HEXDIG
    attr-char     = ALPHA / DIGIT / "!" "#" "$" "&" "+" "-" "." "^" "_" "`" "|" "~"
"""
import codecs
import re

_ALNUM = 'ABCDEFGHIJKLMNOPQRSTUVWXYZabcdefghijklmnopqrstuvwxyz0123456789'
ATTR_CHARS = set(_ALNUM + '!#$&+-.^_`|~')
MIME_CHARSETC = set(_ALNUM + '!#$%&+-^_`{}~')
HEXDIG = set('0123456789ABCDEFabcdef')
# RFC 5646 2.1, simplified to its shape: a primary subtag of letters, further subtags of letters/digits, 1..8 characters each
_LANGTAG = re.compile(r'[A-Za-z]{1,8}(-[A-Za-z0-9]{1,8})*\Z')

MPE = ('MPE',)          # the observation "the accessor raised MultipartParseError"

# IANA names and aliases (case-insensitive) of the three charsets the strict decoder decodes by hand
_CORE = {
    'utf-8': 'utf-8', 'csutf8': 'utf-8',
    'iso-8859-1': 'latin-1', 'iso_8859-1': 'latin-1', 'latin1': 'latin-1', 'l1': 'latin-1', 'iso-ir-100': 'latin-1', 'ibm819': 'latin-1',
    'cp819': 'latin-1', 'csisolatin1': 'latin-1',
    'us-ascii': 'ascii', 'ascii': 'ascii', 'ansi_x3.4-1968': 'ascii', 'iso646-us': 'ascii', 'us': 'ascii', 'ibm367': 'ascii', 'cp367': 'ascii',
    'csascii': 'ascii', 'iso-ir-6': 'ascii',
}


def utf8_strict(bs):
    """RFC 3629 by hand: the text, or None when the octets are not well-formed UTF-8 (truncated or overlong forms, lone
    continuation octets, surrogates U+D800..DFFF, code points above U+10FFFF, the octets C0 C1 F5..FF)."""
    out = []
    i, n = 0, len(bs)
    while i < n:
        b = bs[i]
        if b < 0x80:
            out.append(chr(b))
            i += 1
            continue
        if 0xC2 <= b <= 0xDF:
            need, cp, lo, hi = 1, b & 0x1F, 0x80, 0xBF
        elif 0xE0 <= b <= 0xEF:
            need, cp = 2, b & 0x0F
            lo, hi = (0xA0, 0xBF) if b == 0xE0 else (0x80, 0x9F) if b == 0xED else (0x80, 0xBF)
        elif 0xF0 <= b <= 0xF4:
            need, cp = 3, b & 0x07
            lo, hi = (0x90, 0xBF) if b == 0xF0 else (0x80, 0x8F) if b == 0xF4 else (0x80, 0xBF)
        else:
            return None                     # 80..BF (lone continuation), C0, C1, F5..FF
        if i + need >= n:
            return None                     # truncated sequence
        for j in range(1, need + 1):
            c = bs[i + j]
            if not ((lo if j == 1 else 0x80) <= c <= (hi if j == 1 else 0xBF)):
                return None                 # overlong / surrogate / too large (second octet) or not a continuation octet
            cp = (cp << 6) | (c & 0x3F)
        out.append(chr(cp))
        i += need + 1
    return ''.join(out)


def latin1_strict(bs):
    return ''.join(chr(b) for b in bs)       # every octet is a character of ISO-8859-1


def ascii_strict(bs):
    return None if any(b >= 0x80 for b in bs) else ''.join(chr(b) for b in bs)


_HAND = {'utf-8': utf8_strict, 'latin-1': latin1_strict, 'ascii': ascii_strict}


def charset_kind(cs):
    """-> ('core', 'utf-8'|'latin-1'|'ascii') for the charsets decoded by hand (IANA names and aliases, any case);
    ('other', python codec name) for a name CPython resolves to a text encoding (TRUSTED: the codec registry - it also resolves
    spellings no registry knows, e.g. utf8, UTF_8, utf!8); ('unknown', None)."""
    k = _CORE.get(cs.lower())
    if k:
        return 'core', k
    try:
        info = codecs.lookup(cs)
    except Exception:  # noqa  (LookupError; also ValueError/TypeError for NUL or odd names)
        return 'unknown', None
    if not getattr(info, '_is_text_encoding', True):
        return 'unknown', None
    return 'other', info.name


def decode_in(octets, kind, codec):
    """the octets as text of the charset, or None when they are ill-formed in it"""
    if kind == 'core':
        return _HAND[codec](octets)
    try:
        return bytes(octets).decode(codec)       # TRUSTED for the charsets that are not decoded by hand
    except Exception:  # noqa
        return None


def strict(v):
    """The strict reference decoder.
    -> ('ok', text, charset kind, language)          a well-formed ext-value in a charset that can be decoded
       ('octets', None, charset kind, language)      well-formed grammar, but the octets are ill-formed in the declared charset
       ('unknown-charset', None, 'unknown', language) well-formed grammar, the charset is not known
       ('grammar', error class, None, None)          not an ext-value: missing-quote, extra-quote, charset-syntax,
                                                      language-syntax, stray-percent, non-attr-char"""
    fields = v.split("'")
    if len(fields) < 3:
        return ('grammar', 'missing-quote', None, None)
    if len(fields) > 3:
        return ('grammar', 'extra-quote', None, None)          # "'" is neither an attr-char nor part of a pct-encoded
    cs, lang, val = fields
    if not cs or any(c not in MIME_CHARSETC for c in cs):
        return ('grammar', 'charset-syntax', None, None)
    if lang and not _LANGTAG.match(lang):
        return ('grammar', 'language-syntax', None, None)
    octets = []
    i = 0
    while i < len(val):
        c = val[i]
        if c == '%':
            if len(val) - i >= 3 and val[i + 1] in HEXDIG and val[i + 2] in HEXDIG:
                octets.append(int(val[i + 1:i + 3], 16))
                i += 3
                continue
            return ('grammar', 'stray-percent', None, None)
        if c not in ATTR_CHARS:
            return ('grammar', 'non-attr-char', None, None)
        octets.append(ord(c))
        i += 1
    kind, codec = charset_kind(cs)
    if kind == 'unknown':
        return ('unknown-charset', None, 'unknown', lang)
    text = decode_in(octets, kind, codec)
    if text is None:
        return ('octets', None, kind, lang)
    return ('ok', text, kind, lang)


def liberal_readings(v):
    """What a liberal reader may make of a value that is NOT an ext-value but has its two quote marks: charset = the text before
    the first quote, value = everything after the second one, every well-formed pct-encoded is an octet, every other character
    stands for itself. Reading B takes a character outside ASCII as its UTF-8 octets (one octet string, decoded in the charset);
    reading A keeps such a character and decodes the octet runs between them. A reading exists only if its octets are well-formed
    in the charset - so even a liberal reader has no business inventing characters. -> set of str"""
    i1 = v.find("'")
    i2 = v.find("'", i1 + 1) if i1 >= 0 else -1
    if i2 < 0:
        return set()
    cs, val = v[:i1], v[i2 + 1:]
    if not cs:
        return set()
    kind, codec = charset_kind(cs)
    if kind == 'unknown':
        return set()
    segs = []          # ints (octets) and str (characters outside ASCII)
    i = 0
    while i < len(val):
        c = val[i]
        if c == '%' and len(val) - i >= 3 and val[i + 1] in HEXDIG and val[i + 2] in HEXDIG:
            segs.append(int(val[i + 1:i + 3], 16))
            i += 3
            continue
        if ord(c) < 0x80:
            segs.append(ord(c))
        else:
            segs.append(c)
        i += 1
    out = set()
    # reading B
    try:
        octs = []
        for s in segs:
            octs.extend(s.encode('utf-8') if isinstance(s, str) else [s])
        t = decode_in(octs, kind, codec)
        if t is not None:
            out.add(t)
    except UnicodeEncodeError:
        pass
    # reading A
    text, run, ok = '', [], True
    for s in segs + [None]:
        if isinstance(s, int):
            run.append(s)
            continue
        if run:
            t = decode_in(run, kind, codec)
            if t is None:
                ok = False
                break
            text += t
            run = []
        if s is not None:
            text += s
    if ok:
        out.add(text)
    return out


class Accept:
    """the acceptable observations of part.filename for one generated parameter value"""

    def __init__(self, vals, why, cls, oracle):
        self.vals, self.why, self.cls, self.oracle = list(vals), why, cls, oracle

    def ok(self, got):
        return any(got == x and type(got) is type(x) for x in self.vals)

    def only_error(self):
        return self.vals == [MPE]

    def __repr__(self):
        return 'one of ' + ' / '.join('MultipartParseError' if x == MPE else repr(x) for x in self.vals) + f' [{self.why}]'


def judge(v, fallback):
    """The judgement table. v: the raw value of the filename* parameter; fallback: the value of a plain filename parameter of the
    same header, or None. 'ignored' below = the parameter is treated as absent (RFC 8187 3.2.1 allows that for a value a recipient
    cannot process): part.filename is the fallback.

    oracle 'strict'  (what the tree is held to without reservation)
        well-formed, UTF-8 / ISO-8859-1 / US-ASCII, ANY well-formed language tag (also with subtags: en-GB, zh-Hant-TW - class L,
        finding F48, repaired in /repo 4cb5964)                                    -> exactly the decoded text
        well-formed grammar, octets ILL-FORMED in such a charset                   -> the parse error
        well-formed, another charset CPython can decode                            -> the decoded text, the parse error, or ignored
        ... octets ill-formed in it / charset unknown                              -> the parse error, or ignored
    oracle 'liberal'  (the value violates the ext-value grammar)
        -> the parse error, ignored, or a liberal reading (which exists only when its octets are well-formed in the charset)
        (also: grammatical but EMPTY value-chars -> the empty name, the parse error, or ignored)"""
    st = strict(v)
    tag, text, kind, lang = st
    ign = fallback            # None or the plain filename
    if tag == 'grammar':
        cls = 'grammar:' + text
        vals = [MPE, ign] + sorted(liberal_readings(v))
        return Accept(_dedup(vals), f'not an ext-value ({text}): parse error, parameter ignored, or a liberal reading whose octets are well-formed', cls, 'liberal')
    hyphen = bool(lang) and '-' in lang
    if v.endswith("'"):
        # value-chars = *( ... ) may be empty, so `UTF-8''` is grammatical and denotes the empty name; a recipient that treats a
        # parameter without any value characters as absent, or refuses it, has not invented anything either
        want = ([''] if tag == 'ok' else []) + [MPE, ign]
        return Accept(_dedup(want), 'empty value-chars: the empty name, parse error, or parameter ignored', 'empty-value', 'liberal')
    if tag == 'unknown-charset':
        return Accept(_dedup([MPE, ign]), 'unknown charset: parse error or parameter ignored', 'unknown-charset', 'strict')
    if kind == 'core':
        want = [text] if tag == 'ok' else [MPE]
        why = 'well-formed ext-value' if tag == 'ok' else 'octets ill-formed in the declared charset'
        cls = ('wellformed' if tag == 'ok' else 'illformed-octets')
        return Accept(want, why + (' (language tag with subtags)' if hyphen else ''), cls + ('+hyphen-language' if hyphen else ''), 'strict')
    # a charset beyond the two every recipient must support: decoding, refusing and ignoring are all legitimate
    want = ([text] if tag == 'ok' else []) + [MPE, ign]
    return Accept(_dedup(want), ('well-formed ext-value' if tag == 'ok' else 'octets ill-formed') + ' in an optional charset: as decoded (never otherwise), parse error, or ignored',
                  ('wellformed' if tag == 'ok' else 'illformed-octets') + '-other-charset', 'strict')


def _dedup(vals):
    out = []
    for x in vals:
        if not any(x == y and type(x) is type(y) for y in out):
            out.append(x)
    return out


# ====================================================================== generators

def pct(bs, rnd=None, over=0.0, lower=0.0):
    """percent-encode octets: attr-chars stay (or are escaped too with probability `over`), hex digits upper (or lower) case"""
    out = ''
    for b in bs:
        c = chr(b)
        if c in ATTR_CHARS and not (rnd and rnd.random() < over):
            out += c
        else:
            h = '%%%02X' % b
            out += h.lower() if (rnd and rnd.random() < lower) else h
    return out


# (charset spelling, language, file name): every one is a well-formed ext-value after pct()
BASES = [
    ('UTF-8', '', 'na\u00efve caf\u00e9.png'),          # 2-octet sequences, an escaped blank
    ('utf-8', 'en', '\u20ac rates.txt'),                # 3-octet sequence, a language
    ('UTF-8', '', '\u5199\u771f.jpg'),                  # CJK
    ('UTF-8', 'de', '\U0001f600x.png'),                 # 4-octet sequence
    ('ISO-8859-1', '', '\u00a3 rates'),                 # every octet is valid: only the grammar can be violated
    ('iso-8859-1', 'en', 'Gr\u00fc\u00dfe.txt'),
    ('US-ASCII', '', 'plain-ascii_1.txt'),              # an escape >= 0x80 is ill-formed
    ('us-ascii', '', 'a b%c'),
    ('UTF-8', 'en-GB', 'colour \u00e9.txt'),            # a language tag with a subtag (class L, F48)
    ('windows-1252', '', '\u20acuro.csv'),              # optional charset (0x81 0x8D 0x8F 0x90 0x9D are undefined in it)
]
BASES_THOROUGH = [
    ('UTF-8', 'zh-Hant-TW', '\u6a94\u6848.txt'),
    ('utf8', '', 'caf\u00e9'),                          # a spelling only CPython knows
    ('UTF-8', '', '\u00e9'),
    ('UTF-8', '', 'a'),
    ('koi8-r', 'ru', '\u0444\u0430\u0439\u043b'),
    ('latin1', '', '\u00e9t\u00e9.txt'),
]

SUBST = "0123456789ABCDEFabcdef%Gz'\" *;=\\-\u00e9"
INSERT = "%'0Ff8CE\"; \u00e9*"


def base_value(base, rnd=None):
    cs, lang, name = base
    try:
        raw = name.encode(cs)
    except (LookupError, UnicodeEncodeError):
        raw = name.encode('utf-8')
    return f"{cs}'{lang}'" + pct(raw, rnd, over=0.0, lower=0.0)


def single_edits(v):
    """every deletion, every substitution by a character of SUBST and every insertion of a character of INSERT, at every position
    of the whole ext-value (charset, quote marks, language and value-chars) -> [(edited value, kind)]"""
    out = []
    for i in range(len(v)):
        out.append((v[:i] + v[i + 1:], 'del'))
        for c in SUBST:
            if c != v[i]:
                out.append((v[:i] + c + v[i + 1:], 'sub'))
    for i in range(len(v) + 1):
        for c in INSERT:
            out.append((v[:i] + c + v[i:], 'ins'))
    return out


# octet sequences that are ill-formed UTF-8, by kind
ILL_UTF8 = {
    'truncated': ['C3', 'E2', 'E282', 'F0', 'F09F', 'F09F98', 'DF', 'EF', 'F4'],
    'lone-continuation': ['80', 'BF', 'A9', '8080', 'C3A9A9'],
    'overlong': ['C0AF', 'C080', 'C1BF', 'E080AF', 'E09FBF', 'F08080AF', 'F08FBFBF'],
    'surrogate': ['EDA080', 'EDAFBF', 'EDB080', 'EDBFBF', 'EDA0BDEDB880'],
    'too-large': ['F4908080', 'F5808080', 'F7BFBFBF'],
    'invalid-octet': ['F888808080', 'FC8480808080', 'FE', 'FF', 'FFFE'],
    'lead-then-ascii': ['C328', 'E228A1', 'E28228', 'F0288CBC', 'F09028BC', 'C3C3A9', 'E2C3A9'],
}
GOOD_TEXT = ['a', 'file', 'x.txt', '\u00e9', 'caf\u00e9', '\u20ac', ' ', 'a b', '\u5199', '\U0001f600', '\u00a3', '%', '100%', "it's", '(1)', '\x00', '\x7f', 'A' * 30]
NON_ATTR = [' ', '(', ')', ',', '/', ':', '<', '>', '?', '@', '[', ']', '{', '}', '*', '=', ';', '"', '\\', '\t', '\u00e9', '\u20ac', '\u00ff', '\x7f']
STRAY = ['%', '%%', '%G1', '%1', '%1G', '% 41', '%-1', '%\u00e9']
CHARSETS = (['UTF-8'] * 6 + ['utf-8', 'Utf-8', 'utf-8', 'ISO-8859-1', 'iso-8859-1', 'latin1', 'ISO_8859-1', 'US-ASCII', 'us-ascii', 'ascii', 'ASCII'])
CHARSETS_OTHER = ['windows-1252', 'cp1252', 'koi8-r', 'utf8', 'utf_8', 'UTF8', 'utf-16', 'utf-16-le', 'shift_jis', 'iso-8859-15', 'cp437', 'utf-7', 'idna', 'punycode']
CHARSETS_UNKNOWN = ['esoteric', 'x-unknown', 'utf-9', 'UTF-88', 'iso-8859-99', 'hex', 'rot13', 'base64', 'undefined', 'none', 'x']
CHARSETS_ODD = ['', 'UTF 8', 'UTF-8 ', ' UTF-8', 'UTF-8"', 'utf!8', 'utf+8', 'UTF-8*', '\u00fc', 'UTF-8\u00e9', 'UTF\x008', 'UTF-8;', 'UTF-8=', '%55TF-8', 'utf.8']
LANGS = [''] * 10 + ['en', 'en', 'en', 'de', 'fr', 'en-GB', 'en-GB', 'zh-Hant-TW', 'de-CH-1996']
LANGS_ODD = ['x' * 9, 'e n', '\u00e9', 'en_GB', '*', '%41', 'en-', '-en', '1', '\x00', 'en;q']


def grammar_value(rnd):
    """one ext-value-like string composed from the pieces above; the strict decoder says what it is -> (value, tags)"""
    tags = []
    r = rnd.random()
    if r < 0.68:
        cs = rnd.choice(CHARSETS)
    elif r < 0.80:
        cs = rnd.choice(CHARSETS_OTHER); tags.append('charset-optional')
    elif r < 0.89:
        cs = rnd.choice(CHARSETS_UNKNOWN); tags.append('charset-unknown')
    else:
        cs = rnd.choice(CHARSETS_ODD); tags.append('charset-odd-syntax')
    lang = rnd.choice(LANGS)
    if rnd.random() < 0.08:
        lang = rnd.choice(LANGS_ODD); tags.append('language-odd-syntax')
    kind, codec = charset_kind(cs)
    codec = codec or 'utf-8'
    items = []
    for _ in range(rnd.choice([0, 1, 1, 2, 2, 3, 4, 6])):
        k = rnd.random()
        if k < 0.45:
            t = rnd.choice(GOOD_TEXT)
            try:
                raw = t.encode(codec)
            except Exception:  # noqa  (the text has no encoding in that charset)
                raw = t.encode('utf-8')
            items.append(pct(raw, rnd, over=rnd.choice([0.0, 0.0, 0.3, 1.0]), lower=rnd.choice([0.0, 0.0, 0.5, 1.0])))
        elif k < 0.75:
            fam = rnd.choice(sorted(ILL_UTF8))
            hexs = rnd.choice(ILL_UTF8[fam])
            items.append(pct(bytes.fromhex(hexs), rnd, over=1.0, lower=rnd.choice([0.0, 0.0, 1.0])))
            tags.append('octets-' + fam)
        elif k < 0.83:
            items.append('%%%02X' % rnd.randrange(0x80, 0x100)); tags.append('octet>=0x80')
        elif k < 0.91:
            items.append(rnd.choice(STRAY)); tags.append('stray-percent')
        else:
            items.append(rnd.choice(NON_ATTR)); tags.append('non-attr-char')
    val = ''.join(items)
    q = rnd.random()
    if q < 0.86:
        v = f"{cs}'{lang}'{val}"
    elif q < 0.89:
        v = f"{cs}{lang}'{val}"; tags.append('quote-missing')
    elif q < 0.92:
        v = f"{cs}'{lang}{val}"; tags.append('quote-missing')
    elif q < 0.94:
        v = f"{cs}{lang}{val}"; tags.append('quote-missing')
    elif q < 0.97:
        j = rnd.randint(0, len(val)); v = f"{cs}'{lang}'{val[:j]}'{val[j:]}"; tags.append('quote-extra')
    else:
        v = f"{cs}''{lang}'{val}"; tags.append('quote-extra')
    if not val:
        tags.append('empty-value')
    return v, tags

"""Exception OBJECTS as an input dimension (C04): classes whose dunder methods misbehave, and instances that are raised in
unusual ways.  The property quantifies over "whatever is raised"; an exception is an object the framework may format,
compare, hash, test for truth or walk (cause / context / traceback) while it handles it - each of these is application code.

  kinds()                         the names of all behaviours
  build(kind, name, bases, ns)    -> a class derived from `bases` with the behaviour `kind` (class-level part)
  throw(kind, make)               raises make() the way `kind` says (instance-level part: cause / context chains and
                                  cycles, traceback manipulations, re-raising a used instance, notes, groups)

Nothing here imports falcon.  Every class derives from the given bases only (so from Exception when they do); the
behaviours never touch `__mro__`, `__class__` or `__init__`: what the object IS stays honest, only what it DOES when
looked at is hostile.
"""


class Hostile(RuntimeError):
    """what the hostile dunder methods raise (a RuntimeError, so it is itself an ordinary Exception)"""


def _boom(*a, **kw):
    raise Hostile('hostile dunder method of the raised exception')


def _ns(kind):
    """class namespace of the behaviour (class-level kinds)"""
    if kind == 'str_raises':
        return {'__str__': _boom}
    if kind == 'str_nonstr':
        return {'__str__': lambda self: None}
    if kind == 'str_attr_missing':
        return {'__str__': lambda self: 'invalid %s' % self.no_such_field}
    if kind == 'repr_raises':
        return {'__repr__': _boom}
    if kind == 'repr_nonstr':
        return {'__repr__': lambda self: 5}
    if kind == 'str_and_repr_raise':
        return {'__str__': _boom, '__repr__': _boom}
    if kind == 'format_raises':
        return {'__format__': _boom}
    if kind == 'args_raises':
        return {'args': property(_boom)}
    if kind == 'eq_raises':
        return {'__eq__': _boom, '__ne__': _boom, '__hash__': lambda self: 7}
    if kind == 'unhashable':
        return {'__eq__': lambda self, o: True, '__hash__': None}
    if kind == 'hash_raises':
        return {'__hash__': _boom}
    if kind == 'bool_false':
        return {'__bool__': lambda self: False}
    if kind == 'bool_raises':
        return {'__bool__': _boom}
    if kind == 'len_zero':
        return {'__len__': lambda self: 0}
    if kind == 'getattr_raises':
        # attribute lookups that MISS raise something that is not AttributeError
        return {'__getattr__': _boom}
    if kind == 'traceback_prop_raises':
        return {'__traceback__': property(_boom, lambda self, v: None)}
    if kind == 'cause_prop_raises':
        return {'__cause__': property(_boom, lambda self, v: None), '__context__': property(_boom, lambda self, v: None)}
    if kind == 'notes_nonlist':
        return {'__notes__': 5}
    if kind == 'notes_prop_raises':
        return {'__notes__': property(_boom)}
    if kind == 'notes_hostile_items':
        class N:
            __str__ = __repr__ = _boom
        return {'__notes__': ['ok', N(), 7, None]}
    if kind == 'dir_raises':
        return {'__dir__': _boom}
    if kind == 'slots_empty':
        return {'__slots__': ()}
    return {}


def _meta_attr(name, how):
    """metaclass namespace: reading `cls.<name>` raises / gives a non-str / gives an odd string (type.__new__ and the setters of
    type.__name__ / __qualname__ insist on str, so the lookup itself is intercepted)"""
    def __getattribute__(cls, attr):
        if attr == name:
            if how == 'raises':
                _boom()
            return {'nonstr': 42, 'odd': ' {0!r} %s\n\x00\xe9'}[how]
        return type.__getattribute__(cls, attr)
    return {'__getattribute__': __getattribute__}


_META_KINDS = {
    # a metaclass: `type(ex).__name__` (and friends) is then application code as well
    'meta_name_raises': _meta_attr('__name__', 'raises'),
    'meta_name_nonstr': _meta_attr('__name__', 'nonstr'),
    'meta_name_odd': _meta_attr('__name__', 'odd'),
    'meta_qualname_raises': _meta_attr('__qualname__', 'raises'),
    'meta_qualname_nonstr': _meta_attr('__qualname__', 'nonstr'),
    'meta_qualname_odd': _meta_attr('__qualname__', 'odd'),
    'meta_module_raises': _meta_attr('__module__', 'raises'),
    'meta_module_nonstr': _meta_attr('__module__', 'nonstr'),
    'meta_repr_raises': {'__repr__': _boom, '__str__': _boom},
    'meta_eq_raises': {'__eq__': _boom, '__ne__': _boom, '__hash__': type.__hash__},     # (still usable as a dict key: identity hash)
    'meta_getattr_raises': {'__getattr__': _boom},
}

CLASS_KINDS = ['str_raises', 'str_nonstr', 'str_attr_missing', 'repr_raises', 'repr_nonstr', 'str_and_repr_raise', 'format_raises', 'args_raises',
               'eq_raises', 'unhashable', 'hash_raises', 'bool_false', 'bool_raises', 'len_zero', 'getattr_raises', 'traceback_prop_raises',
               'cause_prop_raises', 'notes_nonlist', 'notes_prop_raises', 'notes_hostile_items', 'dir_raises', 'slots_empty'] + sorted(_META_KINDS)
THROW_KINDS = ['cause_hostile', 'context_hostile', 'cause_self', 'cause_cycle', 'context_cycle', 'chain_long', 'suppress_context', 'tb_none', 'tb_foreign',
               'reraised_instance', 'raised_class_not_instance', 'add_note', 'group', 'group_hostile', 'from_generator', 'from_del_frame']


# History: eight of these behaviours (__bool__ raising, a __traceback__ / __cause__ / __context__ / __notes__ property raising,
# __getattr__ raising a non-AttributeError, a metaclass whose __module__ / __qualname__ lookup raises or whose __qualname__ is not
# a str) made the built-in Exception handler itself raise - it logs through traceback.format_exc() / logging(exc_info=...), which
# read these attributes unguarded - so the error escaped to the server.  Found by this generator on 2026-09-30, repaired in /repo
# 703a4a2 ("always answer 500 for an unhandled exception, even if logging it fails"); all behaviours are generated.


def kinds():
    """the behaviours that are generated"""
    return ['plain'] + CLASS_KINDS + THROW_KINDS


def effective(kind, cls):
    """sanity check used by the harness: the class really has the behaviour it is named after (None = fine, else what is wrong)"""
    try:
        e = cls.__new__(cls)
        Exception.__init__(e, 'x')
    except Exception as ex:  # noqa
        return f'cannot instantiate: {ex!r}'
    probes = {
        'str_raises': lambda: str(e), 'str_nonstr': lambda: str(e), 'str_attr_missing': lambda: str(e), 'repr_raises': lambda: repr(e),
        'repr_nonstr': lambda: repr(e), 'str_and_repr_raise': lambda: (str(e), repr(e)), 'format_raises': lambda: '{}'.format(e),
        'args_raises': lambda: e.args, 'eq_raises': lambda: e == 1, 'unhashable': lambda: hash(e), 'hash_raises': lambda: hash(e),
        'bool_raises': lambda: bool(e), 'getattr_raises': lambda: e.no_such_attribute, 'traceback_prop_raises': lambda: e.__traceback__,
        'cause_prop_raises': lambda: e.__cause__, 'notes_prop_raises': lambda: e.__notes__, 'dir_raises': lambda: dir(e),
        'meta_name_raises': lambda: cls.__name__, 'meta_qualname_raises': lambda: cls.__qualname__, 'meta_module_raises': lambda: cls.__module__,
        'meta_repr_raises': lambda: repr(cls), 'meta_eq_raises': lambda: cls == 1, 'meta_getattr_raises': lambda: cls.no_such_attribute,
    }
    if kind in probes:
        try:
            probes[kind]()
        except Exception:  # noqa
            return None
        return 'the hostile method did not raise'
    checks = {
        'bool_false': lambda: not e, 'len_zero': lambda: not e and len(e) == 0, 'notes_nonlist': lambda: e.__notes__ == 5,
        'notes_hostile_items': lambda: len(e.__notes__) == 4, 'meta_name_nonstr': lambda: cls.__name__ == 42,
        'meta_qualname_nonstr': lambda: cls.__qualname__ == 42, 'meta_module_nonstr': lambda: cls.__module__ == 42,
        'meta_name_odd': lambda: '%s' in cls.__name__, 'meta_qualname_odd': lambda: '%s' in cls.__qualname__,
        'slots_empty': lambda: '__slots__' in cls.__dict__,
    }
    if kind in checks:
        return None if checks[kind]() else 'the behaviour is not observable on the class'
    return None


def build(kind, name, bases, ns=None):
    """a class `name(*bases)` with the class-level behaviour of `kind` (instance-level kinds: an ordinary class)"""
    d = dict(ns or {})
    d.update(_ns(kind))
    if kind in _META_KINDS:
        metas = {type(b) for b in bases}
        mbase = next((m for m in metas if all(issubclass(m, o) for o in metas)), None)     # the most derived metaclass of the bases
        if mbase is None:
            raise TypeError('metaclass conflict among the bases')
        meta = type('Meta_' + kind, (mbase,), dict(_META_KINDS[kind]))
        return meta(name, tuple(bases), d)
    return type(name, tuple(bases), d)


def _hostile_other():
    return build('str_and_repr_raise', 'HostileCause', (ValueError,))('cause')


def throw(kind, make):
    """raise make() - the way `kind` says"""
    if kind == 'cause_hostile':
        raise make() from _hostile_other()
    if kind == 'context_hostile':
        try:
            raise _hostile_other()
        except ValueError:
            raise make()
    if kind == 'cause_self':
        e = make()
        e.__cause__ = e
        raise e
    if kind == 'cause_cycle':
        e, o = make(), KeyError('other')
        e.__cause__, o.__cause__ = o, e
        raise e
    if kind == 'context_cycle':
        e, o = make(), KeyError('other')
        o.__context__ = e
        try:
            raise o
        except KeyError:
            raise e          # (the interpreter breaks the cycle it would create; what is left is still a chain)
    if kind == 'chain_long':
        e = make()
        cur = e
        for i in range(1200):           # longer than the default recursion limit
            nxt = ValueError(i)
            cur.__context__ = nxt
            cur = nxt
        raise e
    if kind == 'suppress_context':
        try:
            raise _hostile_other()
        except ValueError:
            raise make() from None
    if kind == 'tb_none':
        raise make().with_traceback(None)
    if kind == 'tb_foreign':
        try:
            raise KeyError('elsewhere')
        except KeyError as o:
            tb = o.__traceback__
        raise make().with_traceback(tb)
    if kind == 'reraised_instance':
        e = make()
        for _ in range(3):               # the instance has been raised and caught before: its traceback has grown
            try:
                raise e
            except BaseException:  # noqa
                pass
        raise e
    if kind == 'raised_class_not_instance':
        e = make()
        raise type(e)                    # `raise Cls`: the interpreter instantiates it without arguments (may fail -> that error)
    if kind == 'add_note':
        e = make()
        try:
            e.add_note('a note')
            e.add_note('é\x00\n')
        except Exception:  # noqa  (the class keeps something else under __notes__ / answers attribute reads with an error: then without notes)
            pass
        raise e
    if kind == 'group':
        raise ExceptionGroup('several', [make(), KeyError('k')])
    if kind == 'group_hostile':
        raise ExceptionGroup('several', [make(), _hostile_other(), ExceptionGroup('inner', [_hostile_other()])])
    if kind == 'from_generator':
        def g():
            yield 1
            raise make()
        it = g()
        next(it)
        next(it)
    if kind == 'from_del_frame':
        def f():
            raise make()
        try:
            f()
        except BaseException:  # noqa
            import sys
            tb = sys.exc_info()[2]            # (not e.__traceback__: reading that may be one of the hostile behaviours)
            while tb.tb_next is not None:
                tb = tb.tb_next
            try:
                tb.tb_frame.clear()       # the frame the error came from has been released
            except RuntimeError:
                pass
            raise
    raise make()

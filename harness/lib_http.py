"""Spec-level HTTP plumbing shared by C05 and C06.

Everything here is written from the specifications (PEP 3333 + RFC 3875 for WSGI, the ASGI HTTP
connection-scope / event spec, RFC 3986 / RFC 9110 for the wire request), *not* from ``falcon.testing``:

* ``Wire``                    a wire-level HTTP/1.1 request (what a server has parsed off the socket);
* ``wsgi_environ(w)``         what a PEP 3333 server hands to the application for it;
* ``asgi_scope(w)`` / ``asgi_events(body, cuts)``  what an ASGI server hands over for it;
* ``drive_wsgi`` / ``drive_asgi``  minimal servers: call the application, play the server's part of the protocol
                              (iterate + ``close()`` / ``receive`` + ``send``), record everything the server saw;
* ``pep3333_monitor`` / ``asgi_monitor``  independent protocol monitors over such a record.

Nothing in this module imports falcon.
"""
import asyncio
import contextlib
import io
import signal


# ---------------------------------------------------------------- deadlines that survive a starved machine

class Stall(BaseException):
    """Deadline expired.  A BaseException, so that the application under test (which catches Exception and turns it
    into a 500) cannot swallow it."""


def _on_alarm(signum, frame):
    raise Stall()


@contextlib.contextmanager
def _deadline(seconds):
    old = signal.signal(signal.SIGALRM, _on_alarm)
    signal.setitimer(signal.ITIMER_REAL, seconds)
    try:
        yield
    finally:
        signal.setitimer(signal.ITIMER_REAL, 0)
        signal.signal(signal.SIGALRM, old)


def guarded(fn, limits=(3.0, 20.0)):
    """Run the deterministic thunk `fn`; if it does not return within limits[0] seconds run it afresh with limits[1]
    (an overloaded machine can starve a worker for seconds; only a repeated expiry counts as "did not return").
    Returns (result, hung)."""
    for limit in limits:
        try:
            with _deadline(limit):
                return fn(), False
        except Stall:
            continue
    return None, True


# ---------------------------------------------------------------- wire request

class Wire:
    """A parsed HTTP/1.1 request as it appears on the wire plus the connection facts a server knows.

    target   ASCII request-target in origin-form: ``/path[?query]`` (RFC 3986 characters only; arbitrary bytes
             appear percent-encoded)
    headers  list of (name, value): names are tokens in any case, may repeat; values are latin-1 strings without
             leading/trailing whitespace (the HTTP parser strips OWS)
    body     bytes (already de-framed)
    """

    def __init__(self, method='GET', target='/', headers=(), body=b'', scheme='http', server=('localhost', 80),
                 client=None, root_path=''):
        self.method, self.target, self.headers, self.body = method, target, list(headers), body
        self.scheme, self.server, self.client, self.root_path = scheme, server, client, root_path

    def describe(self):
        return {'method': self.method, 'target': self.target, 'headers': [list(h) for h in self.headers],
                'body': self.body, 'scheme': self.scheme, 'server': list(self.server),
                'client': list(self.client) if self.client else None, 'root_path': self.root_path}


_HEX = '0123456789abcdefABCDEF'


def pct_decode(s):
    """RFC 3986 percent-decoding of an ASCII string to bytes (a '%' not followed by two hex digits stays literal)."""
    out = bytearray()
    i = 0
    while i < len(s):
        c = s[i]
        if c == '%' and len(s) - i >= 3 and s[i + 1] in _HEX and s[i + 2] in _HEX:
            out.append(int(s[i + 1:i + 3], 16))
            i += 3
        else:
            out.append(ord(c))
            i += 1
    return bytes(out)


# ---------------------------------------------------------------- WSGI side (PEP 3333, RFC 3875)

def wsgi_environ(w, file_wrapper=None, errors=None):
    path_raw, _, query = w.target.partition('?')
    env = {
        'REQUEST_METHOD': w.method,
        'SCRIPT_NAME': w.root_path,
        # PEP 3333: native strings that only contain code points representable in ISO-8859-1: the server
        # percent-decodes the path and passes the bytes "tunnelled" as latin-1
        'PATH_INFO': pct_decode(path_raw).decode('latin-1'),
        'QUERY_STRING': query,
        'SERVER_NAME': w.server[0],
        'SERVER_PORT': str(w.server[1]),
        'SERVER_PROTOCOL': 'HTTP/1.1',
        'wsgi.version': (1, 0),
        'wsgi.url_scheme': w.scheme,
        'wsgi.input': io.BytesIO(w.body),
        'wsgi.errors': errors if errors is not None else io.StringIO(),
        'wsgi.multithread': False,
        'wsgi.multiprocess': False,
        'wsgi.run_once': False,
    }
    if w.client:
        env['REMOTE_ADDR'] = w.client[0]
        env['REMOTE_PORT'] = str(w.client[1])
    for name, value in w.headers:
        key = name.upper().replace('-', '_')
        if key not in ('CONTENT_TYPE', 'CONTENT_LENGTH'):
            key = 'HTTP_' + key
        # RFC 3875 4.1.18 / RFC 9110 5.3: several field lines with one name are combined with ","
        env[key] = (env[key] + ',' + value) if key in env else value
    if file_wrapper is not None:
        env['wsgi.file_wrapper'] = file_wrapper
    return env


class FileWrapper:
    """A server-supplied ``wsgi.file_wrapper`` as PEP 3333 describes it (iterates read(block), close() closes the file)."""

    def __init__(self, filelike, blksize=8192):
        self.filelike, self.blksize = filelike, blksize

    def __iter__(self):
        return self

    def __next__(self):
        data = self.filelike.read(self.blksize)
        if data:
            return data
        raise StopIteration

    def close(self):
        if hasattr(self.filelike, 'close'):
            self.filelike.close()


def drive_wsgi(app, env, abandon_after=None, catch=None):
    """Play the server.  Returns the record of everything the server observed.

    abandon_after=k: the server stops after k chunks (client went away / its write failed) - it still owes close().
    catch: further BaseException-only classes that the application's stream may raise on purpose (they are recorded like
    an Exception; an exception raised by close() on the iterable is then recorded as rec['close_exc'] instead of propagating)."""
    rec = {'start': [], 'order': [], 'chunks': [], 'app_exc': None, 'iter_exc': None, 'returned': None,
           'closed_iterable': 0, 'complete': False, 'writes': 0, 'close_exc': None}
    caught = (Exception,) + tuple(catch or ())

    def start_response(status, headers, exc_info=None):
        rec['start'].append((status, headers, exc_info))
        rec['order'].append('start')

        def write(data):
            rec['writes'] += 1
            rec['order'].append('write')
        return write

    try:
        it = app(env, start_response)
    except Exception as e:  # noqa
        rec['app_exc'] = e
        return rec
    rec['returned'] = it
    try:
        try:
            if abandon_after != 0:
                for chunk in it:
                    rec['chunks'].append(chunk)
                    rec['order'].append('chunk')
                    if abandon_after is not None and len(rec['chunks']) >= abandon_after:
                        break
                else:
                    rec['complete'] = True
        except caught as e:  # noqa
            rec['iter_exc'] = e
    finally:
        # PEP 3333: "If the iterable returned by the application has a close() method, the server or gateway must
        # call that method upon completion of the current request, whether the request was completed normally, or
        # terminated early due to an application error during iteration or an early disconnect of the browser."
        close = getattr(it, 'close', None)
        if close is not None:
            rec['closed_iterable'] += 1
            if catch is None:
                close()
            else:
                try:
                    close()
                except caught as e:  # noqa
                    rec['close_exc'] = e
    return rec


def _is_token(s):
    return bool(s) and all(33 <= ord(c) < 127 and c not in '()<>@,;:\\"/[]?={}' for c in s)


def pep3333_monitor(rec):
    """Violations of the application side of PEP 3333 visible in a server record (empty list = conforming)."""
    bad = []
    if rec['app_exc'] is not None:
        return bad  # nothing was handed to the server; whether raising is acceptable is the caller's question
    n = sum(1 for s in rec['start'] if s[2] is None)
    if n != 1 or len(rec['start']) != 1:
        bad.append(f'start_response called {len(rec["start"])} times')
        return bad
    if rec['order'] and rec['order'][0] != 'start' and rec['chunks']:
        bad.append('the iterable yielded before start_response was called')
    status, headers, _ = rec['start'][0]
    if type(status) is not str:
        bad.append(f'status is {type(status).__name__}, not a native string')
    else:
        if not (len(status) >= 4 and status[:3].isdigit() and status[:3].isascii() and status[3] == ' '):
            bad.append(f'status line {status!r} is not "NNN reason"')
        elif int(status[:3]) < 100:
            bad.append(f'status code {status[:3]} < 100')
        if any(ord(c) < 32 or ord(c) == 127 or ord(c) > 255 for c in status):
            bad.append('status line contains control / non-latin-1 characters')
        if status != status.rstrip():
            bad.append('status line ends with whitespace')
    if type(headers) is not list:
        bad.append(f'headers is {type(headers).__name__}, not a list')
    else:
        for h in headers:
            if type(h) is not tuple or len(h) != 2:
                bad.append(f'header item {h!r} is not a 2-tuple')
                continue
            k, v = h
            if type(k) is not str or type(v) is not str:
                bad.append(f'header {k!r}: {v!r} is not a pair of native strings')
                continue
            if not _is_token(k):
                bad.append(f'header name {k!r} is not a token')
            if any(ord(c) < 32 and c != '\t' or ord(c) == 127 or ord(c) > 255 for c in v):
                bad.append(f'header value of {k!r} contains control / non-latin-1 characters')
            if k.lower() == 'content-length' and not (v.isdigit() and v.isascii()):
                bad.append(f'Content-Length {v!r} is not a number')
            if k.lower() == 'status':
                bad.append('a "Status" header is not allowed')
    for c in rec['chunks']:
        if type(c) is not bytes:
            bad.append(f'iterable yielded {type(c).__name__}, not bytes')
            break
    if rec['writes']:
        pass  # write() is legal (legacy); falcon never uses it
    return bad


# ---------------------------------------------------------------- ASGI side (asgi.readthedocs.io/specs/www.html)

def asgi_scope(w, spec_version='2.3'):
    path_raw, _, query = w.target.partition('?')
    scope = {
        'type': 'http',
        'asgi': {'version': '3.0', 'spec_version': spec_version},
        'http_version': '1.1',
        'method': w.method.upper(),
        'scheme': w.scheme,
        # "path: HTTP request target excluding any query string, with percent-encoded sequences and UTF-8 byte
        #  sequences decoded into characters" - servers decode leniently (U+FFFD for invalid sequences)
        'path': pct_decode(path_raw).decode('utf-8', 'replace'),
        'raw_path': path_raw.encode('ascii'),
        'query_string': query.encode('ascii'),
        'root_path': w.root_path,
        # "headers: an iterable of [name, value] two-item iterables ... names lowercased ... order preserved"
        'headers': [[name.lower().encode('latin-1'), value.encode('latin-1')] for name, value in w.headers],
        'server': [w.server[0], w.server[1]],
    }
    if w.client:
        scope['client'] = [w.client[0], w.client[1]]
    return scope


def asgi_events(body, cuts=()):
    """The http.request events for `body` cut at the given offsets (an empty piece is a legal event)."""
    pieces = []
    last = 0
    for c in cuts:
        c = max(last, min(len(body), c))
        pieces.append(body[last:c])
        last = c
    pieces.append(body[last:])
    evs = []
    for i, p in enumerate(pieces):
        evs.append({'type': 'http.request', 'body': p, 'more_body': i < len(pieces) - 1})
    return evs


async def drive_asgi(app, scope, events, send_fail_at=None, timeout=2.0, disconnect_after_body=False):
    """Play the server for one request.  send_fail_at=k: the k-th send() (0-based) raises OSError (peer went away)."""
    rec = {'attempts': [], 'sent': [], 'app_exc': None, 'hang': False, 'send_failed': False, 'complete': False,
           'receives': 0}
    q = list(events)
    never = asyncio.get_running_loop().create_future()

    async def receive():
        rec['receives'] += 1
        if q:
            return q.pop(0)
        if disconnect_after_body:
            return {'type': 'http.disconnect'}
        await never  # a live client that sends nothing more

    async def send(msg):
        idx = len(rec['attempts'])
        rec['attempts'].append(msg)
        if send_fail_at is not None and idx == send_fail_at:
            rec['send_failed'] = True
            raise OSError('send failed: peer went away')
        rec['sent'].append(msg)

    try:
        await asyncio.wait_for(app(scope, receive, send), timeout)
        rec['complete'] = True
    except asyncio.TimeoutError:
        rec['hang'] = True
    except Exception as e:  # noqa
        rec['app_exc'] = e
    return rec


async def drive_asgi_task(app, scope, events, send_fail_at=None, send_exc=None, cancel_at_send=None, timeout=2.0):
    """drive_asgi with the application running in a task of its own, as under a real server, and more ways for the server side to
    end the exchange: the k-th send() raises `send_exc` (any BaseException class; default OSError), or - cancel_at_send=k - the
    server cancels the application's task while it is suspended in its k-th send() (client disconnect / shutdown).
    Whatever leaves the application - BaseException-only classes included - is recorded in rec['app_exc']."""
    rec = {'attempts': [], 'sent': [], 'app_exc': None, 'hang': False, 'send_failed': False, 'complete': False,
           'receives': 0, 'cancelled': False}
    q = list(events)
    loop = asyncio.get_running_loop()
    never = loop.create_future()
    box = {}

    async def receive():
        rec['receives'] += 1
        if q:
            return q.pop(0)
        await never  # a live client that sends nothing more

    async def send(msg):
        idx = len(rec['attempts'])
        rec['attempts'].append(msg)
        if send_fail_at is not None and idx == send_fail_at:
            rec['send_failed'] = True
            raise (send_exc or OSError)('send failed: peer went away')
        if cancel_at_send is not None and idx == cancel_at_send:
            rec['send_failed'] = True                  # the event is not delivered
            fut = loop.create_future()                 # (the transport's drain the server would be waiting on)
            loop.call_soon(box['task'].cancel)
            await fut
        rec['sent'].append(msg)

    task = box['task'] = asyncio.ensure_future(app(scope, receive, send))
    done, pending = await asyncio.wait({task}, timeout=timeout)
    if pending:
        rec['hang'] = True
        task.cancel()
        await asyncio.wait({task}, timeout=1.0)
        return rec
    if task.cancelled():
        rec['cancelled'] = True
        rec['app_exc'] = asyncio.CancelledError()
        return rec
    exc = task.exception()
    if exc is None:
        rec['complete'] = True
    else:
        rec['app_exc'] = exc
    return rec


def asgi_monitor(rec):
    """Violations of the ASGI HTTP response protocol in what was passed to send() (empty list = conforming).

    For a run that ended normally the whole exchange must be start, body*, final body; for a run cut short by an
    exception (the stream or send raised) what was sent must be a prefix of such an exchange."""
    bad = []
    msgs = rec['attempts']
    if rec['hang']:
        bad.append('the application did not return')
    complete = rec['complete'] and not rec['send_failed']
    if not msgs:
        if complete:
            bad.append('the application returned without sending a response')
        return bad
    for m in msgs:
        if type(m) is not dict or type(m.get('type')) is not str:
            bad.append(f'event {m!r} is not a dict with a str "type"')
            return bad
    first = msgs[0]
    if first['type'] != 'http.response.start':
        bad.append(f'first event is {first["type"]}, not http.response.start')
        return bad
    if sum(1 for m in msgs if m['type'] == 'http.response.start') != 1:
        bad.append('more than one http.response.start')
    st = first.get('status')
    if type(st) is not int or not 100 <= st <= 999:
        bad.append(f'status {st!r} is not an int in 100..999')
    try:
        hs = [tuple(h) for h in first.get('headers', [])]
    except TypeError:
        hs = None
    if hs is None:
        bad.append('headers is not an iterable of pairs')
    else:
        for h in hs:
            if len(h) != 2 or type(h[0]) is not bytes or type(h[1]) is not bytes:
                bad.append(f'header {h!r} is not a pair of byte strings')
                continue
            if h[0] != h[0].lower():
                bad.append(f'header name {h[0]!r} is not lower-case')
            if not _is_token(h[0].decode('latin-1')):
                bad.append(f'header name {h[0]!r} is not a token')
            if any(c < 32 and c != 9 or c == 127 for c in h[1]):
                bad.append(f'header value of {h[0]!r} contains control characters')
            if h[0] == b'content-length' and not h[1].isdigit():
                bad.append(f'Content-Length {h[1]!r} is not a number')
    bodies = msgs[1:]
    ended = False
    for i, m in enumerate(bodies):
        if ended:
            bad.append(f'event {m["type"]} after the final body event')
            break
        if m['type'] != 'http.response.body':
            bad.append(f'event {m["type"]} where http.response.body is expected')
            break
        if 'body' in m and type(m['body']) is not bytes:
            bad.append(f'body is {type(m["body"]).__name__}, not bytes')
        mb = m.get('more_body', False)
        if type(mb) is not bool:
            bad.append(f'more_body is {mb!r}, not a bool')
        if not mb:
            ended = True
    if complete and not ended:
        bad.append('the application returned without a final body event (more_body false)' if bodies
                   else 'no body event after http.response.start')
    return bad


def asgi_response(rec):
    """(status, [(name, value)] as latin-1 str, [body of each body event]) of what was successfully sent, or None."""
    s = rec['sent']
    if not s or s[0].get('type') != 'http.response.start':
        return None
    hs = [(bytes(k).decode('latin-1'), bytes(v).decode('latin-1')) for k, v in s[0].get('headers', [])]
    return s[0].get('status'), hs, [m.get('body', b'') for m in s[1:] if m.get('type') == 'http.response.body']

"""Minimal WSGI / ASGI drivers for property checks that need the exact header list handed to the server and full
control over the request path (C15, C16).  Nothing here imports falcon at module import time.

  wsgi_call(app, method, path_bytes, headers)  -> (status:int, [(name, value)], body:bytes)
  AsgiDriver().call(app, method, path_bytes, headers) -> (status:int, [(name:str, value:str)], body:bytes, raw_header_list)

`path_bytes` are the *percent-decoded* octets of the request path as a server would hand them on: PEP 3333 servers put them
into PATH_INFO as a latin-1 str, ASGI servers decode them as UTF-8 (errors='replace') into scope['path'].
"""
import asyncio


def pct_decode(raw: bytes) -> bytes:
    """Percent-decode a raw request-target path the way HTTP servers do (invalid escapes stay literal)."""
    hexd = b'0123456789abcdefABCDEF'
    out = bytearray()
    i = 0
    n = len(raw)
    while i < n:
        c = raw[i]
        if c == 0x25 and i + 3 <= n and raw[i + 1] in hexd and raw[i + 2] in hexd:
            out.append(int(raw[i + 1:i + 3].decode('ascii'), 16))
            i += 3
            continue
        out.append(c)
        i += 1
    return bytes(out)


def wsgi_call(app, method, path_bytes, headers=None, file_wrapper=None, query_string=''):
    import falcon.testing as ft
    env = ft.create_environ(method=method, path='/', headers=headers or {}, query_string=query_string)
    env['PATH_INFO'] = path_bytes.decode('latin-1')
    if file_wrapper is not None:
        env['wsgi.file_wrapper'] = file_wrapper
    cap = {}

    def start_response(status, hdrs, exc_info=None):
        cap['status'] = status
        cap['headers'] = list(hdrs)

    it = app(env, start_response)
    try:
        body = b''.join(it)
    finally:
        close = getattr(it, 'close', None)
        if close:
            close()
    return int(cap['status'].split(' ', 1)[0]), cap['headers'], body


def simple_file_wrapper(f, block=8192):
    class W:
        def __init__(s):
            s.f = f
            s.close = getattr(f, 'close', lambda: None)

        def __iter__(s):
            return s

        def __next__(s):
            d = f.read(block)
            if not d:
                raise StopIteration
            return d
    return W()


class AsgiDriver:
    def __init__(self):
        self.loop = asyncio.new_event_loop()

    def close(self):
        try:
            self.loop.run_until_complete(self.loop.shutdown_default_executor())
        except Exception:  # noqa
            pass
        self.loop.close()

    def call(self, app, method, path_bytes, headers=None, timeout=10.0, query_string=''):
        import falcon.testing as ft
        scope = ft.create_scope(method=method, path='/', headers=headers or {}, query_string=query_string)
        scope['path'] = path_bytes.decode('utf-8', 'replace')
        scope['raw_path'] = path_bytes
        events = []

        async def go():
            sent = [False]
            never = asyncio.get_running_loop().create_future()

            async def receive():
                if not sent[0]:
                    sent[0] = True
                    return {'type': 'http.request', 'body': b'', 'more_body': False}
                await never

            async def send(e):
                events.append(e)
            await asyncio.wait_for(app(scope, receive, send), timeout)
        self.loop.run_until_complete(go())
        start = next(e for e in events if e['type'] == 'http.response.start')
        body = b''.join(e.get('body', b'') for e in events if e['type'] == 'http.response.body')
        raw = list(start.get('headers', []))
        hdrs = [(k.decode('latin-1'), v.decode('latin-1')) for k, v in raw]
        return start['status'], hdrs, body, raw

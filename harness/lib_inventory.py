"""Inventory of process-wide mutable state by an AST scan (no import) of ``$FALCON_REPO/falcon`` - used by C19.

``scan(root)`` returns ``{(file, qualname): Item}``: every piece of state that outlives one request and can be written after
import, found by purely syntactic detectors (they over-approximate; the hand-written table in ``props/c19.py`` classifies
every hit, and the check fails when source and table disagree):

  memo         a function/method decorated with ``functools.lru_cache`` / ``cache`` / ``cached_property`` (or with a
               package-level alias of them such as ``misc._lru_cache_for_simple_logic``), at any nesting depth, and the
               assignment forms ``name = lru_cache(...)(f)`` / ``name = lru_cache(f)`` / ``self.x = lru_cache(...)(f)``; more
               generally EVERY application ``lru_cache(...)(f)`` / ``cache(f)`` written as a call expression - anywhere in the
               right-hand side of an assignment (``self.x = given or lru_cache(...)(f)``, conditional expressions, container
               displays, call arguments), in a ``return``, a default value, a ``setattr`` ... (named after the assignment
               target if there is one, else ``<enclosing function>.<memo-expr>``)
  partial-state ``functools.partial(f, {}, ...)``: a partial object that binds a mutable container (a hidden cache argument)
  module-state a module-level name bound to a dict/list/set/bytearray/deque literal, comprehension or constructor call, or
               to an instance (call of a class of the package), or rebound through a ``global`` statement - that is
               mutated inside some function of the package (subscript store/delete, ``.append/.add/.update/...``,
               augmented assignment, attribute store, ``global`` + assignment)
  default-arg  a function parameter with a mutable default (``{}``, ``[]``, ``set()``, ``dict()`` ...) - the "kwarg cache" idiom
  class-attr   a class attribute written through ``cls.X`` / ``ClassName.X`` / ``type(self).X`` / ``self.__class__.X``
               inside a function, or a class-level mutable literal mutated in place through ``self.X`` / ``cls.X`` by a method
               of a class that never rebinds ``self.X`` in ``__init__``
  inst-attr    an instance attribute of a long-lived class (every class of the package except the ones listed as
               per-request in the table) that is stored, augmented or mutated in place (``self.X = ``, ``self.X += ``,
               ``self.X[k] = ``, ``del self.X[k]``, ``self.X.append(...)`` ...) in a method other than ``__init__`` /
               ``__new__`` / ``__post_init__`` - directly or through a local alias (``x = self.X`` ... ``x[k] = v``: form
               ``alias:store[]``)
  lazy-init    (a form of inst-attr / class-attr / module-state items) ``if self.X is None: self.X = V`` / ``x = self.X; if x is
               None: x = self.X = V`` / ``if not self.X`` / ``if not hasattr(self, 'X')`` / ``try: self.X except AttributeError:
               self.X = V`` outside ``__init__``: state created by the first request(s) that need it.  The form records what is
               created: ``lazy-init:lock`` (Lock/RLock/Event/Condition/Semaphore - an OBSERVABLE value: two racing initialisers hold
               different locks), ``lazy-init:container``, ``lazy-init:instance:<Class>``, ``lazy-init:call:<callee>``, ``lazy-init:expr``

  closure-cell a local name of a FACTORY function (any function that defines inner functions) that is bound there by an assignment and is
               a free variable of an inner function: the object lives as long as the inner function does (a responder created per route at
               add_route(), a wrapper created once per decorated function ...) and is shared by every call of it.  The shape records what
               the cell is bound to (``container`` / ``instance:<Class>`` / ``call:<callee>`` / ``alias-of:<name>`` / ``expr``; cells bound to
               values that are certainly immutable - constants, str methods, arithmetic on them - are not reported) and what the inner
               functions do with it: ``read`` / ``call`` (called) / ``arg`` (passed on) / ``raise`` / ``return`` / ``yield`` / ``mutate`` / ``attr``
               (an attribute or item of it is read).  A cell bound to a fresh INSTANCE that the inner function RAISES or RETURNS is an
               object created once and handed to every request (a pre-built exception): no proved kind admits that shape.
  lock-use     a CONDITIONAL lock acquisition ``<expr>.acquire(blocking=False)`` / ``.acquire(timeout=t)`` (any ``.acquire`` call with an
               argument) with what the code does with the result (``ignored`` / ``tested`` / ``bound:<name>`` [``,guards-release-only``] ...):
               the kind ``lock-protected`` is proved for ``with lock:`` / a blocking acquire (models Sc, Ll.run); a timed acquire whose
               result does not guard the critical section gives no mutual exclusion (Ll.timed_ignored_witness)
  shared-raise ``raise self.X`` in a method of a long-lived class, or ``raise name`` where ``name`` is a module-level object that is not a
               class: an exception object that exists before the request and is raised into it

  access-shape (a form added to items found by the detectors above) ``iter:<how>`` / ``locked-iter:<how>``: some function of the package ITERATES over the
               shared container (``for``, comprehension, ``.values()/.items()/.keys()``, ``list()/sorted()/tuple()/any()/join()``, ``*X``, ``range(len(X))``)
               outside / inside a ``with <lock>:`` block.  An iteration is not one atomic operation: it is not part of the get / capped-insert
               protocol of the memo model (Sm) nor of test-and-set (Lz), so no memo / lazy kind admits it.

The ``shape`` of an item is a short canonical string (decorator text with its arguments; the set of mutation forms); a change of
shape (e.g. ``lru_cache(maxsize=64)`` -> ``lru_cache(maxsize=None)``, or a new kind of mutation) is reported like a new item.
"""
import ast
import os

SKIP_DIRS = ('testing', 'bench', 'cmd', 'vendor', 'cyutil')
MEMO_TAILS = {'lru_cache', 'cache', 'cached_property'}
MUTATORS = {'append', 'add', 'update', 'setdefault', 'pop', 'clear', 'extend', 'insert', 'remove', 'discard', 'popitem',
            'appendleft', 'popleft', 'sort', 'reverse', '__setitem__', '__delitem__', 'cache_clear'}
MUTABLE_CTORS = {'dict', 'list', 'set', 'bytearray', 'defaultdict', 'OrderedDict', 'deque', 'Counter', 'WeakValueDictionary',
                 'WeakKeyDictionary', 'WeakSet', 'ChainMap'}
SYNC_CTORS = {'Lock', 'RLock', 'Semaphore', 'BoundedSemaphore', 'Event', 'Condition', 'Barrier', 'allocate_lock'}
TRACK_ARGS = True
IMMUTABLE_METHODS = {'join', 'format', 'lower', 'upper', 'strip', 'lstrip', 'rstrip', 'encode', 'decode', 'replace', 'title', 'capitalize', 'casefold',
                     'str', 'int', 'float', 'bool', 'bytes', 'tuple', 'frozenset', 'len', 'repr', 'hash', 'id', 'ord', 'chr', 'isinstance', 'issubclass', 'callable'}
INIT_METHODS = {'__init__', '__new__', '__post_init__', '__init_subclass__', '__set_name__'}


def repo_root():
    return os.environ.get('FALCON_REPO', '/repo')


def source_files(root=None):
    base = os.path.join(root or repo_root(), 'falcon')
    out = []
    for d, dirs, files in os.walk(base):
        rel = os.path.relpath(d, base)
        parts = [] if rel == '.' else rel.split(os.sep)
        if parts and parts[0] in SKIP_DIRS:
            dirs[:] = []
            continue
        dirs[:] = sorted(x for x in dirs if not (not parts and x in SKIP_DIRS) and x != '__pycache__')
        for f in sorted(files):
            if f.endswith('.py'):
                out.append(os.path.join(d, f))
    return base, out


def dotted(node):
    """'a.b.c' for Name/Attribute chains, else None"""
    parts = []
    while isinstance(node, ast.Attribute):
        parts.append(node.attr)
        node = node.value
    if isinstance(node, ast.Name):
        parts.append(node.id)
        return '.'.join(reversed(parts))
    return None


def _unparse(node):
    try:
        return ast.unparse(node)
    except Exception:  # noqa
        return '?'


def _camel(name):
    n = name.lstrip('_')
    return bool(n) and n[0].isupper() and not n.isupper() and n not in ('TypeVar', 'NewType', 'Literal', 'Union', 'Optional')


def _is_mutable_value(node, class_names):
    """literal / comprehension / constructor call producing a mutable container, or an instance of a package class"""
    if isinstance(node, (ast.Dict, ast.List, ast.Set, ast.DictComp, ast.ListComp, ast.SetComp)):
        return 'container'
    if isinstance(node, ast.Call):
        d = dotted(node.func)
        if d:
            tail = d.split('.')[-1]
            if tail in MUTABLE_CTORS:
                return 'container'
            if tail in class_names or _camel(tail):
                return 'instance:' + tail
    return None


class Item:
    __slots__ = ('file', 'qualname', 'detector', 'shape', 'lines')

    def __init__(self, file, qualname, detector):
        self.file, self.qualname, self.detector = file, qualname, detector
        self.shape = set()
        self.lines = []

    def key(self):
        return (self.file, self.qualname)

    def shape_str(self):
        return self.detector + ':' + ','.join(sorted(self.shape))

    def __repr__(self):
        return f'<{self.file} {self.qualname} {self.shape_str()} @{self.lines[:4]}>'


class _Scope:
    """a function scope: locally bound names"""
    def __init__(self, node, parent, cls):
        self.node, self.parent, self.cls = node, parent, cls
        self.locals = set()
        self.globals = set()
        self.aliases = {}            # local name -> X for `name = self.X` / `name = self.X = value`
        if node is not None:
            a = node.args
            for x in a.posonlyargs + a.args + a.kwonlyargs:
                self.locals.add(x.arg)
            if a.vararg:
                self.locals.add(a.vararg.arg)
            if a.kwarg:
                self.locals.add(a.kwarg.arg)
            for n in _walk_same_scope(node):
                if isinstance(n, ast.Global):
                    self.globals.update(n.names)
            for n in _walk_same_scope(node):
                for t in _binding_targets(n):
                    if t not in self.globals:
                        self.locals.add(t)
                if isinstance(n, ast.Assign):
                    attrs = [dotted(t) for t in n.targets if isinstance(t, ast.Attribute)]
                    if isinstance(n.value, ast.Attribute):
                        attrs.append(dotted(n.value))
                    attrs = [a for a in attrs if a and a.startswith('self.') and a.count('.') == 1]
                    if attrs:
                        for t in n.targets:
                            if isinstance(t, ast.Name):
                                self.aliases[t.id] = attrs[0].split('.')[1]

    def alias_of(self, name):
        s = self
        while s is not None and s.node is not None:
            if name in s.aliases:
                return s.aliases[name]
            if name in s.locals:
                return None
            s = s.parent
        return None

    def is_local(self, name):
        s = self
        while s is not None and s.node is not None:
            if name in s.globals:
                return False
            if name in s.locals:
                return True
            s = s.parent
        return False


def _walk_same_scope(fn):
    """nodes of the body of `fn` without descending into nested functions/classes/lambdas"""
    stack = list(fn.body)
    while stack:
        n = stack.pop()
        yield n
        for c in ast.iter_child_nodes(n):
            if isinstance(c, (ast.FunctionDef, ast.AsyncFunctionDef, ast.ClassDef, ast.Lambda)):
                continue
            stack.append(c)


def _calls_in(expr):
    """every Call node inside the expression `expr` (not inside nested lambdas)"""
    stack = [expr]
    while stack:
        n = stack.pop()
        if isinstance(n, ast.Call):
            yield n
        for c in ast.iter_child_nodes(n):
            if not isinstance(c, ast.Lambda):
                stack.append(c)


def _names_in_target(t):
    if isinstance(t, ast.Name):
        yield t.id
    elif isinstance(t, (ast.Tuple, ast.List)):
        for e in t.elts:
            yield from _names_in_target(e)
    elif isinstance(t, ast.Starred):
        yield from _names_in_target(t.value)


def _binding_targets(n):
    if isinstance(n, ast.Assign):
        for t in n.targets:
            yield from _names_in_target(t)
    elif isinstance(n, (ast.AnnAssign, ast.AugAssign)):
        yield from _names_in_target(n.target)
    elif isinstance(n, (ast.For, ast.AsyncFor)):
        yield from _names_in_target(n.target)
    elif isinstance(n, (ast.With, ast.AsyncWith)):
        for it in n.items:
            if it.optional_vars is not None:
                yield from _names_in_target(it.optional_vars)
    elif isinstance(n, ast.ExceptHandler) and n.name:
        yield n.name
    elif isinstance(n, (ast.Import, ast.ImportFrom)):
        for a in n.names:
            yield (a.asname or a.name).split('.')[0]
    elif isinstance(n, ast.NamedExpr):
        yield from _names_in_target(n.target)


def _cell_value_kinds(v, class_names):
    """what a closure cell is bound to: {'immutable'} | {'container'} | {'instance:C'} | {'call:f'} | {'alias-of:n'} | {'expr'} (unions for conditionals)"""
    if isinstance(v, (ast.Constant, ast.JoinedStr, ast.Lambda)):
        return {'immutable'}
    if isinstance(v, ast.Call):
        d = dotted(v.func)
        tail = d.split('.')[-1] if d else (v.func.attr if isinstance(v.func, ast.Attribute) else '?')
        if tail == 'cast' and len(v.args) == 2:
            return _cell_value_kinds(v.args[1], class_names)
        mv = _is_mutable_value(v, class_names)
        if mv:
            return {mv}
        if tail in IMMUTABLE_METHODS:
            return {'immutable'}
        return {'call:' + tail}
    mv = _is_mutable_value(v, class_names)
    if mv:
        return {mv}
    if isinstance(v, ast.IfExp):
        return _cell_value_kinds(v.body, class_names) | _cell_value_kinds(v.orelse, class_names)
    if isinstance(v, ast.BoolOp):
        out = set()
        for x in v.values:
            out |= _cell_value_kinds(x, class_names)
        return out
    if isinstance(v, ast.BinOp):
        ks = _cell_value_kinds(v.left, class_names) | _cell_value_kinds(v.right, class_names)
        return {'immutable'} if 'immutable' in ks and not (ks & {'container'}) and all(k in ('immutable', 'expr') or k.startswith('alias-of:') for k in ks) else {'expr'}
    if isinstance(v, (ast.Compare, ast.UnaryOp)):
        return {'immutable'}
    if isinstance(v, ast.Tuple):
        out = set()
        for x in v.elts:
            out |= _cell_value_kinds(x, class_names)
        return out or {'immutable'}
    if isinstance(v, ast.Name):
        return {'alias-of:' + v.id}
    return {'expr'}


def _cell_uses(G, name):
    """how the inner function G (and the functions nested in it) uses the free variable `name`"""
    uses = set()
    parents = {}
    for x in ast.walk(G):
        for c in ast.iter_child_nodes(x):
            parents[id(c)] = x
    for x in ast.walk(G):
        if not (isinstance(x, ast.Name) and x.id == name and isinstance(x.ctx, ast.Load)):
            continue
        p = parents.get(id(x))
        if isinstance(p, ast.Raise) and (p.exc is x or p.cause is x):
            uses.add('raise')
        elif isinstance(p, (ast.Return,)) :
            uses.add('return')
        elif isinstance(p, (ast.Yield, ast.YieldFrom)):
            uses.add('yield')
        elif isinstance(p, ast.Call) and p.func is x:
            uses.add('call')
        elif isinstance(p, ast.Call) or isinstance(p, ast.keyword) or isinstance(p, ast.Starred):
            uses.add('arg')
        elif isinstance(p, ast.Attribute) and p.value is x:
            gp = parents.get(id(p))
            if isinstance(p.ctx, (ast.Store, ast.Del)):
                uses.add('mutate')
            elif isinstance(gp, ast.Call) and gp.func is p and p.attr in MUTATORS:
                uses.add('mutate')
            else:
                uses.add('attr')
        elif isinstance(p, ast.Subscript) and p.value is x:
            uses.add('mutate' if isinstance(p.ctx, (ast.Store, ast.Del)) else 'attr')
        elif isinstance(p, ast.AugAssign):
            uses.add('mutate')
        else:
            uses.add('read')
    return uses


def closure_cells(F, class_names):
    """{name: (value kinds, uses, line, inner function names)} for the closure cells of the factory function F (see the module docstring)"""
    inner = list(_walk_same_scope_defs(F))
    if not inner:
        return {}
    binds = {}
    for n in _walk_same_scope(F):
        if isinstance(n, ast.Assign):
            for t in n.targets:
                for nm in _names_in_target(t):
                    binds.setdefault(nm, []).append((n.value if isinstance(t, ast.Name) else None, n.lineno))
        elif isinstance(n, ast.AnnAssign) and n.value is not None and isinstance(n.target, ast.Name):
            binds.setdefault(n.target.id, []).append((n.value, n.lineno))
        elif isinstance(n, ast.NamedExpr) and isinstance(n.target, ast.Name):
            binds.setdefault(n.target.id, []).append((n.value, n.lineno))
    out = {}
    for G in inner:
        gl = _Scope(G, None, None).locals
        for nm in binds:
            if nm in gl:
                continue
            uses = _cell_uses(G, nm)
            if not uses:
                continue
            kinds = set()
            for v, _ in binds[nm]:
                kinds |= _cell_value_kinds(v, class_names) if v is not None else {'expr'}
            if kinds <= {'immutable'}:
                continue
            kinds.discard('immutable')
            ent = out.setdefault(nm, (set(), set(), binds[nm][0][1], set()))
            ent[0].update(kinds)
            ent[1].update(uses)
            ent[3].add(G.name)
    return out


def scan(root=None, per_request_classes=()):
    base, files = source_files(root)
    trees = {}
    for p in files:
        rel = 'falcon/' + os.path.relpath(p, base).replace(os.sep, '/')
        with open(p, encoding='utf-8') as f:
            trees[rel] = ast.parse(f.read(), p)

    # ---- pass 0: class names, memo aliases (package-wide), module-level mutable bindings
    class_names = set()
    for rel, tree in trees.items():
        for n in ast.walk(tree):
            if isinstance(n, ast.ClassDef):
                class_names.add(n.name)
    aliases = set(MEMO_TAILS)
    changed = True
    while changed:
        changed = False
        for rel, tree in trees.items():
            for n in ast.walk(tree):
                if isinstance(n, ast.Assign) and len(n.targets) == 1 and isinstance(n.targets[0], ast.Name):
                    d = dotted(n.value)
                    if d and d.split('.')[-1] in aliases and n.targets[0].id not in aliases:
                        aliases.add(n.targets[0].id)
                        changed = True
                elif isinstance(n, ast.ImportFrom):
                    for a in n.names:
                        if a.name in aliases and a.asname and a.asname not in aliases:
                            aliases.add(a.asname)
                            changed = True

    items = {}
    handled = set()

    def item(rel, qual, det, shape, line):
        it = items.get((rel, qual))
        if it is None:
            it = items[(rel, qual)] = Item(rel, qual, det)
        elif it.detector != det:
            # one name hit by two detectors: keep both facts in the shape
            shape = det + '/' + shape
        it.shape.add(shape)
        it.lines.append(line)
        return it

    def memo_call(node):
        """if `node` is `lru_cache`, `lru_cache(...)`: the decorator text; else None"""
        d = dotted(node)
        if d and d.split('.')[-1] in aliases:
            return d.split('.')[-1]
        if isinstance(node, ast.Call):
            d = dotted(node.func)
            if d and d.split('.')[-1] in aliases:
                args = [_unparse(a) for a in node.args] + [f'{k.arg}={_unparse(k.value)}' for k in node.keywords]
                return d.split('.')[-1] + '(' + ','.join(args) + ')'
        return None

    module_state = {}     # name -> [(rel, what)]
    for rel, tree in trees.items():
        def top_level(body):
            for n in body:
                if isinstance(n, (ast.If, ast.Try)):
                    for sub in (n.body, n.orelse, getattr(n, 'finalbody', []), *[h.body for h in getattr(n, 'handlers', [])]):
                        yield from top_level(sub)
                elif isinstance(n, (ast.With,)):
                    yield from top_level(n.body)
                else:
                    yield n
        for n in top_level(tree.body):
            tgts, val = [], None
            if isinstance(n, ast.Assign):
                tgts, val = [dotted(t) for t in n.targets], n.value
            elif isinstance(n, ast.AnnAssign) and n.value is not None:
                tgts, val = [dotted(n.target)], n.value
            for tgt in tgts:
                if tgt and tgt != '__all__':
                    mv = _is_mutable_value(val, class_names)
                    if mv and memo_call(val.func if isinstance(val, ast.Call) else val) is None:
                        if '.' not in tgt:
                            module_state.setdefault(tgt, []).append((rel, mv, n.lineno))
                        item(rel, tgt, 'module-state', 'bound:' + mv, n.lineno)
        for c in ast.walk(tree):
            if isinstance(c, ast.ClassDef):
                for n in c.body:
                    if isinstance(n, (ast.Assign, ast.AnnAssign)) and getattr(n, 'value', None) is not None:
                        if _is_mutable_value(n.value, ()) == 'container':
                            for t in (n.targets if isinstance(n, ast.Assign) else [n.target]):
                                if isinstance(t, ast.Name) and t.id != '__slots__':
                                    item(rel, f'{c.name}.{t.id}', 'class-attr', 'class-literal', n.lineno)
            elif isinstance(c, ast.Nonlocal):
                for nm in c.names:
                    item(rel, f'<closure>.{nm}', 'closure-state', 'nonlocal', c.lineno)

    mod_globals_all = {}
    for rel, tree in trees.items():
        names = set()
        for n in tree.body:
            for t in _binding_targets(n):
                names.add(t)
        mod_globals_all[rel] = names

    # ---- pass 1: walk every module with scopes
    for rel, tree in trees.items():
        mod_globals = {name for name, defs in module_state.items() if any(r == rel for r, _, _ in defs)}

        def visit(node, qual, scope, cls):
            """`qual` list of enclosing names, `scope` enclosing function _Scope (None at module level), `cls` enclosing ClassDef"""
            for n in ast.iter_child_nodes(node):
                if isinstance(n, (ast.FunctionDef, ast.AsyncFunctionDef)):
                    q = qual + [n.name]
                    for dec in n.decorator_list:
                        m = memo_call(dec)
                        if m:
                            item(rel, '.'.join(q), 'memo', '@' + m, n.lineno)
                    # mutable defaults
                    a = n.args
                    pos = a.posonlyargs + a.args
                    for arg, dflt in list(zip(pos[len(pos) - len(a.defaults):], a.defaults)) + \
                            [(x, d) for x, d in zip(a.kwonlyargs, a.kw_defaults) if d is not None]:
                        if _is_mutable_value(dflt, class_names) == 'container':
                            muts = sorted(_mutations_of_name(n, arg.arg))
                            item(rel, '.'.join(q) + '(' + arg.arg + '=)', 'default-arg', _unparse(dflt) + ('|' + '+'.join(muts) if muts else '|read-only'), n.lineno)
                    for nm, (kinds, uses, line0, inners) in sorted(closure_cells(n, class_names).items()):
                        item(rel, '.'.join(q) + '.<cell>.' + nm, 'closure-cell', 'bound:' + '+'.join(sorted(kinds)) + '|' + '+'.join(sorted(uses)), line0)
                    sc = _Scope(n, scope, cls if (scope is None or scope.node is None) else None)
                    visit(n, q + ['<locals>'] if False else q, sc, cls if scope is None else cls)
                elif isinstance(n, ast.ClassDef):
                    visit(n, qual + [n.name], scope, n)
                elif isinstance(n, ast.Lambda):
                    continue
                else:
                    check_stmt(n, qual, scope, cls)
                    visit(n, qual, scope, cls)

        def base_of(t):
            """for a store/mutation target expression: (kind, name, form) where kind in name/self/cls"""
            form = None
            node = t
            if isinstance(node, ast.Subscript):
                form = '[]'
                node = node.value
                while isinstance(node, ast.Subscript):
                    node = node.value
            return node, form

        def record_target(node, form, line, qual, scope, cls, verb):
            """node = the expression whose object is mutated / whose attribute is stored"""
            in_func = scope is not None and scope.node is not None
            if isinstance(node, ast.Name):
                name = node.id
                if not in_func:
                    return
                if form is None and verb == 'store':
                    # plain rebinding: only via `global`
                    if name in _globals_chain(scope):
                        item(rel, name, 'module-state', 'global-rebind', line)
                    return
                if scope.is_local(name):
                    al = scope.alias_of(name)
                    if al and cls is not None and cls.name not in per_request_classes:
                        fn = _enclosing_method(scope)
                        if fn is not None and fn not in INIT_METHODS:
                            item(rel, f'{cls.name}.{al}', 'inst-attr', 'alias:' + verb + (form or ''), line)
                    return
                if name in mod_globals:
                    item(rel, name, 'module-state', verb + (form or ''), line)
                return
            if isinstance(node, ast.Attribute):
                d = dotted(node)
                owner = node.value
                attr = node.attr
                od = dotted(owner)
                # self.X ...
                if od == 'self' and in_func and cls is not None:
                    fn = _enclosing_method(scope)
                    if fn is None:
                        return
                    if cls.name in per_request_classes:
                        return
                    if fn in INIT_METHODS:
                        return
                    if verb == 'store' and form is None:
                        item(rel, f'{cls.name}.{attr}', 'inst-attr', 'rebind', line)
                    else:
                        item(rel, f'{cls.name}.{attr}', 'inst-attr', verb + (form or ''), line)
                    return
                # self.X.Y ... : a store into / mutation of an object reachable from the instance
                if od is not None and od.startswith('self.') and od != 'self.__class__' and in_func and cls is not None:
                    fn = _enclosing_method(scope)
                    if fn is None or fn in INIT_METHODS:
                        return
                    # (reported for per-request classes too: the object behind self.X may be shared, e.g. self.options)
                    item(rel, f'{cls.name}.{od.split(".")[1]}', 'inst-attr', 'deep:' + verb + (form or ''), line)
                    return
                # cls.X / ClassName.X / type(self).X / self.__class__.X
                is_cls = False
                cname = None
                if od == 'cls' and cls is not None:
                    is_cls, cname = True, cls.name
                elif od in class_names:
                    is_cls, cname = True, od
                elif od == 'self.__class__' and cls is not None:
                    is_cls, cname = True, cls.name
                elif isinstance(owner, ast.Call) and dotted(owner.func) == 'type' and cls is not None:
                    is_cls, cname = True, cls.name
                if is_cls and in_func:
                    item(rel, f'{cname}.{attr}', 'class-attr', verb + (form or ''), line)
                    return
                # mod.NAME mutated from another module (or same) in place
                if in_func and attr in module_state and od is not None and od.split('.')[0] not in ('self', 'cls') \
                        and not scope.is_local(od.split('.')[0]) and (form is not None or verb != 'store'):
                    for r, _, _ in module_state[attr]:
                        if r.rsplit('/', 1)[-1][:-3] == od.split('.')[-1]:
                            item(r, attr, 'module-state', verb + (form or '') + '@' + rel, line)

        def memo_application(c):
            """`lru_cache(...)(f)` / `cache(f)`: 'lru_cache(...)<-f', else None"""
            m0 = memo_call(c.func)
            if m0 and c.args and not isinstance(c.args[0], ast.Constant):
                return m0 + '<-' + _unparse(c.args[0])
            return None

        def partial_state(c):
            d = dotted(c.func)
            if d and d.split('.')[-1] == 'partial' and c.args:
                held = [_unparse(a) for a in list(c.args[1:]) + [k.value for k in c.keywords] if _is_mutable_value(a, ()) == 'container']
                if held:
                    return 'partial(' + _unparse(c.args[0]) + ')|binds:' + '+'.join(held)
            return None

        def lazy_value(v):
            if isinstance(v, ast.Call):
                d = dotted(v.func)
                tail = d.split('.')[-1] if d else '?'
                if tail in SYNC_CTORS:
                    return 'lock'
                mv = _is_mutable_value(v, class_names)
                if mv:
                    return mv
                return 'call:' + tail
            if _is_mutable_value(v, class_names):
                return 'container'
            return 'expr'

        def lazy_init(n, qual, scope, cls):
            """`if <X is unset>: X = V` (X = self.attr, cls.attr or a global) outside __init__"""
            in_func = scope is not None and scope.node is not None
            if not in_func:
                return
            fn = _enclosing_method(scope)
            if fn is None or fn in INIT_METHODS:
                return

            def subject(e):
                """('self', X) / ('cls', X) / ('global', name) the expression `e` stands for, or None"""
                d = dotted(e)
                if d is None:
                    return None
                if d.startswith('self.') and d.count('.') == 1 and cls is not None:
                    return ('self', d.split('.')[1])
                if (d.startswith('cls.') or d.startswith('self.__class__.')) and cls is not None:
                    return ('cls', d.split('.')[-1])
                if '.' not in d:
                    al = scope.alias_of(d)
                    if al and cls is not None:
                        return ('self', al)
                    if d in _globals_chain(scope):
                        return ('global', d)
                return None

            subjects = []
            if isinstance(n, ast.If):
                t = n.test
                if isinstance(t, ast.UnaryOp) and isinstance(t.op, ast.Not):
                    t2 = t.operand
                    if isinstance(t2, ast.Call) and dotted(t2.func) == 'hasattr' and len(t2.args) == 2 and isinstance(t2.args[1], ast.Constant):
                        if dotted(t2.args[0]) == 'self' and cls is not None:
                            subjects.append(('self', str(t2.args[1].value)))
                    else:
                        subjects.append(subject(t2))
                elif isinstance(t, ast.Compare) and len(t.ops) == 1 and isinstance(t.ops[0], (ast.Is, ast.Eq)):
                    subjects.append(subject(t.left))
                body = n.body
            else:
                for h in n.handlers:
                    if h.type is not None and 'AttributeError' in _unparse(h.type) or (h.type is not None and 'KeyError' in _unparse(h.type)):
                        for x in n.body:
                            for y in ast.walk(x):
                                if isinstance(y, ast.Attribute) and isinstance(y.ctx, ast.Load):
                                    subjects.append(subject(y))
                body = [x for h in n.handlers for x in h.body]
            for sub in {x for x in subjects if x}:
                for x in body:
                    for y in ast.walk(x):
                        if isinstance(y, ast.Assign):
                            for t in y.targets:
                                if subject(t) == sub and not (isinstance(t, ast.Name) and sub[0] == 'self'):
                                    form = 'lazy-init:' + lazy_value(y.value)
                                    if sub[0] == 'self':
                                        if cls.name not in per_request_classes:
                                            item(rel, f'{cls.name}.{sub[1]}', 'inst-attr', form, y.lineno)
                                    elif sub[0] == 'cls':
                                        item(rel, f'{cls.name}.{sub[1]}', 'class-attr', form, y.lineno)
                                    else:
                                        item(rel, sub[1], 'module-state', form, y.lineno)

        def check_stmt(n, qual, scope, cls):
            line = getattr(n, 'lineno', 0)
            if isinstance(n, ast.Assign):
                # assignment-form memo:  X = lru_cache(...)(f)  /  X = lru_cache(f)  /  X = given or lru_cache(...)(f)  / ...
                for c in _calls_in(n.value):
                    m = memo_application(c)
                    ps = partial_state(c)
                    if m or ps:
                        handled.add(id(c))
                        for t in n.targets:
                            d = dotted(t)
                            if d:
                                q = '.'.join(qual + [d]) if (scope is not None and scope.node is not None) or cls else d
                                if m:
                                    item(rel, q, 'memo', '=' + m, line)
                                else:
                                    item(rel, q, 'partial-state', ps, line)
                for t in n.targets:
                    for tt in ([t] if not isinstance(t, (ast.Tuple, ast.List)) else t.elts):
                        node, form = base_of(tt)
                        record_target(node, form, line, qual, scope, cls, 'store')
            elif isinstance(n, ast.AnnAssign) and n.value is not None:
                node, form = base_of(n.target)
                record_target(node, form, line, qual, scope, cls, 'store')
            elif isinstance(n, ast.AugAssign):
                node, form = base_of(n.target)
                record_target(node, form, line, qual, scope, cls, 'aug')
            elif isinstance(n, ast.Delete):
                for t in n.targets:
                    node, form = base_of(t)
                    if form:
                        record_target(node, form, line, qual, scope, cls, 'del')
            elif isinstance(n, ast.Call) and isinstance(n.func, ast.Attribute) and n.func.attr in MUTATORS:
                node, form = base_of(n.func.value)
                record_target(node, form, line, qual, scope, cls, '.' + n.func.attr)
            if isinstance(n, ast.Call) and id(n) not in handled:
                m = memo_application(n)
                ps = partial_state(n)
                if m:
                    item(rel, '.'.join(qual + ['<memo-expr>']), 'memo', '=' + m, line)
                elif ps:
                    item(rel, '.'.join(qual + ['<partial-expr>']), 'partial-state', ps, line)
            if isinstance(n, (ast.If, ast.Try)):
                lazy_init(n, qual, scope, cls)
            if isinstance(n, ast.Raise) and n.exc is not None and scope is not None and scope.node is not None:
                e = n.exc
                d = dotted(e)
                if isinstance(e, ast.Name):
                    if not scope.is_local(e.id) and not _camel(e.id) and e.id in mod_globals_all.get(rel, ()):
                        item(rel, e.id, 'shared-raise', 'module-object', line)
                elif d and d.startswith('self.') and d.count('.') == 1 and cls is not None and cls.name not in per_request_classes:
                    item(rel, f'{cls.name}.{d.split(".")[1]}', 'shared-raise', 'instance-attribute', line)
                elif d and (d.startswith('cls.') or d.startswith('self.__class__.')) and cls is not None:
                    item(rel, f'{cls.name}.{d.split(".")[-1]}', 'shared-raise', 'class-attribute', line)
            if isinstance(n, ast.Call) and TRACK_ARGS:
                # aliasing: `self.X` handed to a local helper (a plain-name callee), which may mutate it
                if isinstance(n.func, ast.Name) and scope is not None and n.func.id in _local_defs(scope):
                    for a in n.args:
                        if isinstance(a, ast.Attribute) and dotted(a.value) == 'self':
                            record_target(a, None, line, qual, scope, cls, 'passed-to:' + n.func.id)

        visit(tree, [], None, None)
        for qual, shape, line in lock_uses(tree):
            item(rel, qual, 'lock-use', shape, line)

        # class-level mutable literals (reported only when mutated in place through self./cls., see record_target: they
        # surface as inst-attr / class-attr items of the class)

    access_shapes(trees, items, per_request_classes)
    return items


# ---------------------------------------------------------------------------------------------------------------------
# access shapes: HOW an inventoried shared container is read.  The proved kinds (Sm: get / capped insert; Lz: test-and-set; configuration: written
# before serving) describe single C-level operations on the container.  An ITERATION over it - `for .. in X`, `X.values()/.items()/.keys()`,
# a comprehension, `list(X)/sorted(X)/tuple(X)/any(..)/''.join(X)/*X`, a `range(len(X))` index loop - is a sequence of operations with thread
# switches in between: it observes other threads' inserts (RuntimeError "changed size during iteration", skipped/duplicated items, IndexError).

ITER_CALLS = {'list', 'tuple', 'sorted', 'set', 'frozenset', 'dict', 'sum', 'min', 'max', 'any', 'all', 'enumerate', 'zip', 'map', 'filter', 'reversed',
              'iter', 'next', 'chain', 'deque', 'Counter', 'OrderedDict', 'join', 'extend', 'update', 'from_iterable', 'fromkeys'}
ITER_WRAPPERS = {'enumerate', 'reversed', 'iter', 'sorted', 'list', 'tuple', 'zip', 'set', 'frozenset'}
VIEW_METHODS = {'values', 'items', 'keys'}


def _iteration_sites(tree):
    """yield (iterated expression, how, node) for every syntactic iteration in `tree`"""
    for n in ast.walk(tree):
        if isinstance(n, (ast.For, ast.AsyncFor)):
            yield n.iter, 'for', n
        elif isinstance(n, (ast.ListComp, ast.SetComp, ast.DictComp, ast.GeneratorExp)):
            for g in n.generators:
                yield g.iter, 'comp', n
        elif isinstance(n, ast.Call):
            d = dotted(n.func)
            tail = d.split('.')[-1] if d else (n.func.attr if isinstance(n.func, ast.Attribute) else None)
            if tail == 'range' and len(n.args) >= 1:
                for a in n.args:
                    if isinstance(a, ast.Call) and dotted(a.func) == 'len' and a.args:
                        yield a.args[0], 'range(len())', n
            elif tail in ITER_CALLS:
                for a in (n.args[1:] if tail in ('map', 'filter') else n.args):
                    if isinstance(a, ast.Starred):
                        a = a.value
                    yield a, tail + '()', n
            else:
                for a in n.args:
                    if isinstance(a, ast.Starred):
                        yield a.value, '*', n
        elif isinstance(n, (ast.Tuple, ast.List, ast.Set)) and isinstance(getattr(n, 'ctx', ast.Load()), ast.Load):
            for e in n.elts:
                if isinstance(e, ast.Starred):
                    yield e.value, '*', n
        elif isinstance(n, (ast.YieldFrom,)):
            yield n.value, 'yield-from', n


def _unwrap_iterated(e, how):
    """strip views and transparent wrappers: ``enumerate(X.items())`` -> (X, 'for.items()')"""
    for _ in range(6):
        if isinstance(e, ast.Call) and isinstance(e.func, ast.Attribute) and e.func.attr in VIEW_METHODS and not e.args:
            how += '.' + e.func.attr + '()'
            e = e.func.value
        elif isinstance(e, ast.Call) and isinstance(e.func, ast.Name) and e.func.id in ITER_WRAPPERS and e.args:
            e = e.args[0]
        else:
            break
    return e, how


def access_shapes(trees, items, per_request_classes=()):
    """add the form ``iter:<how>`` (``locked-iter:<how>`` when lexically inside ``with <lock>:``) to every ALREADY INVENTORIED item that some function
    of the package iterates over.  Returns the number of sites found."""
    found = 0
    for rel, tree in trees.items():
        parent = {}
        for n in ast.walk(tree):
            for c in ast.iter_child_nodes(n):
                parent[c] = n
        scopes = {}

        def scope_of(fn, chain_parent):
            if id(fn) not in scopes:
                scopes[id(fn)] = _Scope(fn, chain_parent, None)
            return scopes[id(fn)]

        for expr, how, node in _iteration_sites(tree):
            expr, how = _unwrap_iterated(expr, how)
            # ancestors: functions (innermost first), classes, with-blocks
            fns, cls, qual, locked = [], None, [], False
            a = node
            while a in parent:
                a = parent[a]
                if isinstance(a, (ast.FunctionDef, ast.AsyncFunctionDef)):
                    fns.append(a)
                    qual.insert(0, a.name)
                elif isinstance(a, ast.ClassDef):
                    if cls is None:
                        cls = a
                    qual.insert(0, a.name)
                elif isinstance(a, (ast.With, ast.AsyncWith)) and not fns:
                    for it in a.items:
                        ce = it.context_expr
                        if isinstance(ce, (ast.Name, ast.Attribute)) or 'lock' in _unparse(ce).lower():
                            locked = True
            if not fns:
                continue            # module level: runs at import
            method = fns[-1].name
            sc = None
            for f in reversed(fns):
                sc = scope_of(f, sc)
            keys = []
            if isinstance(expr, ast.Name):
                name = expr.id
                # (1) a parameter with a mutable default of an enclosing function (kwarg cache)
                q = list(qual)
                for depth, f in enumerate(fns):
                    fq = '.'.join(q[:len(q) - depth])
                    if (rel, f'{fq}({name}=)') in items:
                        keys.append((rel, f'{fq}({name}=)'))
                        break
                    if name in scopes[id(f)].locals:
                        break
                if not keys:
                    al = sc.alias_of(name)
                    if al and cls is not None:
                        keys.append((rel, f'{cls.name}.{al}'))
                    elif not sc.is_local(name):
                        keys.append((rel, name))
                    else:
                        for depth in range(1, len(fns)):
                            fq = '.'.join(qual[:len(qual) - depth])
                            keys.append((rel, f'{fq}.<cell>.{name}'))
            elif isinstance(expr, ast.Attribute):
                od = dotted(expr.value)
                if od == 'self' and cls is not None:
                    if method not in INIT_METHODS and cls.name not in per_request_classes:
                        keys.append((rel, f'{cls.name}.{expr.attr}'))
                elif od in ('cls', 'self.__class__') and cls is not None:
                    keys.append((rel, f'{cls.name}.{expr.attr}'))
                elif od is not None and '.' not in od and not sc.is_local(od):
                    keys.append((rel, f'{od}.{expr.attr}'))                     # ClassName.X
                    for (r, qn) in list(items):
                        if qn == expr.attr and r.rsplit('/', 1)[-1][:-3] == od:  # module.NAME
                            keys.append((r, qn))
            for key in keys:
                it = items.get(key)
                if it is not None and it.detector in ('module-state', 'default-arg', 'inst-attr', 'class-attr', 'closure-cell', 'closure-state', 'partial-state'):
                    it.shape.add(('locked-iter:' if locked else 'iter:') + how)
                    it.lines.append(getattr(node, 'lineno', 0))
                    found += 1
                    break
    return found


def lock_uses(tree):
    """CONDITIONAL lock acquisitions: every call ``<expr>.acquire(...)`` that passes an argument (``blocking=False`` / ``timeout=t`` /
    positionally) - it may return without the lock, so what the code does with the result is part of the locking protocol.  Yields
    (qualname ``<function>.<acquire:receiver>``, shape ``acquire(<arguments>):result-<use>``, line) with <use> one of
    ``ignored`` (expression statement), ``tested`` (directly the test of an if / while / assert / conditional expression, possibly under
    ``not``), ``bound:<name>`` (assigned; shape continues with ``,guards-release-only`` when that name is only ever tested in a
    ``finally`` clause - the body ran whether or not the lock was obtained), ``returned``, ``other``.  ``with lock:`` and a bare blocking ``.acquire()``
    wait for the holder and are not reported."""
    parents = {}
    for n in ast.walk(tree):
        for c in ast.iter_child_nodes(n):
            parents[id(c)] = n

    def qual_of(n):
        out = []
        while id(n) in parents:
            n = parents[id(n)]
            if isinstance(n, (ast.FunctionDef, ast.AsyncFunctionDef, ast.ClassDef)):
                out.append(n.name)
        return list(reversed(out))

    def enclosing_fn(n):
        while id(n) in parents:
            n = parents[id(n)]
            if isinstance(n, (ast.FunctionDef, ast.AsyncFunctionDef)):
                return n
        return tree

    for n in ast.walk(tree):
        if not (isinstance(n, ast.Call) and isinstance(n.func, ast.Attribute) and n.func.attr == 'acquire' and (n.args or n.keywords)):
            continue
        args = ','.join([_unparse(a) for a in n.args] + [f'{k.arg}={_unparse(k.value)}' for k in n.keywords])
        par = parents.get(id(n))
        while isinstance(par, ast.UnaryOp) and isinstance(par.op, ast.Not):
            par = parents.get(id(par))
        if isinstance(par, ast.Expr):
            use = 'ignored'
        elif isinstance(par, (ast.If, ast.While, ast.Assert, ast.IfExp)) or isinstance(par, ast.BoolOp):
            use = 'tested'
        elif isinstance(par, ast.Return):
            use = 'returned'
        elif isinstance(par, (ast.Assign, ast.AnnAssign, ast.NamedExpr)):
            tgt = par.targets[0] if isinstance(par, ast.Assign) else par.target
            name = dotted(tgt) or 'expr'
            use = 'bound:' + name
            fn = enclosing_fn(n)
            loads = [m for m in ast.walk(fn) if isinstance(m, (ast.Name, ast.Attribute)) and dotted(m) == name
                     and isinstance(getattr(m, 'ctx', None), ast.Load)]

            def in_finally(m):
                c = m
                while id(c) in parents and parents[id(c)] is not fn:
                    p = parents[id(c)]
                    if isinstance(p, ast.Try) and any(c is x for x in p.finalbody):
                        return True
                    c = p
                return False
            if loads and all(in_finally(m) for m in loads):
                use += ',guards-release-only'
            elif not loads:
                use += ',never-read'
        else:
            use = 'other'
        yield '.'.join(qual_of(n) + ['<acquire:%s>' % (dotted(n.func.value) or 'expr')]), f'acquire({args}):result-{use}', n.lineno


def _local_defs(scope):
    """names of the functions defined inside the enclosing function scopes (local helper closures)"""
    out = set()
    s = scope
    while s is not None and s.node is not None:
        for n in _walk_same_scope_defs(s.node):
            out.add(n.name)
        s = s.parent
    return out


def _walk_same_scope_defs(fn):
    stack = list(fn.body)
    while stack:
        n = stack.pop()
        if isinstance(n, (ast.FunctionDef, ast.AsyncFunctionDef)):
            yield n
            continue
        if isinstance(n, (ast.ClassDef, ast.Lambda)):
            continue
        stack.extend(ast.iter_child_nodes(n))


def _globals_chain(scope):
    out = set()
    s = scope
    while s is not None and s.node is not None:
        out |= s.globals
        s = s.parent
    return out


def _enclosing_method(scope):
    """name of the outermost function of the scope chain (the method of the class)"""
    s, name = scope, None
    while s is not None and s.node is not None:
        name = s.node.name
        s = s.parent
    return name


def _mutations_of_name(fn, name):
    out = set()
    for n in ast.walk(fn):
        if isinstance(n, (ast.Assign, ast.AugAssign, ast.AnnAssign)):
            tgts = n.targets if isinstance(n, ast.Assign) else [n.target]
            for t in tgts:
                if isinstance(t, ast.Subscript) and isinstance(t.value, ast.Name) and t.value.id == name:
                    out.add('store[]' if not isinstance(n, ast.AugAssign) else 'aug[]')
        elif isinstance(n, ast.Delete):
            for t in n.targets:
                if isinstance(t, ast.Subscript) and isinstance(t.value, ast.Name) and t.value.id == name:
                    out.add('del[]')
        elif isinstance(n, ast.Call) and isinstance(n.func, ast.Attribute) and n.func.attr in MUTATORS \
                and isinstance(n.func.value, ast.Name) and n.func.value.id == name:
            out.add('.' + n.func.attr)
    return out


if __name__ == '__main__':
    import sys
    its = scan(sys.argv[1] if len(sys.argv) > 1 else None, per_request_classes=set(sys.argv[2:]))
    for k in sorted(its):
        print(its[k])
    print(len(its))


# ---------------------------------------------------------------------------------------------------------------------
# helpers for the oracles on memoised functions (used after falcon has been imported through srcload)

def references(name, root=None):
    """{(file, qualified name of the enclosing function or '<module>')} of every load of the bare name / attribute `name`"""
    base, files = source_files(root)
    out = set()
    for p in files:
        rel = 'falcon/' + os.path.relpath(p, base).replace(os.sep, '/')
        with open(p, encoding='utf-8') as f:
            tree = ast.parse(f.read(), p)

        def visit(node, qual):
            for n in ast.iter_child_nodes(node):
                if isinstance(n, (ast.FunctionDef, ast.AsyncFunctionDef, ast.ClassDef)):
                    visit(n, qual + [n.name])
                else:
                    if (isinstance(n, ast.Name) and n.id == name and isinstance(n.ctx, ast.Load)) or \
                            (isinstance(n, ast.Attribute) and n.attr == name and isinstance(n.ctx, ast.Load)):
                        out.add((rel, '.'.join(qual) or '<module>'))
                    visit(n, qual)
        visit(tree, [])
    return out


def locate(file, qualname):
    """the live object behind an inventory item (module attribute chain), or None"""
    import importlib
    mod = file[:-3].replace('/', '.')
    if mod.endswith('.__init__'):
        mod = mod[:-9]
    try:
        obj = importlib.import_module(mod)
        for part in qualname.split('.'):
            obj = getattr(obj, part)
        return obj
    except Exception:  # noqa
        return None


_SENTINEL = '☠c19-mutated'


def snap(obj, depth=6, _seen=None):
    """a comparable deep snapshot of a value (containers, dataclass/slots/plain objects by their fields)"""
    if _seen is None:
        _seen = set()
    if obj is None or isinstance(obj, (bool, int, float, complex, str, bytes)):
        return (type(obj).__name__, obj)
    if depth <= 0 or id(obj) in _seen:
        return ('...', type(obj).__name__)
    _seen = _seen | {id(obj)}
    if isinstance(obj, dict):
        return ('dict', tuple(sorted(((repr(snap(k, depth - 1, _seen)), snap(v, depth - 1, _seen)) for k, v in obj.items()), key=lambda kv: kv[0])))
    if isinstance(obj, (list, tuple)):
        return (type(obj).__name__, tuple(snap(x, depth - 1, _seen) for x in obj))
    if isinstance(obj, (set, frozenset)):
        return (type(obj).__name__, tuple(sorted(repr(snap(x, depth - 1, _seen)) for x in obj)))
    if isinstance(obj, bytearray):
        return ('bytearray', bytes(obj))
    if callable(obj) and not hasattr(obj, '__dict__'):
        return ('callable', getattr(obj, '__qualname__', type(obj).__name__))
    fields = {}
    for slot in _all_slots(type(obj)):
        if hasattr(obj, slot):
            fields[slot] = getattr(obj, slot)
    d = getattr(obj, '__dict__', None)
    if isinstance(d, dict):
        fields.update(d)
    if not fields:
        return ('obj', type(obj).__name__, repr(obj)[:80] if type(obj).__repr__ is not object.__repr__ else '')
    return ('obj', type(obj).__name__, tuple(sorted((k, snap(v, depth - 1, _seen)) for k, v in fields.items() if not k.startswith('__'))))


def _all_slots(tp):
    out = []
    for c in tp.__mro__:
        sl = c.__dict__.get('__slots__', ())
        if isinstance(sl, str):
            sl = (sl,)
        out.extend(s for s in sl if s not in ('__dict__', '__weakref__'))
    return out


def deep_mutate(obj, depth=6, _seen=None):
    """mutate `obj` in place wherever that is possible (deeply); returns the number of in-place changes made"""
    if _seen is None:
        _seen = set()
    if obj is None or isinstance(obj, (bool, int, float, complex, str, bytes, frozenset, type)) or depth <= 0 or id(obj) in _seen:
        return 0
    _seen.add(id(obj))
    n = 0
    try:
        if isinstance(obj, dict):
            for v in list(obj.values()):
                n += deep_mutate(v, depth - 1, _seen)
            obj[_SENTINEL] = _SENTINEL
            return n + 1
        if isinstance(obj, list):
            for v in list(obj):
                n += deep_mutate(v, depth - 1, _seen)
            obj.append(_SENTINEL)
            return n + 1
        if isinstance(obj, set):
            obj.add(_SENTINEL)
            return 1
        if isinstance(obj, bytearray):
            obj.extend(b'!')
            return 1
        if isinstance(obj, tuple):
            for v in obj:
                n += deep_mutate(v, depth - 1, _seen)
            return n
        if callable(obj) and not isinstance(getattr(obj, '__dict__', None), dict):
            return 0
        if isinstance(obj, (type(len), type(deep_mutate), type(snap.__get__(1)))):
            return 0          # functions / bound methods: not data
        for slot in _all_slots(type(obj)):
            if hasattr(obj, slot):
                v = getattr(obj, slot)
                k = deep_mutate(v, depth - 1, _seen)
                if k == 0 and isinstance(v, (str, int, float)) and not isinstance(v, bool):
                    try:
                        setattr(obj, slot, (v + _SENTINEL) if isinstance(v, str) else v + 1)
                        k = 1
                    except Exception:  # noqa  (frozen / read-only)
                        k = 0
                n += k
        d = getattr(obj, '__dict__', None)
        if isinstance(d, dict):
            for v in list(d.values()):
                n += deep_mutate(v, depth - 1, _seen)
            try:
                setattr(obj, '_c19_mutated', _SENTINEL)
                n += 1
            except Exception:  # noqa
                pass
    except Exception:  # noqa
        pass
    return n

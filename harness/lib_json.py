"""Helpers for the C12 JSON-format correspondence (model `Js`, driver `jsdriver`).

Document encoding shared with JsMain.lean (prefix form, space separated tokens):
    n | t | f | i<decimal> | s<hex of UTF-8, '-' if empty> | a<count> doc* | o<count> (k<hex> doc)*
"""


class Outside(Exception):
    """the value is outside the modelled document type (float / lone surrogate / non-str key)"""


def _hx(s):
    try:
        b = s.encode('utf-8')
    except UnicodeEncodeError:
        raise Outside('surrogate')
    return b.hex() or '-'


def enc_doc(v):
    """Canonical token string of a Python document; raises Outside for floats and lone surrogates."""
    if v is None: return 'n'
    if v is True: return 't'
    if v is False: return 'f'
    if type(v) is int: return 'i%d' % v
    if type(v) is float: raise Outside('float')
    if type(v) is str: return 's' + _hx(v)
    if type(v) is list: return ' '.join(['a%d' % len(v)] + [enc_doc(x) for x in v])
    if type(v) is dict:
        out = ['o%d' % len(v)]
        for k, x in v.items():
            if type(k) is not str: raise Outside('key')
            out.append('k' + _hx(k)); out.append(enc_doc(x))
        return ' '.join(out)
    raise Outside(type(v).__name__)


STR_ALPHABET = ['a', 'Z', '0', ' ', '"', '\\', '/', '\n', '\r', '\t', '\b', '\f', '\x00', '\x01', '\x1f', '\x7f', '\x80', '\xe9', '€', ' ', '﻿',
                '퟿', '', '￿', '\U00010000', '\U0001f600', '\U0010ffff', 'u', 'n']
INTS = [0, -1, 1, 9, 10, -10, 2 ** 31, -2 ** 63, 2 ** 64 + 1, 10 ** 30, -10 ** 30 + 7]
LIMIT_INTS = [10 ** 4299, -(10 ** 4300 - 1)]   # 4300 digits: the largest CPython converts by default


def gen_str(rnd, maxlen=6):
    return ''.join(rnd.choice(STR_ALPHABET) for _ in range(rnd.randint(0, maxlen)))


def gen_doc_nf(rnd, depth=0):
    """A float-free document: nesting <= 5, every scalar kind, escape-worthy / astral characters, big ints."""
    k = rnd.random()
    if depth > 4 or k < 0.45:
        c = rnd.randrange(7)
        if c == 0: return None
        if c == 1: return rnd.random() < 0.5
        if c in (2, 3):
            if rnd.random() < 0.004: return rnd.choice(LIMIT_INTS)
            return rnd.choice(INTS) if rnd.random() < 0.5 else rnd.randint(-10 ** rnd.randint(1, 25), 10 ** rnd.randint(1, 25))
        return gen_str(rnd)
    if k < 0.72:
        return [gen_doc_nf(rnd, depth + 1) for _ in range(rnd.randint(0, 4))]
    return {gen_str(rnd, 3): gen_doc_nf(rnd, depth + 1) for _ in range(rnd.randint(0, 4))}


def _ws(rnd):
    return ''.join(rnd.choice(' \t\n\r') for _ in range(rnd.choice([0, 0, 0, 1, 1, 2])))


def _str_text(rnd, s):
    """One of the many JSON spellings of the string `s` (literal / short escape / \\uXXXX / surrogate pair)."""
    out = ['"']
    short = {'"': '\\"', '\\': '\\\\', '/': '\\/', '\b': '\\b', '\f': '\\f', '\n': '\\n', '\r': '\\r', '\t': '\\t'}
    for ch in s:
        o = ord(ch); r = rnd.random()
        must = ch in '"\\' or o < 0x20
        if ch in short and (r < 0.6 or (must and r < 0.8)) and not (ch == '/' and r < 0.3):
            out.append(short[ch])
        elif must or r > 0.75:
            if o >= 0x10000:
                o -= 0x10000; us = [0xD800 + (o >> 10), 0xDC00 + (o & 0x3FF)]
            else:
                us = [o]
            for u in us:
                h = '%04x' % u
                out.append('\\u' + (h.upper() if rnd.random() < 0.4 else h))
        else:
            out.append(ch)
    out.append('"')
    return ''.join(out)


def render_text(rnd, doc, dup=True):
    """A JSON text spelling `doc` with arbitrary whitespace and escapes; with `dup` some objects get duplicate keys."""
    w = lambda: _ws(rnd)  # noqa
    if doc is None: return 'null'
    if doc is True: return 'true'
    if doc is False: return 'false'
    if type(doc) is int: return '-0' if doc == 0 and rnd.random() < 0.3 else str(doc)
    if type(doc) is str: return _str_text(rnd, doc)
    if type(doc) is list:
        return '[' + w() + (w() + ',' + w()).join(render_text(rnd, x, dup) for x in doc) + w() + ']'
    items = list(doc.items())
    if dup and items and rnd.random() < 0.3:
        # duplicate keys at random positions: json.loads keeps the position of the first and the value of the last occurrence
        for _ in range(rnd.randint(1, 2)):
            items.insert(rnd.randrange(len(items) + 1), (rnd.choice(items)[0], gen_doc_nf(rnd, 4)))
    parts = []
    for it in items:
        parts.append(_str_text(rnd, it[0]) + w() + ':' + w() + render_text(rnd, it[1], dup))
    return '{' + w() + (w() + ',' + w()).join(parts) + w() + '}'


EDIT_CHARS = list('[]{}:,"\\ \t\n\r0123456789-+.eEntfu/xaN') + ['\x00', '\x1f', '\x7f', '\xe9', '﻿', '\U0001f600']


def edit_text(rnd, t):
    """One single-character edit (delete / insert / replace / duplicate / swap)."""
    if not t: return rnd.choice(EDIT_CHARS)
    i = rnd.randrange(len(t)); k = rnd.randrange(5)
    if k == 0: return t[:i] + t[i + 1:]
    if k == 1: return t[:i] + rnd.choice(EDIT_CHARS) + t[i:]
    if k == 2: return t[:i] + rnd.choice(EDIT_CHARS) + t[i + 1:]
    if k == 3: return t[:i] + t[i] + t[i:]
    return t[:i] + t[i + 1:i + 2] + t[i] + t[i + 2:] if i + 1 < len(t) else t[:i]


EDGE_TEXTS = [
    '0', '-0', '-', '--1', '01', '-01', '00', '1.', '1.5', '1.e3', '1e', '1e5', '1E5', '1e+5', '1e-5', '1e+', '1e-', '1e+x', '1ex', '[1e]', '[1.]', '[1e+]', '.5', '+1', '1 2',
    '[1.5, x]', '[1e5', 'NaN', 'Infinity', '-Infinity', '-Inf', 'nan', 'null', 'nul', 'nullx', '[nullx]', '[null1]', 'truefalse', 'true', 'tru', 'false', 'fals', 'None', 'True',
    '[]', '[ ]', '[,]', '[1,]', '[,1]', '[1 2]', '[1,,2]', '[', ']', '[[]', '[]]', '{}', '{ }', '{,}', '{"a":1,}', '{"a"}', '{"a":}', '{"a" 1}', '{a:1}', "{'a':1}", '{1:2}', '{"a":1 "b":2}',
    '{"a":1,"b":2,"a":3}', '{"a":{"a":1,"a":2},"a":[]}', '{"":0,"":1}', '{"a":1}}', '{', '}', '{"a":1', '"', '""', '"a', '"a\\"', '"\\', '"\\x"', '"\\u"', '"\\u12"', '"\\u123"', '"\\u123g"',
    '"\\u0041"', '"\\U0041"', '"\\u00e9\\u20AC"', '"\\ud83d\\ude00"', '"\\uD83D\\uDE00"', '"\\ud83d"', '"\\ude00"', '"\\ud83d\\u0041"', '"\\ud83d\\n"', '"\\ud83dx"', '"\\ud83d\\ud83d\\ude00"',
    '"\\ud83d\\ude0"', '"\\ud83d\\ude0g"', '"\\ud83d\\u"', '"\\ud83d\\', '"\\ud83d\\ude00', '"\\udbff\\udfff"', '"\\ud800\\udc00"', '"\\ud7ff\\ue000"', '"\\u0000"', '"\\/"', '"/"',
    '"\t"', '"\n"', '"\x00"', '"\x1f"', '"\x7f"', '"\x80"', '" "', '"﻿"', '﻿{}', '﻿', ' \t\n\r1 \t\n\r', '\x0b1', '1\x0c', '\xa01', '1 ', '　1',
    '1' * 4300, '1' * 4301, '-' + '1' * 4300, '-' + '1' * 4301, '[' + '9' * 4301 + ']', '0' * 2, '1' * 4301 + '.5', '1' * 4301 + 'e',
    '[[[[[[[[[[[[[[[[[[[[1]]]]]]]]]]]]]]]]]]]]', '[' * 40 + ']' * 40, '{"a":' * 30 + '1' + '}' * 30, '[1, 2, [3, {"k": "v", "l": [null, true, false]}]]',
]

BAD_UTF8 = [b'\xff', b'\xc0\x80', b'\xed\xa0\x80', b'\xf4\x90\x80\x80', b'\xe2\x82', b'\x80', b'\xc3', b'\xf0\x9f\x98', b'\xf8\x88\x80\x80\x80', b'\xef\xbf\xbf', b'\xed\x9f\xbf', b'\xee\x80\x80',
            b'\xf4\x8f\xbf\xbf', b'\xe0\x9f\xbf', b'\xf0\x8f\xbf\xbf', b'\xc1\xbf', b'\xc2\x80', b'\xef\xbb\xbf']


def outside_reason(text):
    """Why a text json.loads accepts is outside the modelled document type (None if inside): a float or a lone surrogate
    anywhere in the text's values/keys - also in a pair that a later duplicate key overwrites."""
    import json
    why = []

    def walk(v):
        if type(v) is float: why.append('float')
        elif type(v) is str:
            try: v.encode('utf-8')
            except UnicodeEncodeError: why.append('surrogate')
        elif type(v) is list:
            for x in v: walk(x)

    def pairs(ps):
        for k, v in ps:
            walk(k); walk(v)
        return None
    walk(json.loads(text, object_pairs_hook=pairs))
    return why[0] if why else None

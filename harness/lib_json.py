"""Helpers for the C12 JSON-format correspondence (model `Js`, driver `jsdriver`).

Document encoding shared with JsMain.lean (prefix form, space separated tokens):
    n | t | f | i<decimal> | s<hex of UTF-8, '-' if empty> | a<count> doc* | o<count> (k<hex> doc)*
"""


class Outside(Exception):
    """the value is outside the modelled document type (float / lone surrogate / non-str key)"""


def _hx(s):
    try:
        b = s.encode('utf-8')
    except UnicodeEncodeError:
        raise Outside('surrogate')
    return b.hex() or '-'


def enc_doc(v):
    """Canonical token string of a Python document; raises Outside for floats and lone surrogates."""
    if v is None: return 'n'
    if v is True: return 't'
    if v is False: return 'f'
    if type(v) is int: return 'i%d' % v
    if type(v) is float: raise Outside('float')
    if type(v) is str: return 's' + _hx(v)
    if type(v) is list: return ' '.join(['a%d' % len(v)] + [enc_doc(x) for x in v])
    if type(v) is dict:
        out = ['o%d' % len(v)]
        for k, x in v.items():
            if type(k) is not str: raise Outside('key')
            out.append('k' + _hx(k)); out.append(enc_doc(x))
        return ' '.join(out)
    raise Outside(type(v).__name__)


STR_ALPHABET = ['a', 'Z', '0', ' ', '"', '\\', '/', '\n', '\r', '\t', '\b', '\f', '\x00', '\x01', '\x1f', '\x7f', '\x80', '\xe9', '€', ' ', '﻿',
                '퟿', '', '￿', '\U00010000', '\U0001f600', '\U0010ffff', 'u', 'n']
INTS = [0, -1, 1, 9, 10, -10, 2 ** 31, -2 ** 63, 2 ** 64 + 1, 10 ** 30, -10 ** 30 + 7]
LIMIT_INTS = [10 ** 4299, -(10 ** 4300 - 1)]   # 4300 digits: the largest CPython converts by default


def gen_str(rnd, maxlen=6):
    return ''.join(rnd.choice(STR_ALPHABET) for _ in range(rnd.randint(0, maxlen)))


def gen_doc_nf(rnd, depth=0):
    """A float-free document: nesting <= 5, every scalar kind, escape-worthy / astral characters, big ints."""
    k = rnd.random()
    if depth > 4 or k < 0.45:
        c = rnd.randrange(7)
        if c == 0: return None
        if c == 1: return rnd.random() < 0.5
        if c in (2, 3):
            if rnd.random() < 0.004: return rnd.choice(LIMIT_INTS)
            return rnd.choice(INTS) if rnd.random() < 0.5 else rnd.randint(-10 ** rnd.randint(1, 25), 10 ** rnd.randint(1, 25))
        return gen_str(rnd)
    if k < 0.72:
        return [gen_doc_nf(rnd, depth + 1) for _ in range(rnd.randint(0, 4))]
    return {gen_str(rnd, 3): gen_doc_nf(rnd, depth + 1) for _ in range(rnd.randint(0, 4))}


def _ws(rnd):
    return ''.join(rnd.choice(' \t\n\r') for _ in range(rnd.choice([0, 0, 0, 1, 1, 2])))


def _str_text(rnd, s):
    """One of the many JSON spellings of the string `s` (literal / short escape / \\uXXXX / surrogate pair)."""
    out = ['"']
    short = {'"': '\\"', '\\': '\\\\', '/': '\\/', '\b': '\\b', '\f': '\\f', '\n': '\\n', '\r': '\\r', '\t': '\\t'}
    for ch in s:
        o = ord(ch); r = rnd.random()
        must = ch in '"\\' or o < 0x20
        if ch in short and (r < 0.6 or (must and r < 0.8)) and not (ch == '/' and r < 0.3):
            out.append(short[ch])
        elif must or r > 0.75:
            if o >= 0x10000:
                o -= 0x10000; us = [0xD800 + (o >> 10), 0xDC00 + (o & 0x3FF)]
            else:
                us = [o]
            for u in us:
                h = '%04x' % u
                out.append('\\u' + (h.upper() if rnd.random() < 0.4 else h))
        else:
            out.append(ch)
    out.append('"')
    return ''.join(out)


def render_text(rnd, doc, dup=True):
    """A JSON text spelling `doc` with arbitrary whitespace and escapes; with `dup` some objects get duplicate keys."""
    w = lambda: _ws(rnd)  # noqa
    if doc is None: return 'null'
    if doc is True: return 'true'
    if doc is False: return 'false'
    if type(doc) is int: return '-0' if doc == 0 and rnd.random() < 0.3 else str(doc)
    if type(doc) is str: return _str_text(rnd, doc)
    if type(doc) is list:
        return '[' + w() + (w() + ',' + w()).join(render_text(rnd, x, dup) for x in doc) + w() + ']'
    items = list(doc.items())
    if dup and items and rnd.random() < 0.3:
        # duplicate keys at random positions: json.loads keeps the position of the first and the value of the last occurrence
        for _ in range(rnd.randint(1, 2)):
            items.insert(rnd.randrange(len(items) + 1), (rnd.choice(items)[0], gen_doc_nf(rnd, 4)))
    parts = []
    for it in items:
        parts.append(_str_text(rnd, it[0]) + w() + ':' + w() + render_text(rnd, it[1], dup))
    return '{' + w() + (w() + ',' + w()).join(parts) + w() + '}'


EDIT_CHARS = list('[]{}:,"\\ \t\n\r0123456789-+.eEntfu/xaN') + ['\x00', '\x1f', '\x7f', '\xe9', '﻿', '\U0001f600']


def edit_text(rnd, t):
    """One single-character edit (delete / insert / replace / duplicate / swap)."""
    if not t: return rnd.choice(EDIT_CHARS)
    i = rnd.randrange(len(t)); k = rnd.randrange(5)
    if k == 0: return t[:i] + t[i + 1:]
    if k == 1: return t[:i] + rnd.choice(EDIT_CHARS) + t[i:]
    if k == 2: return t[:i] + rnd.choice(EDIT_CHARS) + t[i + 1:]
    if k == 3: return t[:i] + t[i] + t[i:]
    return t[:i] + t[i + 1:i + 2] + t[i] + t[i + 2:] if i + 1 < len(t) else t[:i]


EDGE_TEXTS = [
    '0', '-0', '-', '--1', '01', '-01', '00', '1.', '1.5', '1.e3', '1e', '1e5', '1E5', '1e+5', '1e-5', '1e+', '1e-', '1e+x', '1ex', '[1e]', '[1.]', '[1e+]', '.5', '+1', '1 2',
    '[1.5, x]', '[1e5', 'NaN', 'Infinity', '-Infinity', '-Inf', 'nan', 'null', 'nul', 'nullx', '[nullx]', '[null1]', 'truefalse', 'true', 'tru', 'false', 'fals', 'None', 'True',
    '[]', '[ ]', '[,]', '[1,]', '[,1]', '[1 2]', '[1,,2]', '[', ']', '[[]', '[]]', '{}', '{ }', '{,}', '{"a":1,}', '{"a"}', '{"a":}', '{"a" 1}', '{a:1}', "{'a':1}", '{1:2}', '{"a":1 "b":2}',
    '{"a":1,"b":2,"a":3}', '{"a":{"a":1,"a":2},"a":[]}', '{"":0,"":1}', '{"a":1}}', '{', '}', '{"a":1', '"', '""', '"a', '"a\\"', '"\\', '"\\x"', '"\\u"', '"\\u12"', '"\\u123"', '"\\u123g"',
    '"\\u0041"', '"\\U0041"', '"\\u00e9\\u20AC"', '"\\ud83d\\ude00"', '"\\uD83D\\uDE00"', '"\\ud83d"', '"\\ude00"', '"\\ud83d\\u0041"', '"\\ud83d\\n"', '"\\ud83dx"', '"\\ud83d\\ud83d\\ude00"',
    '"\\ud83d\\ude0"', '"\\ud83d\\ude0g"', '"\\ud83d\\u"', '"\\ud83d\\', '"\\ud83d\\ude00', '"\\udbff\\udfff"', '"\\ud800\\udc00"', '"\\ud7ff\\ue000"', '"\\u0000"', '"\\/"', '"/"',
    '"\t"', '"\n"', '"\x00"', '"\x1f"', '"\x7f"', '"\x80"', '" "', '"﻿"', '﻿{}', '﻿', ' \t\n\r1 \t\n\r', '\x0b1', '1\x0c', '\xa01', '1 ', '　1',
    '1' * 4300, '1' * 4301, '-' + '1' * 4300, '-' + '1' * 4301, '[' + '9' * 4301 + ']', '0' * 2, '1' * 4301 + '.5', '1' * 4301 + 'e',
    '[[[[[[[[[[[[[[[[[[[[1]]]]]]]]]]]]]]]]]]]]', '[' * 40 + ']' * 40, '{"a":' * 30 + '1' + '}' * 30, '[1, 2, [3, {"k": "v", "l": [null, true, false]}]]',
]

BAD_UTF8 = [b'\xff', b'\xc0\x80', b'\xed\xa0\x80', b'\xf4\x90\x80\x80', b'\xe2\x82', b'\x80', b'\xc3', b'\xf0\x9f\x98', b'\xf8\x88\x80\x80\x80', b'\xef\xbf\xbf', b'\xed\x9f\xbf', b'\xee\x80\x80',
            b'\xf4\x8f\xbf\xbf', b'\xe0\x9f\xbf', b'\xf0\x8f\xbf\xbf', b'\xc1\xbf', b'\xc2\x80', b'\xef\xbb\xbf']


def outside_reason(text):
    """Why a text json.loads accepts is outside the modelled document type (None if inside): a float or a lone surrogate
    anywhere in the text's values/keys - also in a pair that a later duplicate key overwrites."""
    import json
    why = []

    def walk(v):
        if type(v) is float: why.append('float')
        elif type(v) is str:
            try: v.encode('utf-8')
            except UnicodeEncodeError: why.append('surrogate')
        elif type(v) is list:
            for x in v: walk(x)

    def pairs(ps):
        for k, v in ps:
            walk(k); walk(v)
        return None
    walk(json.loads(text, object_pairs_hook=pairs))
    return why[0] if why else None


# ------------------------------------------------------------------ an independent reading of RFC 8259: is this body a JSON text?
# Written from the grammar of RFC 8259 sections 2-7 (not from the json module, not from falcon): iterative (no recursion, so nesting depth
# is no obstacle), over the str obtained by a strict UTF-8 decoding of the body (section 8.1: JSON text exchanged between systems MUST be UTF-8).

import re as _re

_NUM = _re.compile(r'-?(?:0|[1-9][0-9]*)(?:\.[0-9]+)?(?:[eE][+-]?[0-9]+)?')
_HEX = set('0123456789abcdefABCDEF')
_WSCH = ' \t\n\r'


def _scan_string(t, i, n, spans):
    """t[i] is the opening quote; index after the closing quote, or -1 when the literal is not a string of section 7"""
    j = i + 1
    while j < n:
        c = t[j]
        if c == '"':
            if spans is not None:
                spans.append((i, j + 1))
            return j + 1
        if c == '\\':
            e = t[j + 1:j + 2]
            if e and e in '"\\/bfnrt':
                j += 2
            elif e == 'u' and len(t[j + 2:j + 6]) == 4 and all(x in _HEX for x in t[j + 2:j + 6]):
                j += 6
            else:
                return -1
        elif c < ' ':
            return -1               # U+0000 .. U+001F MUST be escaped
        else:
            j += 1
    return -1


def rfc8259(t, nonfinite=False, spans=None, structurals=None):
    """True iff the str `t` is a JSON-text (ws value ws).  nonfinite=True additionally admits the three literals NaN, Infinity, -Infinity
    (the documented extension of Python's json module).  spans / structurals: lists that receive the (start, end) of every string literal /
    the positions of the structural characters [ ] { } : , (only meaningful when the answer is True)."""
    n = len(t)
    i = 0
    while i < n and t[i] in _WSCH: i += 1
    stack = []
    state = 'value'
    while True:
        if state == 'value':
            if i >= n: return False
            c = t[i]
            if c == '{' or c == '[':
                if structurals is not None: structurals.append(i)
                close = '}' if c == '{' else ']'
                i += 1
                while i < n and t[i] in _WSCH: i += 1
                if i < n and t[i] == close:
                    if structurals is not None: structurals.append(i)
                    i += 1; state = 'after'
                else:
                    stack.append(c); state = 'key' if c == '{' else 'value'
            elif c == '"':
                i = _scan_string(t, i, n, spans)
                if i < 0: return False
                state = 'after'
            elif t.startswith('true', i) or t.startswith('null', i):
                i += 4; state = 'after'
            elif t.startswith('false', i):
                i += 5; state = 'after'
            else:
                m = _NUM.match(t, i)
                if m:
                    i = m.end()
                elif nonfinite and t.startswith('NaN', i):
                    i += 3
                elif nonfinite and t.startswith('Infinity', i):
                    i += 8
                elif nonfinite and t.startswith('-Infinity', i):
                    i += 9
                else:
                    return False
                state = 'after'
        elif state == 'key':
            if i >= n or t[i] != '"': return False
            i = _scan_string(t, i, n, spans)
            if i < 0: return False
            while i < n and t[i] in _WSCH: i += 1
            if i >= n or t[i] != ':': return False
            if structurals is not None: structurals.append(i)
            i += 1
            while i < n and t[i] in _WSCH: i += 1
            state = 'value'
        else:
            while i < n and t[i] in _WSCH: i += 1
            if not stack:
                return i == n
            if i >= n: return False
            c = t[i]
            if structurals is not None: structurals.append(i)
            if c == ',':
                i += 1
                while i < n and t[i] in _WSCH: i += 1
                state = 'key' if stack[-1] == '{' else 'value'
            elif (c == '}' and stack[-1] == '{') or (c == ']' and stack[-1] == '['):
                stack.pop(); i += 1
            else:
                return False


def json_verdict(body):
    """'valid' | 'invalid' | 'nonfinite' (JSON only with Python's NaN / Infinity literals) | 'bom' (a byte order mark in front: RFC 8259 8.1
    lets a parser ignore it or treat it as an error) | 'empty'"""
    if not body:
        return 'empty'
    try:
        t = body.decode('utf-8')
    except UnicodeDecodeError:
        return 'invalid'
    if t[:1] == '﻿':
        return 'bom'
    if rfc8259(t):
        return 'valid'
    return 'nonfinite' if rfc8259(t, nonfinite=True) else 'invalid'


# ------------------------------------------------------------------ bodies that are NOT JSON, of every kind

INVALID_KINDS = ['control_in_string', 'control_in_string', 'control_in_string', 'control_in_key', 'truncated', 'trailing', 'structural', 'bad_number', 'bad_literal',
                 'bad_escape', 'quotes', 'bad_whitespace', 'comment', 'bad_utf8', 'other_encoding', 'brackets', 'non_string_key', 'no_value', 'concatenated', 'python_repr']
_BAD_NUMBERS = ['01', '-', '+1', '1.', '.5', '1e', '1e+', '1E-', '0x10', '1_000', '--1', '1.e3', '-01', '00', '1.5.5', '1e5e5', '-.5', '٣', '１', '1,5', '0b1', '1f', '1L', '- 1', '+0']
_BAD_LITERALS = ['True', 'False', 'None', 'nul', 'TRUE', 'Null', 'undefined', 'nulll', 'truefalse', 'tru', 'fals', 'nil', 'NULL', 'N', 'Inf', '-Inf', 'nan', 'infinity', '-NaN', '+Infinity']
_BAD_ESCAPES = ['\\x41', '\\u12', '\\u123g', '\\a', '\\U00000041', '\\ ', "\\'", '\\u+123', '\\u 123', '\\0', '\\v', '\\e', '\\u{41}', '\\N', '\\\n', '\\u-123', '\\u١٢٣٤']
_BAD_WS = ['\x0b', '\x0c', '\xa0', '\u2028', '\u2029', '\u3000', '\u1680', '\u2003', '\x00', '\x01', '\x1f', '\x7f', '\x85', '\ufeff', '\x1c', '\x08']


def _string_units(t, a, b):
    """positions inside the string literal t[a:b] (quotes included) at which a character can be inserted without splitting an escape sequence"""
    pos = []
    j = a + 1
    while j < b - 1:
        pos.append(j)
        if t[j] == '\\':
            j += 6 if t[j + 1] == 'u' else 2
        else:
            j += 1
    pos.append(b - 1)
    return pos


def gen_invalid(rnd, kind=None, ctrl=None):
    """(kind, body): a body that is meant not to be a JSON text; derived from a valid text by one well-aimed defect.  The caller keeps it only when
    json_verdict() says 'invalid'.  ctrl: the control character to use for the control_in_* kinds (default: random in U+0000..U+001F)."""
    kind = kind or rnd.choice(INVALID_KINDS)
    doc = gen_doc_nf(rnd)
    if kind in ('control_in_string', 'control_in_key', 'bad_escape', 'quotes', 'non_string_key') or rnd.random() < 0.4:
        # make sure there are strings and keys, at some depth
        inner = {gen_str(rnd, 3) or 'k': doc, 'note': gen_str(rnd, 8) or 'v'}
        doc = rnd.choice([inner, [inner], {'data': [1, inner]}, [[gen_str(rnd) or 's', inner]]])
    t = render_text(rnd, doc, dup=False)
    spans, structs = [], []
    assert rfc8259(t, spans=spans, structurals=structs), t
    spans.sort()
    enc = lambda s: s.encode('utf-8', 'surrogatepass')  # noqa
    if kind in ('control_in_string', 'control_in_key'):
        c = chr(rnd.randrange(0x20)) if ctrl is None else ctrl
        keys = [sp for sp in spans if t[sp[1]:].lstrip(_WSCH)[:1] == ':']
        vals = [sp for sp in spans if sp not in keys]
        pool = (keys if kind == 'control_in_key' else vals) or spans
        a, b = rnd.choice(pool)
        p = rnd.choice(_string_units(t, a, b))
        return kind, enc(t[:p] + c + t[p:])
    if kind == 'truncated':
        k = rnd.randrange(1, len(t)) if len(t) > 1 else 1
        return kind, enc(t[:k]) if rnd.random() < 0.8 else enc(t)[:max(1, rnd.randrange(len(enc(t))))]
    if kind == 'trailing':
        return kind, enc(t + rnd.choice(['x', ']', '}', ',', ' null', '{}', '\x00', ' ,', '"', ':', ' 1', '\\', ';', ')']))
    if kind == 'structural':
        if not structs:
            return kind, enc(rnd.choice([',', ':', ',' + t, t + ',', ':' + t]))
        p = rnd.choice(structs); k = rnd.randrange(5)
        if k == 0: return kind, enc(t[:p] + t[p + 1:])                              # a structural character missing
        if k == 1: return kind, enc(t[:p] + t[p] + t[p:])                           # ... doubled
        if k == 2: return kind, enc(t[:p] + rnd.choice(',:;=') + t[p + 1:])          # ... replaced
        if k == 3 and t[p] in ']}': return kind, enc(t[:p] + ',' + t[p:])            # trailing comma
        return kind, enc(t[:p + 1] + ',' + t[p + 1:]) if t[p] in '[{,' else enc(t[:p] + ',' + t[p:])   # leading / double comma
    if kind in ('bad_number', 'bad_literal'):
        tok = rnd.choice(_BAD_NUMBERS if kind == 'bad_number' else _BAD_LITERALS)
        k = rnd.randrange(3)
        if k == 0 or not structs: return kind, enc(tok)
        if k == 1: return kind, enc('[' + t + ', ' + tok + ']')
        return kind, enc('{"a": ' + tok + ', "b": ' + t + '}')
    if kind == 'bad_escape':
        a, b = rnd.choice(spans)
        p = rnd.choice(_string_units(t, a, b))
        esc = rnd.choice(_BAD_ESCAPES)
        if rnd.random() < 0.1:
            return kind, enc(t[:b - 1] + '\\' + t[b - 1:])          # a backslash in front of the closing quote: the string does not end
        return kind, enc(t[:p] + esc + t[p:])
    if kind == 'quotes':
        a, b = rnd.choice(spans); k = rnd.randrange(4)
        if k == 0: return kind, enc(t[:a] + "'" + t[a + 1:b - 1] + "'" + t[b:])       # single quotes
        if k == 1: return kind, enc(t[:a] + (t[a + 1:b - 1] or 'k') + t[b:])           # no quotes
        if k == 2: return kind, enc(t[:b - 1] + t[b:])                                # closing quote missing
        return kind, enc(t[:a] + t[a + 1:])                                           # opening quote missing
    if kind in ('bad_whitespace', 'comment'):
        ins = rnd.choice(_BAD_WS) if kind == 'bad_whitespace' else rnd.choice(['// c\n', '/* c */', '# c\n', '<!-- c -->'])
        places = [0, len(t)] + structs + [p + 1 for p in structs]
        p = rnd.choice(places)
        return kind, enc(t[:p] + ins + t[p:])
    if kind == 'bad_utf8':
        b = enc(t)
        if rnd.random() < 0.6 and spans:
            a, e = rnd.choice(spans); k = len(enc(t[:rnd.choice(_string_units(t, a, e))]))
        else:
            k = rnd.randrange(len(b) + 1)
        return kind, b[:k] + rnd.choice(BAD_UTF8) + b[k:]
    if kind == 'other_encoding':
        codec = rnd.choice(['utf-16', 'utf-16-le', 'utf-16-be', 'utf-32', 'utf-32-le', 'latin-1', 'cp1252', 'utf-7', 'cp037'])
        try:
            return kind, t.encode(codec)
        except UnicodeEncodeError:
            return kind, t.encode('utf-16')
    if kind == 'brackets':
        k = rnd.randrange(5)
        if k == 0: return kind, enc('[' + t + '}')
        if k == 1: return kind, enc('{"a": ' + t + ']')
        if k == 2: return kind, enc('[' + t)
        if k == 3: return kind, enc(t + rnd.choice(']}'))
        return kind, enc(rnd.choice(['[', '{', ']', '}', '[[]', '{"a":{}', '[{]}', '([])', '(1)']))
    if kind == 'non_string_key':
        return kind, enc('{' + rnd.choice(['1', 'null', 'true', '[]', '{}', 'a', '1.5', '']) + ': ' + t + '}')
    if kind == 'no_value':
        return kind, enc(rnd.choice([' ', '\n', '\t\r\n ', '\x00', '\x1f', ',', ':', '{"a"}', '{"a":}', '{:1}', '[,]', '{,}', '\x0c', '\\', '/', '-', '.', 'e', '"', "''"]))
    if kind == 'concatenated':
        return kind, enc(t + rnd.choice(['', ' ', '\n']) + render_text(rnd, gen_doc_nf(rnd, 3), dup=False))
    if kind == 'python_repr':
        return kind, enc(repr(doc))
    raise ValueError(kind)


# ------------------------------------------------------------------ response content types with parameters

CHARSETS = ['utf-8', 'UTF-8', 'utf8', 'UTF8', 'Utf-8', 'ISO-8859-1', 'iso-8859-1', 'latin1', 'latin-1', 'windows-1252', 'cp1252', 'utf-16', 'UTF-16LE', 'utf-16be', 'utf-32',
            'us-ascii', 'ascii', 'US-ASCII', 'iso-8859-15', 'shift_jis', 'koi8-r', 'x-unknown-charset']
OTHER_PARAMS = ['version=2', 'v=1', 'profile="https://example.com/p"', 'indent=4', 'boundary=xyz', 'q=0.5', 'Version=2']
TEXT_SNIPPETS = ['café', 'naïve', 'Ærøskøbing', '5 €', '“quoted”', 'Ελληνικά', 'русский', '日本語', 'עברית', 'emoji \U0001f600', '\U00010000\U0010ffff', 'plain ascii only',
                 'ÿþ', '\x7f\x80\xa0', 'tab\tnewline\n', 'Ω≈ç√', 'żółć', '…', 'a\xadb', '\ufeffbom', '\U0010ffff']


def gen_json_ctype(rnd, base='application/json'):
    """(content type, class): class is 'plain' | 'charset_utf8' | 'charset_other' | 'other_param'"""
    k = rnd.random()
    if k < 0.12:
        return base, 'plain'
    if k < 0.22:
        p = rnd.choice(OTHER_PARAMS)
        return base + rnd.choice(['; ', ';']) + p, 'other_param'
    cs = rnd.choice(CHARSETS)
    val = cs if rnd.random() < 0.8 else '"' + cs + '"'
    par = rnd.choice(['charset', 'charset', 'charset', 'Charset', 'CHARSET']) + '=' + val
    parts = [par]
    if rnd.random() < 0.25:
        parts.insert(rnd.randrange(2), rnd.choice(OTHER_PARAMS))
    out = base
    for p in parts:
        out += rnd.choice(['; ', '; ', ';', ' ; ']) + p
    return out, ('charset_utf8' if cs.lower().replace('-', '') == 'utf8' else 'charset_other')


def gen_text_doc(rnd):
    """a document that certainly contains text, mostly non-ASCII (Latin-1 range, cp1252-only, BMP, astral), as value and as key, at some depth"""
    s = lambda: rnd.choice(TEXT_SNIPPETS) + (rnd.choice(TEXT_SNIPPETS) if rnd.random() < 0.3 else '')  # noqa
    k = rnd.randrange(6)
    if k == 0: return s()
    if k == 1: return [s(), s()]
    if k == 2: return {'name': s(), 'price': s(), 'n': 1}
    if k == 3: return {s(): s()}
    if k == 4: return {'items': [{'title': s()}, [s(), None, 1.5]], s(): True}
    return [[[{'deep': s()}]], s()]

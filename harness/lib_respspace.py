"""The generated space of "ways an application can fill in a response" (C05's quantifier; reused by C06).

A *plan* is a JSON-able dict; ``fill(resp, plan, asgi)`` applies it to a falcon Response inside a responder and
returns the instrumented stream probe (or None).  Nothing here inspects the result - that is the oracles' job.
falcon is imported lazily (only inside functions).
"""
import http
import json
import re

BODILESS = (100, 101, 204, 304)
TYPELESS = (204, 304)

# (form, value handed to resp.status, numeric code).  'line*' = a status line whose reason phrase is not falcon's.
STATUSES = [
    ('int', 200, 200), ('int', 200, 200), ('int', 201, 201), ('int', 204, 204), ('int', 304, 304), ('int', 100, 100),
    ('int', 101, 101), ('int', 404, 404), ('int', 500, 500), ('int', 301, 301),
    ('int', 799, 799), ('int', 299, 299),
    ('line', '200 OK', 200), ('line', '204 No Content', 204), ('line', '304 Not Modified', 304),
    ('line', '101 Switching Protocols', 101), ('line', '404 Not Found', 404),
    ('line*', '200 Fine', 200), ('line*', '204 Nope', 204), ('line*', '304 not modified', 304),
    ('line*', '100 continue', 100), ('line*', '418 teapot', 418), ('line*', '799 Custom', 799),
    ('code-str', '204', 204), ('code-str', '200', 200),
    ('enum', 200, 200), ('enum', 204, 204), ('enum', 304, 304), ('enum', 100, 100), ('enum', 101, 101),
    ('enum', 418, 418), ('enum', 201, 201),
]
# (C05, after seed C05_13) more of the status space for the random plans: the informational codes that are NOT 100 / 101, codes next to
# 204 / 304, the ends of every class, codes beyond 599; 'code-prop' = assigned through resp.status_code; the exhaustive sweep is c05.status_sweep
STATUSES_MORE = [
    ('int', 102, 102), ('int', 103, 103), ('line', '102 Processing', 102), ('line', '103 Early Hints', 103), ('enum', 102, 102), ('enum', 103, 103),
    ('int', 199, 199), ('int', 150, 150), ('line*', '150 Custom Informational', 150), ('line*', '199 Nearly', 199), ('code-str', '102', 102),
    ('code-prop', 103, 103), ('code-prop', 204, 204), ('code-prop', 200, 200), ('code-prop', 101, 101),
    ('int', 203, 203), ('int', 205, 205), ('enum', 205, 205), ('int', 206, 206), ('int', 303, 303), ('int', 305, 305), ('line*', '305 use proxy', 305),
    ('int', 400, 400), ('int', 499, 499), ('int', 599, 599), ('int', 600, 600), ('int', 999, 999), ('line*', '999 Last', 999),
]
# (C05, after seed C05_15) the SHAPE of an iterable stream object - what its __iter__ / __aiter__ returns: None = the object itself (a
# classic iterator); 'sep' = a separate iterator object without close(); 'sep_close' = a separate iterator object that has a close() of
# its own (counted in Probe.iter_closed); 'genmethod' = __iter__ / __aiter__ is written as a (async) generator method.  Whether the
# stream object itself has close() is the kind ('iter' / 'iter-noclose'), so close() exists on the iterable only, on the iterator only,
# on both, on neither.  A file-like object may be iterable as well, like real files (`also_iter`).
SHAPES = [None, 'sep', 'sep_close', 'genmethod']
# The LIFETIME of the stream object's attribute set (C05, after seed C05_17): when `close` (and `read`) can be looked up on the object
# the application assigned to resp.stream.  None = fixed by the class.  'close_getattr_after_first_call' = a lazy proxy whose
# __getattr__ resolves `close` only once the first read() / __next__ was entered (the resource is opened lazily);
# 'close_bound_by_first_call' = the first call binds self.close; 'close_rebound_by_first_call' = the class has a close(), the first call
# replaces it on the instance by another callable (the old one is then stale: Probe.stale_closed); 'close_removed_at_end' = the
# instance's close is deleted when the stream hands out its end marker (it closed itself); 'read_rebound_by_first_call' = the first
# read() replaces self.read (file-like kinds).  What counts for the statement is the close() the object HAS when the response ends.
CLOSE_LIVES = ['close_getattr_after_first_call', 'close_bound_by_first_call', 'close_rebound_by_first_call', 'close_removed_at_end']
LIVES = CLOSE_LIVES + ['read_rebound_by_first_call']
METHODS = ['GET', 'GET', 'HEAD', 'HEAD', 'POST', 'PUT', 'DELETE', 'PATCH', 'OPTIONS']
MEDIA = {'dict': {'k': 'v', 'é': 1}, 'empty-dict': {}, 'zero': 0, 'str': 'm', 'list': [1, 'a'],
         # the other "falsy" JSON documents (C06 draws them; gen_plan itself keeps its original pool)
         'empty-list': [], 'false': False, 'empty-str': '', 'zero-float': 0.0}
FALSY_MEDIA = ['empty-dict', 'zero', 'empty-list', 'false', 'empty-str', 'zero-float']
TEXTS = ['héllo-text', 'TEXT', '']
DATAS = [b'DATA-bytes', b'\xff\x00d', b'']
CHUNKS = [b'ab', b'c', b'def', b'\xffz']
SYNC_KINDS = ['file', 'file', 'file-noclose', 'iter', 'iter', 'iter-noclose', 'gen']
ASYNC_OF = {'file': 'afile', 'file-noclose': 'afile-noclose', 'iter': 'aiter', 'iter-noclose': 'aiter-noclose', 'gen': 'agen'}
SUPPORTED_MEDIA_TYPES = ('application/json',)

# Response headers an APPLICATION may set that speak about message framing / the connection (RFC 9110 7.6-7.8, RFC 9112 6-7): to the
# framework they are headers like any other - whatever they say, it frames a non-streamed body itself (exact Content-Length).
# name (several spellings: header names are case-insensitive) -> values
FRAMING = {
    'Transfer-Encoding': ['chunked', 'identity', 'gzip', 'gzip, chunked'],
    'Connection': ['close', 'keep-alive', 'upgrade', 'Transfer-Encoding'],
    'Content-Encoding': ['gzip', 'identity', 'br'],
    'Trailer': ['X-Checksum', 'Expires'],
    'TE': ['trailers', 'gzip;q=0.5'],
    'Upgrade': ['h2c', 'websocket'],
    'Keep-Alive': ['timeout=5, max=100'],
    'Content-Range': ['bytes 0-4/5'],
}
FRAMING_HOW = ['set', 'set', 'append', 'dict', 'pairs']   # set_header / append_header / set_headers({..}) / set_headers([(..)])


def _spell(rnd, name):
    return rnd.choice([name, name, name.lower(), name.upper()])


def gen_framing(rnd):
    """0-3 framing / connection headers the application puts on the response, each by one of the four public ways; Transfer-Encoding
    is over-represented (it is the one header that makes Content-Length "forbidden" by RFC 9112 6.2) and is sometimes built from two
    append_header calls.  [[how, name as spelled, value], ...] in call order."""
    ops = []
    names = rnd.sample(sorted(FRAMING), rnd.choice([1, 1, 2, 3]))
    if rnd.random() < 0.5 and 'Transfer-Encoding' not in names:
        names[rnd.randrange(len(names))] = 'Transfer-Encoding'
    for name in names:
        if name == 'Transfer-Encoding' and rnd.random() < 0.2:
            ops += [['append', _spell(rnd, name), 'gzip'], ['append', _spell(rnd, name), 'chunked']]
        else:
            ops.append([rnd.choice(FRAMING_HOW), _spell(rnd, name), rnd.choice(FRAMING[name])])
    return ops


def framing_assignments(p):
    """the header dict assignments (lower-case name, value) the plan's framing calls amount to, by the documentation of
    set_header / append_header (joins with ', ') / set_headers"""
    out, cur = [], {}
    for how, name, value in p.get('framing') or []:
        k = name.lower()
        v = cur[k] + ', ' + value if how == 'append' and k in cur else value
        cur[k] = v
        out.append((k, v))
    return out


def right_length(p):
    """the number of body bytes the plan's winning non-streamed source amounts to (None: streamed / not serialisable / no source)"""
    src = effective_source(p)
    if src == 'text':
        return len(p['text'].encode('utf-8'))
    if src == 'data':
        return len(p['data'])
    if src == 'media' and p['media'] != 'unserialisable':
        return len(media_bytes(p['media']))
    return None


def norm_cookie(v):
    """unset_cookie() renders `expires` relative to the clock at output time: not part of any comparison."""
    return re.sub(r'expires=[^;]+', 'expires=<clock>', v)


class StreamFault(IOError):
    pass


class ServerStop(BaseException):
    """a BaseException that is not an Exception, as servers / frameworks define them for "stop now" (like KeyboardInterrupt,
    SystemExit, trio.Cancelled): `except Exception` does not see it, `finally` does"""


def fault_class(name):
    """HOW streaming is interrupted - the class of what the stream / the server's send / close() raises: an Exception subclass,
    or one of the BaseException-only classes (asyncio.CancelledError is what an ASGI server's task cancellation raises inside the app)"""
    import asyncio
    return {'exception': StreamFault, 'oserror': OSError, 'cancelled': asyncio.CancelledError, 'generator_exit': GeneratorExit,
            'base': ServerStop}[name or 'exception']


FAULT_CLASSES = ['exception', 'cancelled', 'generator_exit', 'base']
# what the truth value of a stream OBJECT may be (None = an ordinary object: truthy, no __len__ / __bool__)
TRUTHS = [None, 'len0', 'bool_false', 'len_pos', 'true_then_false', 'false_then_true']


def falsy_at_first_look(truth):
    return truth in ('len0', 'bool_false', 'false_then_true')


async def cancelled_here():
    """The server cancels the task that runs the application while it is suspended at this await (what ASGI servers do when the
    client goes away): the task waits on a future, task.cancel() is called from outside the task by the event loop."""
    import asyncio
    loop = asyncio.get_running_loop()
    fut = loop.create_future()
    loop.call_soon(asyncio.current_task().cancel)
    await fut


STATUS_BODY_TEXT = 'accépted-by-HTTPStatus'   # the body of the raise kind 'status_body'
NONE = 'N'   # an item of a stream's hand-out sequence: the stream returns / yields None at that call (ASGI only)


class Probe:
    """What a generated stream does: hands out the items (byte strings, or NONE = the stream hands out None), raises
    at the `fail`-th call, counts close().  step() returns None once the items are exhausted (the stream then ends
    the way its kind does: b'' / StopIteration / StopAsyncIteration / return)."""

    def __init__(self, chunks, fail, reader=None, fail_class=None, close_class=None, cancel_at=None):
        self.chunks, self.fail, self.calls, self.closed, self.finalized = list(chunks), fail, 0, 0, 0
        # closed counts close() on the object the application assigned to resp.stream; iter_closed counts close() on a SEPARATE
        # iterator object its __iter__ / __aiter__ handed out (see SHAPES); iters = how often __iter__ / __aiter__ was called
        self.iter_closed, self.iters = 0, 0
        # fail_class: what the failing call raises; close_class: close() itself raises that (after being counted);
        # cancel_at: ['call', i] / ['close'] - ASGI: the app task is cancelled while it is suspended in that call
        self.fail_class, self.close_class, self.cancel_at, self.truth_looks = fail_class, close_class, cancel_at, 0
        # reader: a file-like object that honours the size argument of read(n) and may return FEWER bytes than asked
        # for while more data is still to come (see gen_reader); sizes = the n of every read(n) call it received
        self.reader, self.pos, self.sizes = reader, 0, []
        self.data = reader_data(reader['size']) if reader else b''
        # the lifetime of the stream object's attribute set (see LIVES): obj = the object assigned to resp.stream; on_enter runs when
        # the stream's first read() / __next__ is entered ("the resource is opened"), on_end when it hands out its end marker;
        # stale_closed counts calls of a close() that had been REPLACED by another callable by then
        self.obj, self.on_enter, self.on_end, self.rebound, self.stale_closed = None, None, None, False, 0

    def has_close_now(self):
        return callable(getattr(self.obj, 'close', None))

    def enter(self):
        if self.on_enter is not None:
            hook, self.on_enter = self.on_enter, None
            hook()

    def end(self):
        if self.on_end is not None:
            hook, self.on_end = self.on_end, None
            hook()

    def step(self, n=None):
        i = self.calls
        self.calls += 1
        self.enter()
        if self.fail == i:
            raise fault_class(self.fail_class)(f'stream fault at call {i}')
        if self.reader is not None:
            self.sizes.append(n)
            k = reader_cap(self.reader, i)
            if n is not None and n >= 0:
                k = min(k, n)
            out = self.data[self.pos:self.pos + k]
            self.pos += len(out)
            return out
        return self.chunks.pop(0) if self.chunks else None


def _closed_sync(probe):
    probe.closed += 1
    if probe.close_class is not None:
        raise fault_class(probe.close_class)('close() fault')


async def _closed_async(probe):
    probe.closed += 1
    if probe.cancel_at == ['close']:
        await cancelled_here()
    if probe.close_class is not None:
        raise fault_class(probe.close_class)('close() fault')


async def _before_call(probe):
    if probe.cancel_at == ['call', probe.calls]:
        probe.calls += 1
        probe.enter()
        await cancelled_here()


def _truth(cls, probe, truth):
    """Give the stream class a truth value of its own: __len__ (0 / positive: e.g. "chunks buffered so far") or __bool__ (constant,
    or changing after the first look)."""
    if truth == 'len0':
        cls.__len__ = lambda self: _looked(probe, 0)
    elif truth == 'len_pos':
        cls.__len__ = lambda self: _looked(probe, 3)
    elif truth == 'bool_false':
        cls.__bool__ = lambda self: _looked(probe, False)
    elif truth == 'true_then_false':
        cls.__bool__ = lambda self: _looked(probe, probe.truth_looks == 0)
    elif truth == 'false_then_true':
        cls.__bool__ = lambda self: _looked(probe, probe.truth_looks != 0)


def _looked(probe, value):
    probe.truth_looks += 1
    return value


def _iter_closed_sync(probe):
    probe.iter_closed += 1


async def _iter_closed_async(probe):
    probe.iter_closed += 1


def _next_sync(probe, file_like=False):
    c = probe.step()
    if c is None or (file_like and c == b''):
        probe.end()
        raise StopIteration
    return c


async def _next_async(probe, file_like=False):
    await _before_call(probe)
    c = probe.step()
    if c is None or (file_like and (c is NONE or c == b'')):
        probe.end()
        raise StopAsyncIteration
    # "async iterators must return None instead of raising StopIteration" (falcon.asgi.Response.stream)
    return None if c is NONE else c


def _live(cls, kind, probe, life):
    """Instantiate the stream class `cls` with the attribute lifetime `life` (see LIVES); kind: its (a)sync kind name."""
    asyn = kind.startswith('a')
    has_close = not kind.endswith('-noclose')
    if asyn:
        async def closer(self=None):
            await _closed_async(probe)

        async def stale(self):
            if probe.rebound:
                probe.stale_closed += 1
            else:
                await _closed_async(probe)
    else:
        def closer(self=None):
            _closed_sync(probe)

        def stale(self):
            if probe.rebound:
                probe.stale_closed += 1
            else:
                _closed_sync(probe)
    if life not in CLOSE_LIVES:
        if has_close:
            cls.close = closer
    elif life == 'close_getattr_after_first_call':
        # a lazy proxy: everything but read() is delegated to the underlying resource, which exists from the first read() on
        def __getattr__(self, name):
            if name == 'close' and probe.calls > 0:
                return closer
            raise AttributeError(name)
        cls.__getattr__ = __getattr__
    elif life == 'close_rebound_by_first_call':
        cls.close = stale
    obj = cls()
    if life == 'close_bound_by_first_call':
        probe.on_enter = lambda: setattr(obj, 'close', closer)
    elif life == 'close_rebound_by_first_call':
        def rebind():
            probe.rebound = True
            obj.close = closer
        probe.on_enter = rebind
    elif life == 'close_removed_at_end':
        obj.close = closer
        probe.on_end = lambda: obj.__dict__.pop('close', None)
    elif life == 'read_rebound_by_first_call':
        # the first read() replaces the object's read by another callable (that of the resource it has just opened)
        second = cls.read2
        probe.on_enter = lambda: setattr(obj, 'read', second.__get__(obj))
    return obj


def make_stream(kind, probe, truth=None, shape=None, also_iter=False, life=None):
    """shape (iterable kinds) / also_iter (file-like kinds): see SHAPES; life: see LIVES."""
    if kind in ('file', 'file-noclose'):
        class F:
            def read(self, n=-1):
                c = probe.step(n)
                if c is None or c == b'':
                    probe.end()
                return b'' if c is None else c
            read2 = read
        if also_iter:
            # like io.BufferedReader: a file-like object is iterable, too (the documentation makes read() the interface)
            F.__iter__ = lambda self: _iters(probe, self)
            F.__next__ = lambda self: _next_sync(probe, True)
        _truth(F, probe, truth)
        return _live(F, kind, probe, life)
    if kind in ('iter', 'iter-noclose'):
        if shape in ('sep', 'sep_close'):
            class It:
                def __iter__(self):
                    return self

                def __next__(self):
                    return _next_sync(probe)
            if shape == 'sep_close':
                It.close = lambda self: _iter_closed_sync(probe)

            class I:  # noqa: E742
                def __iter__(self):
                    return _iters(probe, It())
        elif shape == 'genmethod':
            class I:  # noqa: E742
                def __iter__(self):
                    probe.iters += 1
                    while True:
                        c = probe.step()
                        if c is None:
                            probe.end()
                            return
                        yield c
        else:
            class I:  # noqa: E742
                def __iter__(self):
                    return _iters(probe, self)

                def __next__(self):
                    return _next_sync(probe)
        _truth(I, probe, truth)
        return _live(I, kind, probe, life)
    if kind == 'gen':
        def g():
            try:
                while True:
                    c = probe.step()
                    if c is None:
                        return
                    yield c
            finally:
                probe.finalized += 1
        return g()
    if kind in ('afile', 'afile-noclose'):
        class AF:
            async def read(self, n=-1):
                await _before_call(probe)
                c = probe.step(n)
                if c is NONE:
                    return None
                if c is None or c == b'':
                    probe.end()
                return b'' if c is None else c
            read2 = read
        if also_iter:
            async def anext_(self):
                return await _next_async(probe, True)
            AF.__aiter__ = lambda self: _iters(probe, self)
            AF.__anext__ = anext_
        _truth(AF, probe, truth)
        return _live(AF, kind, probe, life)
    if kind in ('aiter', 'aiter-noclose'):
        if shape in ('sep', 'sep_close'):
            class AIt:
                def __aiter__(self):
                    return self

                async def __anext__(self):
                    return await _next_async(probe)
            if shape == 'sep_close':
                async def iclose(self):
                    await _iter_closed_async(probe)
                AIt.close = iclose

            class AI:
                def __aiter__(self):
                    return _iters(probe, AIt())
        elif shape == 'genmethod':
            class AI:
                async def __aiter__(self):
                    probe.iters += 1
                    while True:
                        await _before_call(probe)
                        c = probe.step()
                        if c is None:
                            probe.end()
                            return
                        # "one can simply yield None" to end the body (falcon.asgi.Response.stream)
                        yield None if c is NONE else c
        else:
            class AI:
                def __aiter__(self):
                    return _iters(probe, self)

                async def __anext__(self):
                    return await _next_async(probe)
        _truth(AI, probe, truth)
        return _live(AI, kind, probe, life)
    if kind == 'agen':
        async def ag():
            try:
                while True:
                    c = probe.step()
                    if c is None:
                        return
                    # "one can simply yield None" to end the body (falcon.asgi.Response.stream)
                    yield None if c is NONE else c
            finally:
                probe.finalized += 1
        return ag()
    raise ValueError(kind)


def _iters(probe, it):
    probe.iters += 1
    return it


MEDIA_KINDS = ['dict', 'dict', 'empty-dict', 'zero', 'str', 'list', 'unserialisable']


def gen_hist(rnd, p):
    """A *history* on one response that ends in the plan's text/data/media: each attribute is assigned 0-3 times (other
    values of its pool and None first, the plan's value last) and 1-3 calls of the public resp.render_body() (what an
    ETag / logging / compression hook does) happen in between.  Two shapes: 'mixed' - the three assignment sequences are
    interleaved at random and the calls are placed at random positions; 'blocks' - the attributes are filled in one
    after the other in a random one of the 6 orders, with a call after each block (so that a call sees every source that
    a later assignment overrides or is overridden by).  Ops: ['text', v] / ['data', v] / ['media', kind-or-None] / ['render']."""
    seqs = []
    for attr, pool in (('text', TEXTS), ('data', DATAS), ('media', MEDIA_KINDS)):
        earlier = [rnd.choice(pool + [None]) for _ in range(rnd.choice([0, 0, 1, 1, 2]))]
        seq = [[attr, v] for v in earlier]
        if p[attr] is not None or earlier or rnd.random() < 0.2:
            seq.append([attr, p[attr]])
        seqs.append(seq)
    ops = []
    if rnd.random() < 0.5:
        rnd.shuffle(seqs)
        for seq in seqs:
            ops += seq
            if seq and rnd.random() < 0.8:
                ops.append(['render'])
        if not any(op[0] == 'render' for op in ops):
            ops.insert(rnd.randint(0, len(ops)), ['render'])
        return ops
    while any(seqs):
        seq = rnd.choice([q for q in seqs if q])
        ops.append(seq.pop(0))
    for _ in range(rnd.choice([1, 1, 2, 3])):
        ops.insert(rnd.randint(0, len(ops)), ['render'])
    return ops


def gen_plan(rnd, sse_ok=True, errors_ok=True, hist_ok=False, none_ok=False, obj_ok=False, framing_ok=False, more_statuses=False, shape_ok=False):
    form, value, code = rnd.choice(STATUSES + STATUSES_MORE if more_statuses and rnd.random() < 0.3 else STATUSES)
    p = {'status_form': form, 'status': value, 'code': code, 'method': rnd.choice(METHODS)}
    srcs = rnd.sample(['text', 'data', 'media', 'stream'], rnd.choice([0, 1, 1, 1, 1, 2, 2, 3, 4]))
    p['text'] = rnd.choice(TEXTS) if 'text' in srcs else None
    p['data'] = rnd.choice(DATAS) if 'data' in srcs else None
    p['media'] = rnd.choice(['dict', 'dict', 'empty-dict', 'zero', 'str', 'list', 'unserialisable']) if 'media' in srcs else None
    if 'stream' in srcs:
        kind = rnd.choice(SYNC_KINDS)
        ch = [rnd.choice(CHUNKS) for _ in range(rnd.randint(0, 4))]
        if rnd.random() < 0.2:
            ch.insert(rnd.randint(0, len(ch)), b'')
        p['stream'] = {'kind': kind, 'chunks': ch, 'fail': rnd.choice([None, None, None, 0, 1, 2, 3, 4, 5])}
        if none_ok:
            # ASGI only: the stream hands out None at that call (before chunk j; j = len: after the last chunk).  For an
            # async iterator / generator that is the documented end-of-body marker (the chunks behind it are never sent)
            p['stream']['none_at'] = rnd.choice([None, None, len(ch), len(ch), rnd.randint(0, len(ch))])
        if obj_ok and kind != 'gen' and rnd.random() < 0.45:
            # the stream OBJECT: its truth value (a generator object cannot have one of its own) ...
            p['stream']['truth'] = rnd.choice(TRUTHS[1:])
        if shape_ok:
            gen_shape(rnd, p['stream'])
        if obj_ok and rnd.random() < 0.3:
            # ... and whether it is handed over with resp.set_stream(stream, content_length): the length its chunks really have
            # (what the documentation asks for), sometimes another one
            p['stream']['declared'] = rnd.choice([declared_length(p['stream']), declared_length(p['stream']), 0, 1, 4096])
    else:
        p['stream'] = None
    p['cl'] = rnd.choice([None, None, None, '3', '999', 7])
    p['ct'] = rnd.choice([None, None, None, 'application/json', 'application/json', 'text/x-custom', 'application/x-unknown'])
    p['dflt'] = rnd.choice(['application/json', 'application/json', 'application/json', 'text/plain'])
    p['xa'] = rnd.choice([None, None, 'b', 'bé'])
    p['xappend'] = rnd.random() < 0.15
    p['extra_set_cookie'] = rnd.random() < 0.1
    p['cookie'] = rnd.random() < 0.2
    p['unset_cookie'] = rnd.random() < 0.1
    p['resp_class'] = rnd.choice(['std', 'std', 'std', 'sub', 'render'])
    p['fw'] = rnd.random() < 0.5
    p['sse'] = None
    if sse_ok and rnd.random() < 0.08:
        p['sse'] = [rnd.choice(['text', 'json', 'none', 'full', 'data', 'comment']) for _ in range(rnd.randint(0, 3))]
    p['raise'] = None
    p['raise_after_fill'] = False
    if errors_ok and rnd.random() < 0.12:
        p['raise'] = rnd.choice(['notfound', 'httperror', 'redirect', 'status', 'exception'])
        p['raise_after_fill'] = rnd.random() < 0.4
    if hist_ok and rnd.random() < 0.35:
        p['hist'] = gen_hist(rnd, p)
        p['hist_hdr_first'] = rnd.random() < 0.5
    if framing_ok:
        # (C05) headers set by the application that interact with framing: an explicit Content-Length that is RIGHT for the body
        # (the pool above only has wrong ones), the way the explicit Content-Length is set, framing / connection headers, and a raised
        # HTTPStatus that carries a body
        if p['cl'] is not None and right_length(p) is not None and rnd.random() < 0.4:
            p['cl'] = rnd.choice([str, int])(right_length(p))
        if p['cl'] is not None:
            p['cl_how'] = rnd.choice(['property', 'property', 'set', 'dict', 'pairs'])
        if rnd.random() < 0.4:
            p['framing'] = gen_framing(rnd)
            p['framing_first'] = rnd.random() < 0.5
        if p['raise'] == 'status' and rnd.random() < 0.5:
            p['raise'] = 'status_body'
    return p


def gen_shape(rnd, st):
    """(C05) the shape of the stream object: see SHAPES"""
    if st['kind'] in ('iter', 'iter-noclose') and rnd.random() < 0.6:
        st['shape'] = rnd.choice(SHAPES[1:])
    elif st['kind'] in ('file', 'file-noclose') and rnd.random() < 0.3:
        st['also_iter'] = True
    if st['kind'] in ('file', 'iter') and rnd.random() < 0.3:
        st['life'] = rnd.choice(CLOSE_LIVES)
    elif st['kind'] in ('file', 'file-noclose') and rnd.random() < 0.15:
        st['life'] = 'read_rebound_by_first_call'


def has_close_end(p, probe):
    """whether the object assigned to resp.stream has a callable close() NOW (asked when the response has ended): by its kind, or -
    an object whose attribute set changes over its lifetime (LIVES) - by looking at the object"""
    st = p['stream']
    if st is None:
        return False
    if st.get('life') in CLOSE_LIVES and probe is not None and probe.obj is not None:
        return probe.has_close_now()
    return st['kind'] in ('file', 'iter')


def declared_length(st):
    """the number of bytes the stream's chunks hold (up to the first b'' of a file-like object)"""
    n = 0
    for c in st['chunks']:
        if c == b'' and st['kind'].startswith('file'):
            break
        n += len(c)
    return n


# ---------------------------------------------------------------- file-like streams with short reads (C06)
BLOCK = 8192   # the block size a server / falcon asks for (PEP 3333 file_wrapper default; falcon documents 8 KiB blocks)
READER_SIZES = [0, 1, 5, 100, 5000, 8191, 8192, 8193, 10000, 12000, 16383, 16384, 16385, 20000, 24577]
READER_CAPS = [1, 2, 7, 100, 1000, 1808, 2000, 4096, 5000, 8190, 8191, 8192, 8193, 8194, 10000, 16384, 30000]


def reader_data(size):
    """The content of a reader stream: a fixed function of its size (so that a plan only records the size)."""
    return bytes((i * 7 + 13) % 251 for i in range(size))


def reader_cap(reader, i):
    """The most the reader returns at its i-th read() call, whatever is asked for (>= 1: only b'' means end of file)."""
    caps = reader['caps']
    return caps[i] if i < len(caps) else reader['tail']


def reader_handouts(reader, n=BLOCK):
    """What successive read(n) calls return, up to and including the first b''."""
    data, pos, out, i = reader_data(reader['size']), 0, [], 0
    while True:
        c = data[pos:pos + min(n, reader_cap(reader, i))]
        out.append(c)
        pos += len(c)
        i += 1
        if not c:
            return out


def gen_reader(rnd):
    """A file-like stream by its read contract: `size` bytes of content; the i-th read(n) returns min(n, caps[i]) bytes
    (caps beyond the list: `tail`) - i.e. short reads BEFORE the end of the data.  Patterns: one byte at a time; random caps;
    a pattern that changes (full blocks then short reads, short reads then full blocks); bursts just around the 8 KiB
    block size; a regular file (never short before the end) for comparison."""
    pat = rnd.choice(['one-byte', 'random', 'random', 'changing', 'changing', 'bursts', 'bursts', 'regular'])
    size = rnd.choice(READER_SIZES)
    big = [c for c in READER_CAPS if c >= BLOCK]
    small = [c for c in READER_CAPS if c < BLOCK]
    if pat == 'one-byte':
        size = rnd.choice([1, 2, 5, 40, 100, 300])
        caps, tail = [], 1
    elif pat == 'random':
        caps, tail = [rnd.choice(READER_CAPS) for _ in range(rnd.randint(1, 10))], rnd.choice(READER_CAPS)
    elif pat == 'changing':
        size = rnd.choice([s_ for s_ in READER_SIZES if s_ >= 8191] + [40000])
        a, b = (big, small) if rnd.random() < 0.5 else (small, big)
        caps = [rnd.choice(a) for _ in range(rnd.randint(1, 3))] + [rnd.choice(b) for _ in range(rnd.randint(1, 3))]
        if rnd.random() < 0.5:
            caps += [rnd.choice(a) for _ in range(rnd.randint(1, 2))]
        tail = rnd.choice(READER_CAPS)
    elif pat == 'bursts':
        near = [BLOCK - 2, BLOCK - 1, BLOCK, BLOCK + 1, BLOCK + 2, BLOCK // 2, BLOCK // 2 + 1, 1]
        caps, tail = [rnd.choice(near) for _ in range(rnd.randint(1, 6))], rnd.choice(near[:5])
    else:
        caps, tail = [], rnd.choice(big)
    r = {'pattern': pat, 'size': size, 'caps': caps, 'tail': tail}
    if len(reader_handouts(r)) > 320:      # keep the number of read() calls per response moderate
        r['tail'] = max(r['tail'], 100)
    return r


def stream_items(p, asgi):
    """What the plan's stream object hands out call by call on that stack (NONE = it hands out None)."""
    st = p['stream']
    if st.get('reader'):
        return reader_handouts(st['reader'])
    items = list(st['chunks'])
    if asgi and st.get('none_at') is not None:
        items.insert(st['none_at'], NONE)
    return items


def hist_hdr_first(p):
    """In a history plan the header assignments come before the body assignments / render_body() calls or after them.
    An explicit Content-Type for which no media handler exists always comes first (what render_body() does with media
    whose type is changed to an unsupported one *after* it was rendered is not something the statement speaks about)."""
    return bool(p.get('hist_hdr_first')) or p['ct'] not in (None,) + SUPPORTED_MEDIA_TYPES


def header_assignments(p):
    """The header dict assignments (lower-case name, value) the header block of fill() amounts to, in order - by the
    documentation of set_header / append_header / content_length / content_type."""
    out = []
    if p.get('framing_first'):
        out += framing_assignments(p)
    if p['xa'] is not None:
        out.append(('x-a', p['xa']))
    if p['xappend']:
        out += [('x-b', 'one'), ('x-b', 'one, two')]
    if p['cl'] is not None:
        out.append(('content-length', str(p['cl'])))
    if p['ct'] is not None:
        out.append(('content-type', p['ct']))
    if not p.get('framing_first'):
        out += framing_assignments(p)
    return out


def hist_render_flags(p):
    """For every render_body() call of the history: would serialising the media assigned at that moment raise (no
    handler for the response's type - the explicit one if already assigned, else the default one -, or a value the
    JSON handler cannot serialise)?  Decided from the documentation, not from falcon."""
    typ = (p['ct'] if hist_hdr_first(p) else None) or p['dflt']
    media, flags = None, []
    for op in p['hist']:
        if op[0] == 'media':
            media = op[1]
        elif op[0] == 'render':
            flags.append(typ not in SUPPORTED_MEDIA_TYPES or media == 'unserialisable')
    return flags


def hist_typed_by_render(p):
    """Some render_body() call of the history rendered media (text and data unset at that moment) while the response
    had no explicit Content-Type: render_body() then stores the default type on the response (root of F16)."""
    if not p.get('hist') or (hist_hdr_first(p) and p['ct'] is not None):
        return False
    cur = {'text': None, 'data': None, 'media': None}
    for op in p['hist']:
        if op[0] == 'render':
            if cur['text'] is None and cur['data'] is None and cur['media'] is not None:
                return True
        else:
            cur[op[0]] = op[1]
    return False


def effective_source(p):
    for k in ('text', 'data', 'media', 'stream'):
        if p[k] is not None:
            return k
    return None


def media_value(kind):
    return object() if kind == 'unserialisable' else MEDIA[kind]


def media_bytes(kind):
    """What falcon's stock JSON handler is documented to produce (json.dumps(..., ensure_ascii=False), UTF-8)."""
    return json.dumps(MEDIA[kind], ensure_ascii=False).encode()


def render_fails(p):
    """Rendering the body raises: media is what gets rendered and no handler exists for the type / it cannot be serialised."""
    if effective_source(p) != 'media':
        return False
    return (p['ct'] or p['dflt']) not in SUPPORTED_MEDIA_TYPES or p['media'] == 'unserialisable'


def declared_content_length(p):
    """The Content-Length the APPLICATION declared for the response (None: it declared none), by the documented meaning of
    resp.content_length and resp.set_stream(stream, content_length): whichever was assigned last in fill()."""
    cl = None if p['cl'] is None else str(p['cl'])
    st = p['stream']
    ds = None if st is None or st.get('declared') is None else str(st['declared'])
    hdr_first = p.get('hist') is not None and hist_hdr_first(p)
    return (ds if ds is not None else cl) if hdr_first else (cl if cl is not None else ds)


def in_model(p):
    """Fz (Finalize.lean) models the tails of the two __call__s for a responder that returned normally."""
    return (p['raise'] is None and p['sse'] is None and p['resp_class'] != 'render' and not p['extra_set_cookie']
            and not render_fails(p) and p['media'] != 'unserialisable')


def sse_events(specs):
    from falcon.asgi import SSEvent
    out = []
    for s in specs:
        if s == 'text':
            out.append(SSEvent(text='hi thére'))
        elif s == 'json':
            out.append(SSEvent(json={'a': 1}))
        elif s == 'none':
            out.append(None)
        elif s == 'full':
            out.append(SSEvent(text='t', event='ev', event_id='7', retry=5, comment='c'))
        elif s == 'data':
            out.append(SSEvent(data=b'raw'))
        elif isinstance(s, dict):
            # a generated event (C05): the SSEvent keyword arguments; 'json' is a key of SSE_JSONS
            kw = {k: v for k, v in s.items() if v is not None}
            if 'json' in kw:
                kw['json'] = sse_json_value(kw['json'])
            out.append(SSEvent(**kw))
        else:
            out.append(SSEvent(comment='only'))
    return out


SSE_JSONS = {'obj': {'a': 1}, 'list': [], 'str': 'é', 'zero': 0, 'nested': {'k': [1, {'x': None}]}}
SSE_HOOK = None  # C05: `async def hook(i)` awaited by the emitter before it yields event i (and once after the last)


def sse_json_value(key):
    return object() if key == 'unserialisable' else SSE_JSONS[key]


def sse_expected(specs):
    """The event-stream serialisation per the HTML living standard (server-sent events) / falcon's SSEvent docs."""
    out = []
    for s in specs:
        out.append({'text': 'data: hi thére\n\n'.encode(), 'json': b'data: {"a": 1}\n\n', 'none': b': ping\n\n',
                    'full': b': c\nevent: ev\nid: 7\nretry: 5\ndata: t\n\n', 'data': b'data: raw\n\n',
                    'comment': b': only\n\n'}[s])
    return out


def status_value(p):
    return http.HTTPStatus(p['status']) if p['status_form'] == 'enum' else p['status']


def fill(resp, p, asgi, snapshot=None):
    """Apply the plan inside a responder.  Returns the stream Probe (or None)."""
    import falcon
    if p['raise'] and not p['raise_after_fill']:
        _raise(p)
    if p['status_form'] == 'code-prop':
        resp.status_code = p['status']
    else:
        resp.status = status_value(p)
    hist = p.get('hist')
    if hist is not None and hist_hdr_first(p):
        _fill_headers(resp, p)
    if hist is None:
        if p['text'] is not None:
            resp.text = p['text']
        if p['data'] is not None:
            resp.data = p['data']
        if p['media'] is not None:
            resp.media = media_value(p['media'])
    else:
        renders = []
        for op in hist:
            if op[0] == 'text':
                resp.text = op[1]
            elif op[0] == 'data':
                resp.data = op[1]
            elif op[0] == 'media':
                resp.media = None if op[1] is None else media_value(op[1])
            else:
                # a hook / middleware component looking at the outgoing bytes; it survives a representation that
                # cannot be rendered (yet)
                try:
                    renders.append(_await_now(resp.render_body()) if asgi else resp.render_body())
                except Exception:  # noqa
                    renders.append('raises')
        if snapshot is not None:
            snapshot['renders'] = renders
    probe = None
    if p['stream'] is not None:
        st = p['stream']
        probe = Probe(stream_items(p, asgi), st['fail'], st.get('reader'), st.get('fail_class'), st.get('close_class'),
                      st.get('cancel_at') if asgi else None)
        kind = st['kind']
        stream = make_stream(ASYNC_OF[kind] if asgi else kind, probe, st.get('truth'), st.get('shape'), bool(st.get('also_iter')), st.get('life'))
        probe.obj = stream
        if st.get('declared') is not None:
            resp.set_stream(stream, st['declared'])
        else:
            resp.stream = stream
    if p['sse'] is not None and asgi:
        evs = sse_events(p['sse'])

        hook = SSE_HOOK

        async def emitter():
            for i, e in enumerate(evs):
                if hook is not None:
                    await hook(i)
                yield e
            if hook is not None:
                await hook(len(evs))
        resp.sse = emitter()
    if hist is None or not hist_hdr_first(p):
        _fill_headers(resp, p)
    if snapshot is not None:
        # the response state the Lean model starts from
        snapshot['hdr'] = list(resp._headers.items())
        snapshot['cookies'] = [norm_cookie(c.OutputString()) for c in resp._cookies.values()] if resp._cookies else []
    if p['raise'] and p['raise_after_fill']:
        _raise(p)
    return probe


def _set_by(resp, how, name, value):
    if how == 'append':
        resp.append_header(name, value)
    elif how == 'dict':
        resp.set_headers({name: value})
    elif how == 'pairs':
        resp.set_headers([(name, value)])
    else:
        resp.set_header(name, value)


def _fill_framing(resp, p):
    for how, name, value in p.get('framing') or []:
        _set_by(resp, how, name, value)


def _fill_headers(resp, p):
    if p.get('framing_first'):
        _fill_framing(resp, p)
    if p['xa'] is not None:
        resp.set_header('X-A', p['xa'])
    if p['xappend']:
        resp.append_header('X-B', 'one')
        resp.append_header('X-B', 'two')
    if p['cl'] is not None:
        if p.get('cl_how', 'property') == 'property':
            resp.content_length = p['cl']
        else:
            _set_by(resp, p['cl_how'], 'Content-Length', str(p['cl']))
    if p['ct'] is not None:
        resp.content_type = p['ct']
    if p['extra_set_cookie']:
        resp.append_header('Set-Cookie', 'x=y')
    if p['cookie']:
        resp.set_cookie('a', 'b')
    if p['unset_cookie']:
        resp.unset_cookie('z')
    if not p.get('framing_first'):
        _fill_framing(resp, p)


def _await_now(coro):
    """Run a coroutine that never suspends (falcon.asgi.Response.render_body with the handlers used here) to its end."""
    try:
        coro.send(None)
    except StopIteration as e:
        return e.value
    coro.close()
    raise RuntimeError('render_body() suspended')


def _raise(p):
    import falcon
    k = p['raise']
    if k == 'notfound':
        raise falcon.HTTPNotFound(description='nope')
    # the framing / connection headers of the plan also travel on the raised HTTPError / HTTPStatus (their `headers` argument)
    extra = dict(framing_assignments(p))
    if k == 'httperror':
        raise falcon.HTTPError(falcon.HTTP_409, title='T', description='D', headers=dict({'X-Err': '1'}, **extra))
    if k == 'redirect':
        raise falcon.HTTPMovedPermanently('/elsewhere')
    if k == 'status':
        raise falcon.HTTPStatus(falcon.HTTP_204, headers=dict({'X-St': '1'}, **extra))
    if k == 'status_body':
        raise falcon.HTTPStatus(falcon.HTTP_202, text=STATUS_BODY_TEXT, headers=dict({'X-St': '1'}, **extra))
    raise RuntimeError('boom')


# ---------------------------------------------------------------- line protocol of fzdriver (FzMain.lean)

def hx(b):
    return bytes(b).hex() if b else '-'


def hs(s):
    return hx(s.encode('latin-1'))


def fz_line(p, snapshot, asgi_items=False):
    """asgi_items: the stream field lists what the stream hands out on ASGI, `N` = None (fztdriver only)."""
    B = lambda b: 'none' if b is None else hx(b)  # noqa: E731
    st = p['stream']
    if st is None:
        stream = '-'
    elif st.get('reader'):
        # the reader by its contract (content = reader_data(size) = Fr.content size): the driver derives what the
        # read(8192) calls return (Fr.handouts) and feeds that to the Fz model
        rd = st['reader']
        stream = f"r:{rd['size']}:{'.'.join(str(c) for c in rd['caps']) or '-'}:{rd['tail']}"
    else:
        items = stream_items(p, asgi_items)
        stream = ('f' if st['kind'].startswith('file') else 'i') + ':' + (','.join('N' if c is NONE else hx(c) for c in items) or '.')
    fail = '-' if st is None or st['fail'] is None else st['fail']
    text = None if p['text'] is None else p['text'].encode()
    media = None if p['media'] is None else media_bytes(p['media'])
    return (f"case status={p['code']} head={1 if p['method'] == 'HEAD' else 0} text={B(text)} data={B(p['data'])} "
            f"media={B(media)} stream={stream} fail={fail} "
            f"hdr={';'.join(hs(k) + ':' + hs(v) for k, v in snapshot['hdr']) or '.'} "
            f"cookies={';'.join(hs(c) for c in snapshot['cookies']) or '.'} dflt={hs(p['dflt'])} fw={1 if p['fw'] else 0}")


def fz_show(status, headers, chunks, err):
    headers = [(k, norm_cookie(v) if k.lower() == 'set-cookie' else v) for k, v in headers]
    return f"{status}|{';'.join(hs(k) + ':' + hs(v) for k, v in headers)}|{','.join(hx(c) for c in chunks)}|{1 if err else 0}"


def fzt_line(p, snapshot, send_fail_at, probe=None):
    """Line for fztdriver (FzTMain.lean): the fzdriver line + whether the stream object has close() + the failing send index."""
    has_close = has_close_end(p, probe)   # ASGI looks close up when streaming has ended
    return fz_line(p, snapshot, asgi_items=True) + f" close={1 if has_close else 0} xf={'-' if send_fail_at is None else send_fail_at}"


def hist_line(p, snapshot):
    """Line for fz2driver's `hist` command (Fh.run + Fh.wsgiH / Fh.asgiH): the response as the responder finds it, the
    operations of the history in order (T/D/M = assignment of text / data / media: hex, `none`, for media the serialised
    value; R:<0|1> = render_body() call + whether serialising the media assigned at that moment raises; H:k:v = header
    dict assignment) and the stream assigned afterwards."""
    B = lambda b: 'none' if b is None else hx(b)  # noqa: E731
    hdr_ops = ['H:' + hs(k) + ':' + hs(v) for k, v in header_assignments(p)]
    flags = hist_render_flags(p)
    ops = []
    for op in p['hist']:
        if op[0] == 'text':
            ops.append('T:' + B(None if op[1] is None else op[1].encode()))
        elif op[0] == 'data':
            ops.append('D:' + B(op[1]))
        elif op[0] == 'media':
            ops.append('M:' + B(None if op[1] is None else b'' if op[1] == 'unserialisable' else media_bytes(op[1])))
        else:
            ops.append('R:%d' % flags.pop(0))
    st = p['stream']
    # resp.set_stream(stream, n) assigns Content-Length, too: after the history, before a late header block
    decl = ['H:' + hs('content-length') + ':' + hs(str(st['declared']))] if st is not None and st.get('declared') is not None else []
    ops = hdr_ops + ops + decl if hist_hdr_first(p) else ops + decl + hdr_ops
    stream = '-' if st is None else ('f' if st['kind'].startswith('file') else 'i') + ':' + (','.join(hx(c) for c in st['chunks']) or '.')
    fail = '-' if st is None or st['fail'] is None else st['fail']
    return (f"hist status={p['code']} head={1 if p['method'] == 'HEAD' else 0} stream={stream} fail={fail} "
            f"cookies={';'.join(hs(c) for c in snapshot['cookies']) or '.'} dflt={hs(p['dflt'])} fw={1 if p['fw'] else 0} "
            f"ops={';'.join(ops) or '.'}")


def show_renders(renders):
    return ','.join('raises' if r == 'raises' else 'none' if r is None else hx(r) for r in renders) or '.'


def fzt_show(sent, closes, raised):
    evs = []
    for m in sent:
        if m['type'] == 'http.response.start':
            hl = [(bytes(k).decode('latin-1'), bytes(v).decode('latin-1')) for k, v in m['headers']]
            hl = [(k, norm_cookie(v) if k == 'set-cookie' else v) for k, v in hl]
            evs.append(f"S:{m['status']}:{';'.join(hs(k) + ':' + hs(v) for k, v in hl)}")
        else:
            body = m.get('body', b'')
            evs.append(f"B:{hx(body) if isinstance(body, (bytes, bytearray)) else type(body).__name__}:{'t' if m.get('more_body', False) else 'f'}")
    return f"{','.join(evs)}|{closes}|{1 if raised else 0}"

"""Deterministic thread scheduler used by C19 (and usable by other properties).

Exactly one worker thread runs at any time.  A worker calls ``sched.point(me, tag)`` at every traced event (from a
``sys.settrace`` tracer or explicitly); the scheduler counts events globally and, at the event numbers listed in
``switches`` (``{event_number: k}``), hands the baton to the k-th next runnable thread (round robin).  A thread that
finishes or blocks on a :class:`SLock` hands the baton on as well.  The realised schedule is therefore a deterministic
function of ``switches``.

``sched.emit(me, step)`` appends to ``sched.steps`` - the sequence of (thread, step-name) pairs that the C19 model
replays.  A tag passed to ``point`` is *pending* until the thread reaches its next event (= the tagged instruction/line has
been executed); then it is emitted (and ``sched.on_step(me, tag)`` is called, still before any other thread runs).

Worker threads are persistent (:class:`Pool`): creating a thread costs ~5 ms in this sandbox, a baton hand-over ~10 us.
"""
import sys
import threading


class Deadlock(Exception):
    pass


class Sched:
    def __init__(self, n, switches=None, wait_s=90.0, timeouts=()):
        self.n = n
        self.sw = dict(switches or {})
        # the OTHER input of a schedule: which conditional acquires lose.  ``lock.acquire(timeout=t)`` on a lock another thread holds has
        # two outcomes - the holder releases first (True) or the timeout fires first (False: the holder is parked longer than t, which in
        # logical time is always possible).  Such contested timed acquires are numbered 1, 2, ... in execution order (``tacq``); the ones
        # whose number is in ``timeouts`` return False, the others wait like a blocking acquire.
        self.to = frozenset(timeouts)
        self.tacq = 0
        self.cond_log = []       # (ordinal or 0, thread, form, outcome) of every conditional acquire that found the lock taken
        self.lock_forms = {}     # how the code under test took its locks: form -> count
        self.go = [threading.Lock() for _ in range(n)]
        for g in self.go:
            g.acquire()
        self.cur = None
        self.ev = 0
        self.done = [False] * n
        self.blocked = [False] * n
        self.pending = [None] * n
        self.steps = []          # (thread, step) in execution order
        self.dead = False
        self.wait_s = wait_s
        self.preemptions = 0
        self.on_step = None
        self.acq_log = []        # (thread, SLock) in acquisition order

    # -- baton
    def _runnable_after(self, me):
        return [(me + d) % self.n for d in range(1, self.n + 1)
                if not self.done[(me + d) % self.n] and not self.blocked[(me + d) % self.n]]

    def _pass(self, j):
        self.cur = j
        self.go[j].release()

    def _kill(self):
        self.dead = True
        for g in self.go:
            try:
                g.release()
            except RuntimeError:
                pass

    def _wait(self, me):
        if not self.go[me].acquire(True, self.wait_s):
            self._kill()
            raise Deadlock()
        if self.dead:
            raise Deadlock()

    def kick(self):
        self._pass(0)

    def start(self, me):
        self._wait(me)

    def _flush(self, me):
        t = self.pending[me]
        if t is not None:
            self.pending[me] = None
            self.steps.append((me, t))
            if self.on_step is not None:
                self.on_step(me, t)

    def emit(self, me, step):
        self._flush(me)
        self.steps.append((me, step))

    def point(self, me, tag=None):
        """A scheduling point of the running thread `me`; `tag` names the step that starts here."""
        self._flush(me)
        self.pending[me] = tag
        self.ev += 1
        k = self.sw.get(self.ev)
        if k:
            r = [j for j in self._runnable_after(me) if j != me]
            if r:
                self.preemptions += 1
                self._pass(r[(k - 1) % len(r)])
                self._wait(me)

    def finish(self, me):
        self._flush(me)
        self.done[me] = True
        if self.dead:
            return
        r = self._runnable_after(me)
        if r:
            self._pass(r[0])
        elif not all(self.done):
            self._kill()            # everybody else is blocked

    def block(self, me):
        """`me` cannot proceed (lock held by somebody else): give the turn away and wait to be rescheduled."""
        self.blocked[me] = True
        r = self._runnable_after(me)
        if not r:
            self._kill()
            raise Deadlock()
        self._pass(r[0])
        self._wait(me)

    def unblock_all(self):
        self.blocked = [False] * self.n

    def form(self, name):
        self.lock_forms[name] = self.lock_forms.get(name, 0) + 1

    def contested(self, me):
        """thread `me` waits with a timeout for a lock somebody else holds: does the timeout fire first?"""
        self.tacq += 1
        fires = self.tacq in self.to
        self.cond_log.append((self.tacq, me, 'timeout', 'timed-out' if fires else 'waits'))
        return fires


class SLock:
    """Scheduler-aware stand-in for threading.Lock / RLock (context-manager protocol and acquire/release): a thread that finds it
    taken yields its turn instead of blocking the only running thread."""

    def __init__(self, sched, me_of, name='lock', reentrant=False):
        self.s, self.me_of, self.owner, self.name = sched, me_of, None, name
        self.reentrant, self.depth = reentrant, 0

    def __enter__(self, _form='with'):
        me = self.me_of()
        self.s.form(_form)
        if self.reentrant and self.owner == me:
            self.depth += 1
            return self
        while self.owner is not None:
            self.s.emit(me, 'blocked')
            self.s.block(me)
        return self._take(me)

    def _take(self, me):
        self.owner = me
        self.depth = 1
        self.s.emit(me, 'acquire')
        self.s.acq_log.append((me, self))
        return self

    def __exit__(self, *a):
        me = self.me_of()
        if self.reentrant and self.depth > 1:
            self.depth -= 1
            return False
        self.owner = None
        self.depth = 0
        self.s.unblock_all()
        self.s.emit(me, 'release')
        return False

    def acquire(self, blocking=True, timeout=-1):
        """threading.Lock.acquire: blocking (the `with` statement), non-blocking (False at once when the lock is taken) and timed: a timed
        acquire that finds the lock taken by another thread is a CHOICE of the schedule (Sched.contested) - wait for the holder like a
        blocking acquire and return True, or return False without the lock (the time-out fired first)."""
        if timeout is None:
            raise TypeError("'NoneType' object cannot be interpreted as a timeout")
        if not blocking and timeout != -1:
            raise ValueError("can't specify a timeout for a non-blocking call")
        if blocking and timeout != -1 and timeout < 0:
            raise ValueError('timeout value must be a non-negative number')
        if blocking and timeout == -1:
            self.__enter__('acquire()')
            return True
        me = self.me_of()
        s = self.s
        s.form('acquire(blocking=False)' if not blocking else 'acquire(timeout)')
        if self.reentrant and self.owner == me:
            self.depth += 1
            return True
        while self.owner is not None:
            if not blocking or timeout == 0 or self.owner == me:
                # no waiting (or waiting for oneself): the outcome is fixed by where the preemptions fall
                s.cond_log.append((0, me, 'nonblocking' if not blocking else 'timeout', 'refused'))
                s.emit(me, 'refused')
                return False
            if s.contested(me):
                s.emit(me, 'timeout')
                return False
            s.emit(me, 'blocked')
            s.block(me)
        self._take(me)
        return True

    def release(self):
        if self.owner is None:
            raise RuntimeError('release unlocked lock')
        self.__exit__(None, None, None)

    def locked(self):
        return self.owner is not None


class TimedIgnoredSLock(SLock):
    """The mutant for the self-test of the time-out dimension (and the shape of Ll.timed_ignored_witness): code that takes the lock with
        acquired = lock.acquire(timeout=t); try: <critical section> finally: if acquired: lock.release()
    i.e. a timed acquire whose result decides only whether to release.  Put in place of the router's lock(s): `with lock:` then means that."""

    def __init__(self, *a, **kw):
        SLock.__init__(self, *a, **kw)
        self.got = {}

    def __enter__(self, _form='with'):
        self.got[self.me_of()] = SLock.acquire(self, timeout=0.25)
        return self

    def __exit__(self, *a):
        if self.got.pop(self.me_of(), False):
            SLock.__exit__(self, *a)
        return False

    def acquire(self, blocking=True, timeout=-1):
        self.__enter__()
        return True

    def release(self):
        self.__exit__(None, None, None)


class NoLock:
    """The mutant: a lock that does not lock."""

    def __init__(self, sched, me_of, name='nolock', reentrant=False):
        self.s, self.me_of, self.name = sched, me_of, name

    def __enter__(self):
        self.s.emit(self.me_of(), 'acquire')
        return self

    def __exit__(self, *a):
        self.s.emit(self.me_of(), 'release')
        return False

    def acquire(self, blocking=True, timeout=-1):
        self.__enter__()
        return True

    def release(self):
        self.__exit__(None, None, None)

    def locked(self):
        return False


class LazySLock:
    """The mutant for the self-test of the exploration and for the tie of the model `Ll`: a lock that is created ON FIRST USE, by an
    unsynchronised check-then-set with a scheduling point between every two actions:
        lock = cell; if lock is None: lock = Lock(); cell = lock;  acquire(lock)"""

    def __init__(self, patch, reentrant=False):
        self.patch, self.cell, self.mine = patch, None, {}

    def __enter__(self):
        p = self.patch
        s, me = p.sched, p.me_of()
        p.lazy_point(me)
        s.point(me, 'L.read')
        lk = self.cell
        if lk is None:
            p.lazy_point(me)
            s.point(me, 'L.create')
            lk = SLock(s, p.me_of, name='lazy%d' % len(p.lazy_created))
            p.lazy_created.append(lk)
            p.lazy_point(me)
            s.point(me, 'L.store')
            self.cell = lk
        p.lazy_point(me)
        s.point(me, None)
        self.mine[me] = lk
        lk.__enter__()
        return self

    def __exit__(self, *a):
        return self.mine.pop(self.patch.me_of()).__exit__(*a)

    def acquire(self, blocking=True, timeout=-1):
        self.__enter__()
        return True

    def release(self):
        self.__exit__(None, None, None)


_REAL_LOCK = threading.Lock
_REAL_RLOCK = threading.RLock
_LOCK_TYPES = (type(_REAL_LOCK()), type(_REAL_RLOCK()))


class LockPatch:
    """Makes the locks of the code under test scheduler-aware WITHOUT knowing how that code names or stores them.

    While active (``activate(sched, me_of)`` ... ``deactivate()``):
      * every ``threading.Lock()`` / ``threading.RLock()`` executed by code whose file satisfies ``is_target`` - through the
        ``threading`` module or through a module-level name bound to it (``from threading import Lock``) - returns an
        :class:`SLock` of the current scheduler (``mode='nolock'``: a :class:`NoLock`); ``created`` lists them in creation order;
      * lock objects that already exist - in the globals of the target modules, or (``adopt(obj)``) in the instance/class
        attributes of an object of the code under test and of the falcon objects it refers to - are replaced by SLocks and put back
        on ``deactivate()``.
    A lock reached in another way (closure cell, C extension) stays a real lock: if a preempted thread holds it the scheduler
    reports a deadlock after its time-out instead of crashing."""

    def __init__(self, modules, is_target):
        self.modules, self.is_target = list(modules), is_target
        self.sched = self.me_of = None
        self.mode = 'lock'
        self.created = []
        self.lazy_created = []       # mode 'lazy': the locks the LazySLock proxies created, in creation order
        self.on_point = None         # mode 'lazy': called before each scheduling point inside a proxy (recording runs)
        self.adopted = 0
        self._undo = []

    def lazy_point(self, me):
        if self.on_point is not None:
            self.on_point(me)

    def _make(self, real, reentrant):
        def make(*a, **kw):
            if self.sched is not None:
                try:
                    fn = sys._getframe(1).f_code.co_filename
                except ValueError:
                    fn = ''
                if self.is_target(fn):
                    return self._new(reentrant)
            return real(*a, **kw)
        make.__name__ = 'RLock' if reentrant else 'Lock'
        return make

    def _new(self, reentrant=False):
        if self.mode == 'lazy':
            lk = LazySLock(self)
            self.created.append(lk)
            return lk
        cls = {'lock': SLock, 'timedignored': TimedIgnoredSLock}.get(self.mode, NoLock)
        lk = cls(self.sched, self.me_of, name='lock%d' % len(self.created), reentrant=reentrant)
        self.created.append(lk)
        return lk

    def _set(self, holder, name, value, is_dict=False):
        try:
            old = holder[name] if is_dict else getattr(holder, name)
            if is_dict:
                holder[name] = value
            else:
                setattr(holder, name, value)
            self._undo.append((holder, name, old, is_dict))
            return True
        except Exception:  # noqa  (read-only attribute: leave it)
            return False

    def activate(self, sched, me_of, mode='lock'):
        self.sched, self.me_of, self.mode = sched, me_of, mode
        self.created, self.lazy_created, self.adopted, self._undo = [], [], 0, []
        mk_lock, mk_rlock = self._make(_REAL_LOCK, False), self._make(_REAL_RLOCK, True)
        self._set(threading, 'Lock', mk_lock)
        self._set(threading, 'RLock', mk_rlock)
        for m in self.modules:
            for name, val in list(vars(m).items()):
                if val is _REAL_LOCK:
                    self._set(vars(m), name, mk_lock, True)
                elif val is _REAL_RLOCK:
                    self._set(vars(m), name, mk_rlock, True)
                elif isinstance(val, _LOCK_TYPES):
                    if self._set(vars(m), name, self._new(type(val) is _LOCK_TYPES[1]), True):
                        self.adopted += 1

    def adopt(self, obj, depth=2, _seen=None):
        """replace the real lock objects stored on `obj` (instance attributes, slots, class attributes) and on the falcon objects it
        refers to"""
        if _seen is None:
            _seen = set()
        if id(obj) in _seen or depth < 0:
            return
        _seen.add(id(obj))
        names = []
        d = getattr(obj, '__dict__', None)
        if isinstance(d, dict):
            names += list(d)
        for c in type(obj).__mro__:
            sl = c.__dict__.get('__slots__', ())
            names += [sl] if isinstance(sl, str) else list(sl)
            for name, val in list(c.__dict__.items()):
                if isinstance(val, _LOCK_TYPES) and self._set(c, name, self._new(type(val) is _LOCK_TYPES[1])):
                    self.adopted += 1
        for name in names:
            if name in ('__dict__', '__weakref__'):
                continue
            try:
                val = object.__getattribute__(obj, name)
            except Exception:  # noqa  (unset slot)
                continue
            if isinstance(val, _LOCK_TYPES):
                if self._set(obj, name, self._new(type(val) is _LOCK_TYPES[1])):
                    self.adopted += 1
            elif (type(val).__module__ or '').split('.')[0] == 'falcon':
                self.adopt(val, depth - 1, _seen)

    def deactivate(self):
        for holder, name, old, is_dict in reversed(self._undo):
            try:
                if is_dict:
                    holder[name] = old
                else:
                    setattr(holder, name, old)
            except Exception:  # noqa
                pass
        self._undo = []
        self.sched = self.me_of = self.on_point = None


class Pool:
    """n persistent worker threads executing one job each per round."""

    def __init__(self, n):
        self.n = n
        self.jobs = [None] * n
        self.results = [None] * n
        self.jl = [threading.Lock() for _ in range(n)]
        for l in self.jl:
            l.acquire()
        self.fin = threading.Semaphore(0)
        self.broken = False
        self.threads = [threading.Thread(target=self._work, args=(i,), daemon=True) for i in range(n)]
        for t in self.threads:
            t.start()

    def _work(self, i):
        while True:
            self.jl[i].acquire()
            job = self.jobs[i]
            if job is None:
                return
            sched, body, tr = job
            try:
                sched.start(i)
            except Deadlock:
                self.results[i] = ('deadlock',)
                self.fin.release()
                continue
            if tr is not None:
                sys.settrace(tr)
            try:
                self.results[i] = ('ok', body())
            except Deadlock:
                self.results[i] = ('deadlock',)
            except BaseException as e:  # noqa
                self.results[i] = ('exc', type(e).__name__, str(e)[:120])
            finally:
                if tr is not None:
                    sys.settrace(None)
                sched.finish(i)
                self.fin.release()

    def run(self, sched, bodies, tracer_for=None, join_s=240.0):
        assert len(bodies) == self.n and not self.broken
        for i in range(self.n):
            self.results[i] = None
            self.jobs[i] = (sched, bodies[i], tracer_for(i) if tracer_for else None)
            self.jl[i].release()
        sched.kick()
        for _ in range(self.n):
            if not self.fin.acquire(True, join_s):
                sched._kill()
                self.broken = True       # a worker is stuck outside the scheduler: abandon this pool
                return [r if r is not None else ('deadlock',) for r in self.results]
        return list(self.results)

    def close(self):
        if not self.broken:
            for i in range(self.n):
                self.jobs[i] = None
                self.jl[i].release()


_pools = {}


def run_threads(sched, bodies, tracer_for=None):
    """Run `bodies[i]()` in worker i under `sched`; returns the list of ('ok', value) / ('exc', type name, text) /
    ('deadlock',).  `tracer_for(i)` optionally gives the sys.settrace function of worker i."""
    n = len(bodies)
    p = _pools.get(n)
    if p is None or p.broken:
        p = _pools[n] = Pool(n)
    return p.run(sched, bodies, tracer_for)

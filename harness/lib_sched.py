"""Deterministic thread scheduler used by C19 (and usable by other properties).

Exactly one worker thread runs at any time.  A worker calls ``sched.point(me, tag)`` at every traced event (from a
``sys.settrace`` tracer or explicitly); the scheduler counts events globally and, at the event numbers listed in
``switches`` (``{event_number: k}``), hands the baton to the k-th next runnable thread (round robin).  A thread that
finishes or blocks on a :class:`SLock` hands the baton on as well.  The realised schedule is therefore a deterministic
function of ``switches``.

``sched.emit(me, step)`` appends to ``sched.steps`` - the sequence of (thread, step-name) pairs that the C19 model
replays.  A tag passed to ``point`` is *pending* until the thread reaches its next event (= the tagged instruction/line has
been executed); then it is emitted (and ``sched.on_step(me, tag)`` is called, still before any other thread runs).

Worker threads are persistent (:class:`Pool`): creating a thread costs ~5 ms in this sandbox, a baton hand-over ~10 us.
"""
import sys
import threading


class Deadlock(Exception):
    pass


class Sched:
    def __init__(self, n, switches=None, wait_s=90.0):
        self.n = n
        self.sw = dict(switches or {})
        self.go = [threading.Lock() for _ in range(n)]
        for g in self.go:
            g.acquire()
        self.cur = None
        self.ev = 0
        self.done = [False] * n
        self.blocked = [False] * n
        self.pending = [None] * n
        self.steps = []          # (thread, step) in execution order
        self.dead = False
        self.wait_s = wait_s
        self.preemptions = 0
        self.on_step = None

    # -- baton
    def _runnable_after(self, me):
        return [(me + d) % self.n for d in range(1, self.n + 1)
                if not self.done[(me + d) % self.n] and not self.blocked[(me + d) % self.n]]

    def _pass(self, j):
        self.cur = j
        self.go[j].release()

    def _kill(self):
        self.dead = True
        for g in self.go:
            try:
                g.release()
            except RuntimeError:
                pass

    def _wait(self, me):
        if not self.go[me].acquire(True, self.wait_s):
            self._kill()
            raise Deadlock()
        if self.dead:
            raise Deadlock()

    def kick(self):
        self._pass(0)

    def start(self, me):
        self._wait(me)

    def _flush(self, me):
        t = self.pending[me]
        if t is not None:
            self.pending[me] = None
            self.steps.append((me, t))
            if self.on_step is not None:
                self.on_step(me, t)

    def emit(self, me, step):
        self._flush(me)
        self.steps.append((me, step))

    def point(self, me, tag=None):
        """A scheduling point of the running thread `me`; `tag` names the step that starts here."""
        self._flush(me)
        self.pending[me] = tag
        self.ev += 1
        k = self.sw.get(self.ev)
        if k:
            r = [j for j in self._runnable_after(me) if j != me]
            if r:
                self.preemptions += 1
                self._pass(r[(k - 1) % len(r)])
                self._wait(me)

    def finish(self, me):
        self._flush(me)
        self.done[me] = True
        if self.dead:
            return
        r = self._runnable_after(me)
        if r:
            self._pass(r[0])
        elif not all(self.done):
            self._kill()            # everybody else is blocked

    def block(self, me):
        """`me` cannot proceed (lock held by somebody else): give the turn away and wait to be rescheduled."""
        self.blocked[me] = True
        r = self._runnable_after(me)
        if not r:
            self._kill()
            raise Deadlock()
        self._pass(r[0])
        self._wait(me)

    def unblock_all(self):
        self.blocked = [False] * self.n


class SLock:
    """Scheduler-aware stand-in for threading.Lock (context-manager protocol): a thread that finds it taken yields its
    turn instead of blocking the only running thread."""

    def __init__(self, sched, me_of, name='lock'):
        self.s, self.me_of, self.owner, self.name = sched, me_of, None, name

    def __enter__(self):
        me = self.me_of()
        while self.owner is not None:
            self.s.emit(me, 'blocked')
            self.s.block(me)
        self.owner = me
        self.s.emit(me, 'acquire')
        return self

    def __exit__(self, *a):
        me = self.me_of()
        self.owner = None
        self.s.unblock_all()
        self.s.emit(me, 'release')
        return False

    def acquire(self, blocking=True, timeout=-1):
        self.__enter__()
        return True

    def release(self):
        self.__exit__(None, None, None)


class NoLock:
    """The mutant: a lock that does not lock."""

    def __init__(self, sched, me_of):
        self.s, self.me_of = sched, me_of

    def __enter__(self):
        self.s.emit(self.me_of(), 'acquire')
        return self

    def __exit__(self, *a):
        self.s.emit(self.me_of(), 'release')
        return False


class Pool:
    """n persistent worker threads executing one job each per round."""

    def __init__(self, n):
        self.n = n
        self.jobs = [None] * n
        self.results = [None] * n
        self.jl = [threading.Lock() for _ in range(n)]
        for l in self.jl:
            l.acquire()
        self.fin = threading.Semaphore(0)
        self.broken = False
        self.threads = [threading.Thread(target=self._work, args=(i,), daemon=True) for i in range(n)]
        for t in self.threads:
            t.start()

    def _work(self, i):
        while True:
            self.jl[i].acquire()
            job = self.jobs[i]
            if job is None:
                return
            sched, body, tr = job
            try:
                sched.start(i)
            except Deadlock:
                self.results[i] = ('deadlock',)
                self.fin.release()
                continue
            if tr is not None:
                sys.settrace(tr)
            try:
                self.results[i] = ('ok', body())
            except Deadlock:
                self.results[i] = ('deadlock',)
            except BaseException as e:  # noqa
                self.results[i] = ('exc', type(e).__name__, str(e)[:120])
            finally:
                if tr is not None:
                    sys.settrace(None)
                sched.finish(i)
                self.fin.release()

    def run(self, sched, bodies, tracer_for=None, join_s=240.0):
        assert len(bodies) == self.n and not self.broken
        for i in range(self.n):
            self.results[i] = None
            self.jobs[i] = (sched, bodies[i], tracer_for(i) if tracer_for else None)
            self.jl[i].release()
        sched.kick()
        for _ in range(self.n):
            if not self.fin.acquire(True, join_s):
                sched._kill()
                self.broken = True       # a worker is stuck outside the scheduler: abandon this pool
                return [r if r is not None else ('deadlock',) for r in self.results]
        return list(self.results)

    def close(self):
        if not self.broken:
            for i in range(self.n):
                self.jobs[i] = None
                self.jl[i].release()


_pools = {}


def run_threads(sched, bodies, tracer_for=None):
    """Run `bodies[i]()` in worker i under `sched`; returns the list of ('ok', value) / ('exc', type name, text) /
    ('deadlock',).  `tracer_for(i)` optionally gives the sys.settrace function of worker i."""
    n = len(bodies)
    p = _pools.get(n)
    if p is None or p.broken:
        p = _pools[n] = Pool(n)
    return p.run(sched, bodies, tracer_for)

"""C02 - dispatch: route, then sink/static by recency; exact 404/405/OPTIONS; suffix isolation; kwargs.

Per-call time limits are 30 s: the code under test has no loops, the limit only keeps the harness from blocking.
(A 3 s limit fired spuriously on a machine with load average > 100, and SIGALRM raised inside falcon's generic
exception handler turned into a 500 response.)
"""
PROP = 'C02'
LEAN_MODULES = ['FalconModel.DispatchProofs']
DRIVERS = ['dpdriver']
THEOREMS = [
    'Dp.route_masks', 'Dp.lookup_never_sink_or_static', 'Dp.lookup_resource_iff',
    'Dp.first_match', 'Dp.not_found_iff',
    'Dp.history_spec', 'Dp.sink_static_order',
    'Dp.mem_insertSorted', 'Dp.mem_sortM', 'Dp.options_allow_exact', 'Dp.allow405_exact',
    'Dp.suffix_isolation', 'Dp.unknown_method_400', 'Dp.kwargs_are_fields_or_groups',
    'Dp.websocket_meta_is_400', 'Dp.dispatchHttp_eq',
    'Dp.groupdict_keys', 'Dp.sink_kwargs_exact', 'Dp.sink_kwargs_nonparticipating', 'Dp.non_sink_kwargs_empty',
    'Dp.init_default', 'Dp.sink_static_order_init',
    'Dp.find_addRoute', 'Dp.history_find', 'Dp.latest_registration_wins', 'Dp.accepted_call_rebinds', 'Dp.rejected_call_is_noop',
    'Dp.accepted_iff', 'Dp.reregistered_route_exact', 'Dp.unregistered_template',
    'Dp.effSuffix_empty', 'Dp.effSuffix_none', 'Dp.effSuffix_nonempty',
    'Dp.answer_status_exact', 'Dp.answer_status_independent', 'Dp.answer_allow_exact', 'Dp.options_answer_exact', 'Dp.not_allowed_answer_exact',
]
STATEMENTS = {
    'Dp.route_masks': 'whenever the router returns a route for the path, _get_responder answers from that route\'s method map alone, whatever sinks and static routes are registered and whatever they match',
    'Dp.lookup_never_sink_or_static': 'a method-map lookup never yields a sink, a static route or the 404 responder',
    'Dp.lookup_resource_iff': 'the resource\'s own responder runs exactly for the methods it implements',
    'Dp.first_match': 'without a route the chosen sink/static entry is the first entry of the configured order that matches: everything before it does not match',
    'Dp.not_found_iff': 'without a route the 404 responder is chosen iff no entry of the configured order matches',
    'Dp.sink_static_order': 'after ANY history of add_sink/add_static_route on a fresh app the search order is sinks most-recent-first then static routes most-recent-first, or the two blocks swapped when sink_before_static_route is false',
    'Dp.options_allow_exact': 'the automatic OPTIONS responder advertises m iff the resource implements m and m is not the meta method WEBSOCKET (so OPTIONS itself is absent)',
    'Dp.allow405_exact': 'the 405 responder advertises m iff (the resource implements m and m is not WEBSOCKET) or m = OPTIONS',
    'Dp.suffix_isolation': 'through a route added with suffix s the resource responder chosen for m exists iff m is in COMBINED_METHODS and the resource has a callable on_<m>_<s> (on_<m> without suffix): attributes carrying another suffix are never reached',
    'Dp.unknown_method_400': 'a method outside COMBINED_METHODS (other than OPTIONS) is answered by the 400 responder on every route',
    'Dp.kwargs_are_fields_or_groups': 'params = template fields for a routed request, = groupdict() of exactly the chosen sink otherwise, = {} for a static route and for 404',
    'Dp.websocket_meta_is_400': 'an HTTP request whose method is WEBSOCKET is answered 400 whatever is registered',
    'Dp.dispatchHttp_eq': 'for every other method the HTTP entry point dispatches exactly like _get_responder',
    'Dp.groupdict_keys': 'the keys of Match.groupdict() are the named groups of the pattern (groupindex), whichever groups took part in the match',
    'Dp.sink_kwargs_exact': 'when dispatch falls through to a sink its kwargs are groupdict() of that sink\'s match: one key per named group of the prefix pattern, each with the text the group matched, or None when it did not take part',
    'Dp.sink_kwargs_nonparticipating': 'if no group of the chosen sink\'s pattern took part in the match (Match.lastindex is None) the sink still receives every named group as a keyword argument, all None',
    'Dp.non_sink_kwargs_empty': 'with match objects as the table: a static route and the 404 responder get no kwargs, a routed request gets the template fields',
    'Dp.init_default': 'an app constructed without sink_before_static_route is the app constructed with True',
    'Dp.latest_registration_wins': 'after ANY history of add_route calls on a fresh router the node of template t carries the method map built by the LATEST accepted call for t (from the responders the resource object had at that call and the suffix of that call) - whatever was registered for t before, also when it was the very same resource object; None if no accepted call named t',
    'Dp.history_find': 'the same for a history applied to an arbitrary router state (templates without a later call keep their node)',
    'Dp.find_addRoute': 'one insert() overrides the node of its own template and leaves every other template alone',
    'Dp.accepted_call_rebinds': 'an accepted add_route call binds its template to exactly the method map computed in that call and changes no other template',
    'Dp.rejected_call_is_noop': 'a call that raises SuffixedMethodNotFoundError leaves the router as it was',
    'Dp.accepted_iff': 'add_route is accepted iff the suffix is None/empty or some method of COMBINED_METHODS has a callable on_<m>_<suffix> with exactly that suffix text',
    'Dp.reregistered_route_exact': 'if r is the latest accepted call for t then on the route t: the resource responder for m runs iff m is in COMBINED_METHODS and r.resource had a callable on_<m>[_<r.suffix>] at that call (suffix compared verbatim, empty = none); OPTIONS advertises exactly those methods (without WEBSOCKET), 405 exactly those plus OPTIONS',
    'Dp.unregistered_template': 'a template no accepted call named has no node',
    'Dp.effSuffix_empty': "suffix='' selects the unsuffixed responders, like None",
    'Dp.effSuffix_nonempty': 'every non-empty suffix is used verbatim (letter case, digits, underscores are significant)',
    'Dp.answer_status_exact': 'the status of the final response is 200 after the automatic OPTIONS responder, 405 / 400 / 404 after the other answers of the framework - for EVERY state of the response object before (a status preset by process_request / process_resource middleware or by the response_type initializer); a resource responder / sink leaves what was there',
    'Dp.answer_status_independent': 'the status of an answer of the framework does not depend on the status the response carried before',
    'Dp.answer_allow_exact': 'the Allow header after the automatic OPTIONS responder / the 405 is the list of that responder, whatever Allow value an earlier stage had set; 400 and 404 leave the header alone',
    'Dp.options_answer_exact': 'on a matched route without on_options: OPTIONS is answered 200 with Allow = exactly the implemented HTTP methods, for every state of the response before',
    'Dp.not_allowed_answer_exact': 'a method of COMBINED_METHODS the resource lacks is answered 405 with Allow = the implemented methods plus OPTIONS, for every state of the response before',
    'Dp.sink_static_order_init': 'sink_static_order for the app the constructor returns (falcon.App / falcon.API / falcon.asgi.App), whether the option was given or left out',
}
TRUSTED = [
    're.Pattern.match (whether it matches, Pattern.groupindex, Match.group(i) of every group) and StaticRoute.match enter the model as a table read off the real matchers - for a sink: off the very object the application passed to add_sink (a str prefix is compiled by the harness), never off what the app stored; groupdict() is computed by the model; the oracle recomputes static matching from the documented prefix rule',
    'Python argument binding (positional / keyword) of the app constructors is not modelled: the model receives the value the test author passed for sink_before_static_route, or "default"',
    'which uri_template the router finds for the path enters the model as an input (C01 verifies the router tree); which method map that template carries after the history of add_route calls is computed by the model; the oracle uses its own template matcher and the latest accepted registration',
    'getattr/callable on the resource object enter the model as the list of callable on_* attributes at each add_route call',
    'sortedness of the Allow lists is carried by the correspondence (lists are compared in order), not by a theorem',
    'what a static route serves once chosen (C16)',
    'which earlier stages run before the responder (response_type initializer, process_request unless the method is the meta method, process_resource after a route match) is the harness\'s reading of the pipeline (C03\'s subject): it computes the state `pre` of the response that is put to Dp.answer; _compose_error_response (status := error.status, set_headers(error.headers)) is folded into Dp.answer',
]
ASSUMPTIONS = [
    'FALCON_CUSTOM_HTTP_METHODS is unset (COMBINED_METHODS = 9 HTTP + 13 WebDAV + WEBSOCKET; the real tuple is passed to the model on every line)',
    'suffix is None, the empty string (read as "no suffix": the keyword is optional and an empty name selects no other responder family) or a non-empty identifier tail (letters of either case, digits, underscores; compared verbatim, as Python attribute names are); a resource object changes its responders only immediately before every template bound to it is registered again (whether a route follows later changes of its resource object is not something the statement decides); the router is a CompiledRouter (the default one or an instance passed as router=); middleware, if any, neither completes the response nor raises: it is passive, or it presets a status and / or an Allow header on the response (process_request / process_resource), as the initializer of a custom response_type may; the generated resource responders and sinks set no status themselves, so with such a preset only the answers of the framework itself (automatic OPTIONS, 405, 404, 400) are judged on status; default error handlers and serializer',
    'sink_before_static_route has no public attribute or setter after construction (App.__slots__ holds only the private _sink_before_static_route), so the constructor is the only public way to configure it',
    'the 405 close code of a WebSocket handshake carries no Allow list; for WebSocket requests the Allow list is observed on the responder returned by App._get_responder only',
]
RULE = ('[dimension added after seed C02_14 - WHAT EARLIER STAGES LEFT ON THE RESPONSE when a framework-default responder runs: 46 % of the apps carry a process_request and / or process_resource middleware component '
        'that presets resp.status (501, 418, http.HTTPStatus.ACCEPTED, \'403 Forbidden\', 404, 405, 400, 204, 500, a custom status line, 503, 201 - every spelling falcon accepts) and / or an Allow header (bogus values, set_header / append_header), '
        'or a custom response_type whose __init__ picks another initial status, or several of these; the responder returned by App._get_responder is also invoked on a response object that carries such a status / header '
        '(always for those apps, 35 % of the requests otherwise) and the status it leaves is observed; the full-call line of the model carries the state of the response before the responder (pre=status:Allow) and the model (Dp.answer) answers with the final status and Allow value for the answers of the framework; statement: the automatic OPTIONS responder answers 200, 405 / 404 / 400 are exactly that, Allow exact, on both stacks, whatever was there before] '
        'random apps constructed through every public entry point (falcon.App, the deprecated alias falcon.API, falcon.asgi.App, and a user subclass of each), every '
        'App.__init__ option (media_type, request_type, response_type, middleware, router, independent_middleware, cors_enable, sink_before_static_route) independently left out, '
        'passed by keyword or passed positionally (0..8 positional arguments), with the documented default or a dispatch-neutral alternative value (passive middleware, '
        'an explicit CompiledRouter() - on WSGI routes are then sometimes added on that router directly -, cors_enable=True, Request/Response subclasses); '
        'sink_before_static_route omitted / True / False; 0..8 registrations in random order, in one or two phases with requests after each phase - '
        'routes over 7 templates bound to resources with random subsets of the 22 methods + WEBSOCKET as on_<m> and up to four suffixed families on_<m>_<s> (some attributes non-callable, '
        'some resources shared by two routes with different suffix=); SUFFIX SPELLINGS: s from alt, x, byId, byid, v2Beta, v2beta, JSON, json, by_id, By_Id, ALT, X, x1, _x, Item2 - mixed case, digits, underscores, '
        'and TWIN families on one resource that are equal after lower-casing (on_get_byId beside on_get_byid, with different method sets); add_route is called without suffix, with suffix=None, suffix=\'\' (= no suffix; '
        'a decoy on_<m>_ attribute is sometimes present), with a family the resource has, or with another spelling of one (twin / lower / upper / capitalised: then either the twin family is selected or the call is rejected); '
        'every add_route call is also put to the model (accepted / SuffixedMethodNotFoundError); '
        'REGISTRATION HISTORIES THAT RE-REGISTER: with probability 0.4 a route registration names a template that is registered already - the same resource object with another suffix, the same object with the same suffix, '
        'the same object after it GAINED and/or LOST responders (setattr / delattr / replaced by a non-callable; all templates bound to the object are then registered again, same or other suffix), or another object (new, or one bound elsewhere); '
        'up to 3+ registrations per template, before and after requests (two phases); the LATEST accepted registration defines responder identity, 405 Allow and OPTIONS Allow; request paths are biased to re-registered templates, '
        'request methods to those implemented by the current AND by replaced registrations; '
        'the model receives the whole history of add_route calls (template, object id, suffix as passed, callable on_* attributes at that moment) plus the uri_template the router returned; the RESOURCE OBJECT itself is an input: a plain instance, or (about half of the resources) an object whose truth value is False - '
        'an empty dict subclass, an empty list subclass, a class with __len__ == 0, a class with __bool__ False - or changes between requests (a __bool__ flag / a list-subclass collection the harness '
        'fills and empties before each request); a matched route is a matched route whatever bool(resource) is (the model receives the router\'s answer as an Option, so it cannot tell the kinds apart: '
        'truthy and falsy resources must produce the same replies), 7 overlapping sink regexes with mandatory named groups plus 12 whose named groups need not take part in a match '
        '(optional groups, groups in one branch of an alternation, nested optional groups, a repeated group, an empty-text group, unnamed groups beside named ones, an inline flag), '
        'registered as str, compiled pattern, by keyword or with the default prefix; 30% of the sinks are PRECOMPILED PATTERN OBJECTS WITH FLAGS (15 pattern/flag pairs: re.I, re.X with whitespace, newlines and comments in the pattern text, '
        're.S, re.A against \\w / \\d, re.M, re.U as a control, and the combinations I|X, A|I|X, S|X, I|M, I|S|A), each with paths on which the flags decide whether it matches or what a named group holds (other letter case, a newline in the path, '
        'a non-ASCII word character / digit); 40% of the requests to an app with such a sink use one of those paths; the oracle and the model\'s match table use the object the application passed; the kwargs a sink receives are compared key-by-key (None is distinguished from the empty string); 9 static routes '
        '(shared prefixes, with/without fallback_filename), both sink_before_static_route values; 6..10 requests per app: paths biased to registered templates, '
        'methods biased to implemented ones plus WEBSOCKET and an unknown method; ASGI additionally WebSocket handshakes. '
        'Each request is observed twice: on the responder returned by App._get_responder (invoked on a fresh request/response) and through the full WSGI/ASGI call. '
        'non-trivial = the app has at least one registration; distinct = distinct (stack, constructor call, registration history, request)')
PARTIAL = ''
JOBS = {'quick': 4, 'thorough': 16}

HTTP = ['GET', 'HEAD', 'POST', 'PUT', 'DELETE', 'PATCH', 'OPTIONS', 'CONNECT', 'TRACE']
WEBDAV = ['CHECKIN', 'CHECKOUT', 'COPY', 'LOCK', 'MKCOL', 'MOVE', 'PROPFIND', 'PROPPATCH', 'REPORT', 'UNCHECKIN',
          'UNLOCK', 'UPDATE', 'VERSION-CONTROL']
KNOWN = HTTP + WEBDAV            # the methods a 405 may be answered for (statement: "the HTTP/WebDAV methods")
META = ['WEBSOCKET']
ALLM = KNOWN + META
TEMPLATES = ['/a', '/a/b', '/items/{id}', '/items/{id}/sub', '/s/x', '/st/f.txt', '/{top}']
PATHS = ['/a', '/a/b', '/items/7', '/items/7/sub', '/s/x', '/s/y/z', '/st/f.txt', '/st/nope', '/zzz', '/q/r', '/st', '/s',
         '/st2/f.txt', '/', '/q', '/7', '/7/x', '/en/about', '/about', '/sx', '/zz', '/S/x']
SINKS = [r'/s', r'/s/(?P<rest>.*)', r'/(?P<first>[^/]+)/(?P<second>.*)', r'/st', r'/q', r'/', r'/(?P<one>[a-z]+)$']
# named groups that need not take part in a match: kwargs must still be exactly Match.groupdict() (absent groups = None)
SINKS_OPT = [
    r'/s(?:/(?P<rest>[a-z]+))?',                                    # one optional group ('/s', '/st...' match without it)
    r'/(?:st/(?P<file>[a-z.]+)|q|s)',                               # the only group sits in one branch of an alternation
    r'/(?P<lang>[a-z]{2}/)?',                                       # catch-all whose only group is optional
    r'/(?P<outer>s(?P<inner>t)?)?',                                 # optional group nested in an optional group
    r'/(?:(?P<num>[0-9]+)|(?P<word>[a-z]+))?',                      # two alternated groups, at most one participates, maybe none
    r'/(s|q)(?:/(?P<rest>[^/]*))?',                                 # an UNNAMED group participates, the named one need not
    r'/(?P<first>[^/]+)(?:/(?P<second>[^/]+))?(?:/(?P<third>.*))?',  # one mandatory + two optional groups
    r'/(?P<e>)',                                                    # participates with the empty string ('' is not None)
    r'/(st|s)/',                                                    # unnamed groups only: kwargs {}
    r'/(?P<z>z)*',                                                  # repeated group, zero repetitions allowed
    r'/(?:a/(?P<leaf>b)|(?P<top>a))?',                              # alternation of named groups inside an optional group
    r'(?i)/s(?P<tail>/x)?',                                         # inline flag + optional group
]
# (11) sink prefixes given as PRECOMPILED pattern objects WITH FLAGS: (pattern text, flag names, paths on which the flags decide).
# Whether such a sink matches a path - and what its named groups hold - is defined by the object the application passed.
_VERBOSE_ST = """
    /st/                    # looks like the static prefix
    (?P<file> [a-z.]+ )     # the file name
"""
SINKS_FLAGGED = [
    (r'/s(?P<tail>/x)?', ('I',), ['/S/x', '/S/X', '/S', '/s/X']),
    (r'/api/(?P<version>v\d+)', ('I',), ['/API/V2', '/api/v2', '/Api/v10/x', '/api/V2']),
    (_VERBOSE_ST, ('X',), ['/st/f.txt', '/st/nope', '/st/']),
    (r'/q (?: /(?P<rest>[a-z]+) )?   # the rest is optional', ('X',), ['/q', '/q/r', '/q/']),
    (r'/nl/.(?P<after>[a-z]*)', ('S',), ['/nl/\nx', '/nl/ax', '/nl/\n']),
    (r'/blob/(?P<rest>.+)\Z', ('S',), ['/blob/a\nb', '/blob/ab', '/blob/\n']),
    (r'/u/(?P<name>\w+)', ('A',), ['/u/zo\u00eb', '/u/\u00e9mile/x', '/u/zoe']),
    (r'/d/(?P<n>\d+)$', ('A',), ['/d/\u0663', '/d/3', '/d/3\u0663']),
    (r'/m/(?P<a>[a-z]+)$', ('M',), ['/m/ab\ncd', '/m/ab', '/m/ab\n']),
    (r'/API/ (?P<v> v[0-9]+ )  # version', ('I', 'X'), ['/api/v2', '/API/V2', '/Api/V10/x']),
    (r'/U/ (?P<name> \w+ ) $', ('A', 'I', 'X'), ['/u/zoe', '/U/zo\u00eb', '/u/Z']),
    (r'/nl/ (?P<all> .+ ) \Z', ('S', 'X'), ['/nl/\nx', '/nl/a\nb', '/nl/ax']),
    (r'/(?P<one>[a-z]+)$', ('I', 'M'), ['/ZZ', '/zz\nq', '/Q']),
    (r'/s/(?P<rest>.*)', ('I', 'S', 'A'), ['/S/x', '/s/y\nz', '/s/\u00e9']),     # every flag matters on some path
    (r'/st', ('U',), ['/st', '/st/f.txt', '/ST']),                                  # control: a flag that changes nothing
]
FLAG_PATHS = sorted({p for _, _, ps in SINKS_FLAGGED for p in ps})
# (12) responder-name suffixes as an application may spell them: mixed case, digits, underscores; several of them are EQUAL AFTER
# LOWER-CASING (twin families on_get_byId / on_get_byid on one resource).  '' (route side only) means "no suffix", like None.
SUFFIXES = ['alt', 'x', 'alt', 'x', 'byId', 'byid', 'v2Beta', 'v2beta', 'JSON', 'json', 'by_id', 'By_Id', 'ALT', 'X', 'x1', '_x', 'Item2']
TWIN = {'byId': 'byid', 'byid': 'byId', 'v2Beta': 'v2beta', 'v2beta': 'v2Beta', 'JSON': 'json', 'json': 'JSON', 'by_id': 'By_Id', 'By_Id': 'by_id',
        'alt': 'ALT', 'ALT': 'alt', 'x': 'X', 'X': 'x', 'x1': 'X1', '_x': '_X', 'Item2': 'item2'}
# what kind of object is registered as the resource (the statement quantifies over resources; any object with on_* attributes is one):
# truthy, falsy in four ways, or with a truth value that the harness changes between requests
RES_KINDS = ['plain', 'plain', 'plain', 'plain', 'plain', 'empty_dict_subclass', 'empty_list_subclass', 'len_0', 'bool_false',
             'bool_flag_toggling', 'list_collection_toggling']
# public ways to construct an app (label -> how run() resolves it); 'sub:' = a user subclass that adds nothing
ENTRY = {'wsgi': ['falcon.App', 'falcon.API', 'sub:falcon.App', 'sub:falcon.API'],
         'asgi': ['falcon.asgi.App', 'sub:falcon.asgi.App']}
# App.__init__ options in positional order
OPTS = ['media_type', 'request_type', 'response_type', 'middleware', 'router', 'independent_middleware', 'cors_enable',
        'sink_before_static_route']
# (prefix, directory key, fallback_filename)
STATICS = [('/st/', 'a', None), ('/st', 'b', None), ('/st2/', 'b', None), ('/s/', 'a', None), ('/s', 'b', 'f.txt'),
           ('/st', 'a', 'f.txt'), ('/st/', 'a', 'f.txt'), ('/s/', 'b', 'f.txt'), ('/st2/', 'b', 'f.txt')]   # fallback with and without the trailing slash in the registered prefix


def esc(v):
    """text of the line protocol: a newline (paths may contain one) is written as backslash-n"""
    return v.replace('\\', '\\\\').replace('\n', '\\n').replace('\r', '\\r')


def attr_name(m, s):
    return 'on_' + m.lower() + ('_' + s if s is not None else '')


def kwstr(kw):
    """`k:v` for a text value (possibly empty), bare `k` for None; sorted by key."""
    items = sorted((str(k), None if v is None else esc(str(v))) for k, v in dict(kw).items())
    for k, v in items:
        assert not (set(k + (v or '')) & set(' ;:|>,@\n\r\t')) and k != '-', (k, v)
    return ';'.join(k if v is None else f'{k}:{v}' for k, v in items) or '-'


def tmpl_match(tmpl, path):
    """The documented meaning of a URI template with simple {field} segments (own implementation, not the router)."""
    if not path.startswith('/'):
        return None
    tp = tmpl.split('/')[1:]
    pp = path.split('/')[1:]
    if len(tp) != len(pp):
        return None
    params = {}
    for a, b in zip(tp, pp):
        if a.startswith('{') and a.endswith('}'):
            # NOTE: a field also matches the empty segment ('/' matches '/{top}' with top=''): that is how the
            # router reads templates (C01's subject); whether a route matches is an input of this property.
            params[a[1:-1]] = b
        elif a != b:
            return None
    return params


class Reg:
    """The registration history of one generated app, as the test author knows it (no falcon state)."""

    def __init__(self, sbs, ctor=None):
        self.sbs = sbs         # the configured order: the value given to the constructor, True (documented default) if none was given
        self.ctor = ctor or {} # how the app object was constructed: entry point, which options positionally / by keyword
        self.resources = {}    # res id -> {'attrs': set((method, suffix)), 'noncallable': set((method, suffix)), 'kind': what object the resource is (RES_KINDS)}
        self.routes = []       # (template, res id, suffix as passed) - every ACCEPTED add_route call in order; the latest one for a template is its registration
        self.route_calls = []  # every add_route call, accepted or not: (template, res id, suffix as passed, the resource's callable on_* attributes at that moment)
        self.history = []      # readable log of everything done to the app and to the resource objects, in order
        self.sinkarg = {}      # k -> what the application passed as the sink prefix: a str, or a compiled pattern object (with its flags)
        self.sinkflags = {}    # k -> None (passed as str) | tuple of flag letters the pattern object was compiled with
        self._pat = {}
        self.sinks = []        # (pattern string, k) in registration order
        self.statics = []      # (prefix, dirkey, fallback, k) in registration order
        self.ops = []          # 's<k>' / 't<k>' in registration order

    def sig(self):
        return (self.sbs, self.ctor.get('entry'), self.ctor.get('sbs_arg'), self.ctor.get('call'), repr(self.ctor.get('presets')), tuple(sorted((r, d.get('kind'), tuple(sorted(map(str, d['attrs'])))) for r, d in self.resources.items())),
                tuple(self.routes), tuple(self.sinks), tuple(sorted((k, v) for k, v in self.sinkflags.items() if v is not None)), tuple(self.statics), len(self.history))

    def describe(self):
        return {'sink_before_static_route': self.sbs, 'constructed_by': self.ctor.get('call'),
                'earlier_stages_leave_on_the_response': [{'by': p['by'], 'status': repr(p['status']), 'Allow': p['allow']} for p in self.ctor.get('presets') or []],
                'resources': {r: sorted(attr_name(m, s) for m, s in d['attrs']) for r, d in self.resources.items()},
                'resource_objects': {r: d.get('kind', 'plain') for r, d in self.resources.items()},
                'noncallable': {r: sorted(attr_name(m, s) for m, s in d['noncallable']) for r, d in self.resources.items() if d['noncallable']},
                'routes': list(self.routes), 'sinks': list(self.sinks),
                'sink_prefix_passed_as': {k: ('str' if f is None else 're.compile(%r, %s)' % (self.sinkarg[k].pattern, '|'.join('re.' + x for x in f) or '0')) for k, f in self.sinkflags.items()},
                'statics': list(self.statics), 'order_of_adds': list(self.ops), 'history': list(self.history)}

    def sink_pattern(self, k):
        """what decides whether sink k matches: the pattern object the application passed; a str prefix is a regex matched from the start of the path"""
        import re
        if k not in self._pat:
            a = self.sinkarg[k]
            self._pat[k] = re.compile(a) if isinstance(a, str) else a
        return self._pat[k]

    def current_routes(self):
        """template -> (res id, suffix as passed) of the LATEST accepted add_route call for the template"""
        cur = {}
        for tm, rid, sfx in self.routes:
            cur[tm] = (rid, sfx)
        return cur

    # ---- the property statement, executed on the history
    def static_matches(self, prefix, fallback, path):
        p = prefix if prefix.endswith('/') else prefix + '/'
        return path.startswith(p) or (fallback is not None and path == p[:-1])

    def expect(self, kind, method, path):
        """-> dict(kind=..., ...) from the statement.  kind 'http' | 'ws'."""
        import re
        if kind == 'http' and method in META:
            return {'k': '400'}
        m = 'WEBSOCKET' if kind == 'ws' else method
        cands = []
        for tm, (rid, sfx) in self.current_routes().items():
            f = tmpl_match(tm, path)
            if f is not None:
                # suffix='' is "no suffix" (the keyword is optional; an empty name selects nothing else); otherwise the suffix is taken verbatim
                cands.append((sum(1 for seg in tm.split('/') if seg.startswith('{')), tm, rid, sfx or None, f))
        if cands:
            cands.sort(key=lambda c: c[0])       # literal segments are preferred to fields
            _, tm, rid, sfx, f = cands[0]
            impl = {mm for (mm, s) in self.resources[rid]['attrs'] if s == sfx}
            http_impl = {x for x in impl if x not in META}
            if m in impl:
                return {'k': 'resource', 'rid': rid, 'method': m, 'suffix': sfx, 'kw': f, 'tmpl': tm}
            if m == 'OPTIONS':
                return {'k': 'options', 'allow': http_impl, 'tmpl': tm}
            if m in ALLM:
                return {'k': '405', 'allow': http_impl | {'OPTIONS'}, 'tmpl': tm}
            return {'k': '400', 'tmpl': tm}
        sk = [('sink', px, k) for px, k in reversed(self.sinks)]
        stt = [('static', px, fb, k) for px, d, fb, k in reversed(self.statics)]
        for o in (sk + stt if self.sbs else stt + sk):
            if o[0] == 'sink':
                pat = self.sink_pattern(o[2])
                mt = pat.match(path)
                if mt:
                    # "sink named groups arrive as the responder's keyword arguments": one per named group of the pattern
                    return {'k': 'sink', 'id': o[2], 'kw': {name: mt.group(name) for name in pat.groupindex}}
            elif self.static_matches(o[1], o[2], path):
                return {'k': 'static', 'id': o[3], 'kw': {}}
        return {'k': '404'}


def judge(exp, obs, level, preset=None):
    """Compare one observation with the statement's expectation. obs: dict(k=..., ...) built by classify()."""
    k = exp['k']
    if obs.get('multi'):
        return f'{level}: more than one responder ran: {obs["multi"]}'
    if k != obs['k']:
        return f'{level}: expected {k} but observed {obs["k"]} ({obs.get("detail", "")})'
    if k == 'resource':
        if (obs['rid'], obs['method'], obs['suffix']) != (exp['rid'], exp['method'], exp['suffix']):
            return f'{level}: wrong responder ran: on_{obs["method"].lower()}{"_" + obs["suffix"] if obs["suffix"] else ""} of resource {obs["rid"]}'
        if obs['kw'] != exp['kw']:
            return f'{level}: responder kwargs {obs["kw"]} != template fields {exp["kw"]}'
    elif k == 'sink':
        if obs['id'] != exp['id']:
            return f'{level}: sink {obs["id"]} ran, expected sink {exp["id"]}'
        if set(obs['kw']) != set(exp['kw']):
            return f'{level}: sink kwargs {obs["kw"]}: keys differ from the named groups of the sink prefix {exp["kw"]}'
        if obs['kw'] != exp['kw']:
            return f'{level}: sink kwargs {obs["kw"]} != named groups {exp["kw"]}'
    elif k == 'static':
        if obs['id'] != exp['id']:
            return f'{level}: static route {obs["id"]} ran, expected static route {exp["id"]}'
        if obs['kw']:
            return f'{level}: static route got kwargs {obs["kw"]}'
    elif k in ('options', '405'):
        al = obs.get('allow')
        if al is None:
            return None if obs.get('allow_unobservable') else f'{level}: {k} without an Allow header'
        if len(al) != len(set(al)) or set(al) != exp['allow']:
            return f'{level}: {k} Allow = {al}, expected exactly {sorted(exp["allow"])}'
    if 'status' in obs and obs['status'] is not None:
        # the framework's own answers are exact whatever earlier stages left on the response; a generated resource responder / sink sets no
        # status itself, so with a preset status its answer carries that status (not judged)
        want = {'options': 200, '405': 405, '400': 400, '404': 404}.get(k) if preset else {'resource': 200, 'sink': 200, 'options': 200, '405': 405, '400': 400, '404': 404}.get(k)
        if want is not None and obs['status'] != want:
            return f'{level}: status {obs["status"]}, expected {want}' + (f' (earlier stages left {preset} on the response)' if preset else '')
    return None


def classify(log, exc_name, status, allow, allow_unobservable=False):
    if log:
        e = log[0]
        o = dict(e)
        if len(log) > 1:
            o['multi'] = [dict(x) for x in log]
        o['status'] = status
        return o
    if exc_name == 'HTTPMethodNotAllowed' or status == 405:
        return {'k': '405', 'allow': allow, 'status': status, 'allow_unobservable': allow_unobservable}
    if exc_name == 'HTTPRouteNotFound' or status == 404:
        return {'k': '404', 'status': status}
    if exc_name == 'HTTPBadRequest' or status == 400:
        return {'k': '400', 'status': status}
    if exc_name is None and allow is not None:
        # nothing generated ran, nothing was raised, an Allow header is there: the automatic OPTIONS responder (whose status judge() checks)
        return {'k': 'options', 'allow': allow, 'status': status}
    return {'k': 'other', 'detail': f'exception {exc_name}, status {status}, allow {allow}', 'status': status}


def render(o):
    k = o['k']
    if k == 'resource':
        return f"resource:{o['rid']}:{o['method']}" + (f"~{o['suffix']}" if o['suffix'] else '') + ' kw=' + kwstr(o['kw'])
    if k in ('sink', 'static'):
        return f"{k}:{o['id']} kw=" + kwstr(o['kw'])
    if k in ('options', '405'):
        return f"{k}:{','.join(o['allow'] or [])} kw=-"
    if k in ('400', '404'):
        return f'{k} kw=-'
    return 'other:' + o.get('detail', '')


def split_allow(v):
    return None if v is None else [x.strip() for x in v.split(',') if x.strip()]


def run(ctx):
    import os
    import shutil
    import tempfile
    root = tempfile.mkdtemp(prefix='c02static_')
    try:
        for d in 'ab':
            os.makedirs(os.path.join(root, d))
            for fn in ('f.txt', 'idx.html'):
                with open(os.path.join(root, d, fn), 'w') as f:
                    f.write(d + fn)
        _stack(ctx, root, asgi=False)
        _stack(ctx, root, asgi=True)
    finally:
        shutil.rmtree(root, ignore_errors=True)


def _stack(ctx, root, asgi):
    import asyncio
    import os
    import re
    import warnings
    from runner import alarm, Hang
    import falcon
    import falcon.asgi
    import falcon.testing as ft
    from falcon import constants
    from falcon.routing.static import StaticRoute, StaticRouteAsync
    rnd = ctx.rng
    stack = 'asgi' if asgi else 'wsgi'
    COMBINED = list(constants.COMBINED_METHODS)
    LOG = []
    CREATED = []     # static route objects in creation order (add_static_route constructs them itself)

    # ---- instrumented building blocks: every responder records (identity, kwargs) when it runs
    if asgi:
        class RecStatic(StaticRouteAsync):
            def __init__(self, *a, **k):
                super().__init__(*a, **k)
                CREATED.append(self)

            async def __call__(self, req, resp, **kw):
                LOG.append({'k': 'static', 'id': self.k, 'kw': dict(kw)})
                await super().__call__(req, resp, **kw)

        BASE = falcon.asgi.App
    else:
        class RecStatic(StaticRoute):
            def __init__(self, *a, **k):
                super().__init__(*a, **k)
                CREATED.append(self)

            def __call__(self, req, resp, **kw):
                LOG.append({'k': 'static', 'id': self.k, 'kw': dict(kw)})
                super().__call__(req, resp, **kw)

        BASE = falcon.App
    saved_static_type = BASE.__dict__['_STATIC_ROUTE_TYPE']
    BASE._STATIC_ROUTE_TYPE = RecStatic      # (falcon.API inherits it from falcon.App)

    class SubApp(BASE):
        """a user subclass that adds nothing"""

    class SubAPI(falcon.API):
        """a user subclass of the deprecated alias"""

    ENTRY_CLS = {'falcon.App': falcon.App, 'falcon.API': falcon.API, 'sub:falcon.App': SubApp, 'sub:falcon.API': SubAPI,
                 'falcon.asgi.App': falcon.asgi.App, 'sub:falcon.asgi.App': SubApp}
    ReqBase = falcon.asgi.Request if asgi else falcon.Request
    RespBase = falcon.asgi.Response if asgi else falcon.Response

    class SubReq(ReqBase):
        pass

    class SubResp(RespBase):
        pass

    if asgi:
        class Passive:
            """middleware that touches nothing (dispatch must not depend on its presence)"""
            async def process_request(self, req, resp):
                pass

            async def process_resource(self, req, resp, resource, params):
                pass

            async def process_response(self, req, resp, resource, req_succeeded):
                pass
    else:
        class Passive:
            """middleware that touches nothing (dispatch must not depend on its presence)"""
            def process_request(self, req, resp):
                pass

            def process_resource(self, req, resp, resource, params):
                pass

            def process_response(self, req, resp, resource, req_succeeded):
                pass

    class PassiveResp:
        if asgi:
            async def process_response(self, req, resp, resource, req_succeeded):
                pass
        else:
            def process_response(self, req, resp, resource, req_succeeded):
                pass

    def mk_preset_mw(where, status, allow):
        """a middleware component of an EARLIER STAGE that leaves a status and / or an Allow header on the response before any responder runs
        (a pessimistic default "until a responder takes over", a per-resource policy ...); it neither completes the response nor raises"""
        def touch(resp):
            if status is not None:
                resp.status = status
            if allow is not None:
                (resp.append_header if allow[0] == 'append_header' else resp.set_header)('Allow', allow[1])
        d = {}
        if where == 'process_request':
            if asgi:
                async def process_request(self, req, resp): touch(resp)
            else:
                def process_request(self, req, resp): touch(resp)
            d['process_request'] = process_request
        else:
            if asgi:
                async def process_resource(self, req, resp, resource, params): touch(resp)
            else:
                def process_resource(self, req, resp, resource, params): touch(resp)
            d['process_resource'] = process_resource
        return type('Presetting', (), d)()

    def mk_preset_resp(status):
        class PresetResp(RespBase):
            """a custom response_type whose initializer picks another initial status"""
            def __init__(self, *a, **k):
                super().__init__(*a, **k)
                self.status = status
        return PresetResp

    def pick_preset():
        """(status, allow) an earlier stage leaves behind; the status in any spelling falcon accepts"""
        import http as _http
        st = rnd.choice([falcon.HTTP_501, 418, _http.HTTPStatus.ACCEPTED, '403 Forbidden', 404, 405, 400, 204, 500, '299 Custom', 503, falcon.HTTP_201, None])
        al = rnd.choice([None, None, ('set_header', 'BOGUS'), ('set_header', 'GET, POST, DELETE, PATCH'), ('append_header', 'TRACE'), ('set_header', '')])
        if st is None and al is None:
            st = 501
        return st, al

    def construct():
        """One app through a public entry point; every App.__init__ option left out, given positionally or by keyword.
        -> (app, sbs the author configured, description, explicit router or None)"""
        entry = rnd.choice(ENTRY[stack])
        sbs_arg = rnd.choice(['default', True, True, False, False, False])
        router = falcon.routing.CompiledRouter() if rnd.random() < 0.35 else None
        vals = {
            'media_type': (rnd.choice([falcon.DEFAULT_MEDIA_TYPE, falcon.MEDIA_XML]), None),
            'request_type': rnd.choice([(None, 'None'), (ReqBase, 'Request'), (SubReq, 'subclass(Request)')]),
            'response_type': rnd.choice([(None, 'None'), (RespBase, 'Response'), (SubResp, 'subclass(Response)')]),
            'middleware': rnd.choice([(None, 'None'), (None, 'None'), ([], '[]'), (Passive(), 'passive'), ([Passive(), PassiveResp()], '[passive,passive]')]),
            'router': (router, 'CompiledRouter()' if router is not None else 'None'),
            'independent_middleware': (rnd.random() < 0.6, None),
            'cors_enable': (rnd.random() < 0.3, None),
            'sink_before_static_route': (True if sbs_arg == 'default' else sbs_arg, None),
        }
        # (13) WHAT EARLIER STAGES LEAVE ON THE RESPONSE: a status and / or an Allow header set by process_request / process_resource middleware or by a
        # custom response_type's initializer before any responder - a framework-default one included - runs
        presets = []
        forced = set()
        pk = rnd.choice([None] * 6 + ['process_request', 'process_request', 'process_resource', 'process_resource', 'response_type', 'response_type', 'several'])
        if pk is not None:
            mws = []
            for where in (['process_request', 'process_resource'] if pk == 'several' else [pk] if pk != 'response_type' else []):
                st_, al_ = pick_preset()
                mws.append(mk_preset_mw(where, st_, al_))
                presets.append({'by': where + ' middleware', 'status': st_, 'allow': al_})
            if mws:
                if rnd.random() < 0.4:
                    mws.insert(rnd.randint(0, len(mws)), Passive())
                vals['middleware'] = (mws[0] if len(mws) == 1 and rnd.random() < 0.5 else mws, '[' + ', '.join('passive' if isinstance(m_, Passive) else 'presetting' for m_ in mws) + ']')
                forced.add('middleware')
            if pk == 'response_type' or (pk == 'several' and rnd.random() < 0.5):
                st_ = pick_preset()[0] or 202
                vals['response_type'] = (mk_preset_resp(st_), f'subclass(Response) whose __init__ sets status {st_!r}')
                presets.append({'by': 'response_type.__init__', 'status': st_, 'allow': None})
                forced.add('response_type')
        npos = rnd.choice([0, 0, 0, 0, 1, 3, 5, 7, 8, 8])
        if sbs_arg == 'default' and npos == 8:
            npos = 7
        args, kwargs, shown = [], {}, []
        for i, name in enumerate(OPTS):
            v, label = vals[name]
            label = repr(v) if label is None else label
            if i < npos:
                args.append(v)
                shown.append(label)
            elif name == 'sink_before_static_route':
                if sbs_arg != 'default':
                    kwargs[name] = v
            elif (name == 'router' and router is not None) or name in forced or rnd.random() < 0.25:
                kwargs[name] = v
        items = list(kwargs.items())
        rnd.shuffle(items)
        kwargs = dict(items)
        shown += [f'{k}={repr(vals[k][0]) if vals[k][1] is None else vals[k][1]}' for k in kwargs]
        how = 'omitted' if sbs_arg == 'default' else ('positional' if npos == 8 else 'keyword')
        with warnings.catch_warnings():
            warnings.simplefilter('ignore')          # falcon.API is deprecated (and still public)
            app = ENTRY_CLS[entry](*args, **kwargs)
        ctor = {'entry': entry, 'sbs_arg': 'default' if sbs_arg == 'default' else str(int(sbs_arg)), 'how': how,
                'call': f'{entry}({", ".join(shown)})', 'presets': presets}
        for p_ in presets:
            ctx.count(f'{stack}_app_where_{p_["by"].replace(" ", "_")}_leaves_' + '_and_'.join((['a_status'] if p_['status'] is not None else []) + (['an_Allow_header'] if p_['allow'] else [])) + '_on_the_response')
        ctx.count(f'app_{entry}_sink_before_static_route={"omitted" if sbs_arg == "default" else sbs_arg}{"" if sbs_arg == "default" else "_" + how}')
        for name in OPTS[:-1]:
            if name in kwargs or OPTS.index(name) < npos:
                ctx.count(f'app_option_{name}_given')
        if vals['middleware'][1] not in ('None', '[]') and 'presetting' not in vals['middleware'][1] and ('middleware' in kwargs or npos > 3):
            ctx.count('app_with_passive_middleware')
        if vals['cors_enable'][0] and ('cors_enable' in kwargs or npos > 6):
            ctx.count('app_with_cors_enable')
        return app, vals['sink_before_static_route'][0], ctor, (router if ('router' in kwargs or npos > 4) else None)

    def mk_responder(rid, method, sfx):
        if asgi:
            async def f(req, resp, **kw):
                LOG.append({'k': 'resource', 'rid': rid, 'method': method, 'suffix': sfx, 'kw': dict(kw)})
        else:
            def f(req, resp, **kw):
                LOG.append({'k': 'resource', 'rid': rid, 'method': method, 'suffix': sfx, 'kw': dict(kw)})
        return f

    def mk_sink(k):
        if asgi:
            async def s(req, resp, **kw):
                LOG.append({'k': 'sink', 'id': k, 'kw': dict(kw)})
        else:
            def s(req, resp, **kw):
                LOG.append({'k': 'sink', 'id': k, 'kw': dict(kw)})
        return s

    class Res:
        pass

    class DictRes(dict):
        """an (empty) mapping that is its own resource"""

    class ListRes(list):
        """an (empty, or harness-filled) collection that is its own resource"""

    class SizedRes:
        def __len__(self):
            return 0

    class FlagRes:
        truthy = False

        def __bool__(self):
            return self.truthy

    RES_CLS = {'plain': Res, 'empty_dict_subclass': DictRes, 'empty_list_subclass': ListRes, 'len_0': SizedRes, 'bool_false': FlagRes,
               'bool_flag_toggling': FlagRes, 'list_collection_toggling': ListRes}

    def toggle(reg, objs):
        """between requests: resources whose truth value is state change it (a flag flips, a collection is filled / emptied)"""
        for rid, d in reg.resources.items():
            if d['kind'] == 'bool_flag_toggling':
                objs['res'][rid].truthy = rnd.random() < 0.5
            elif d['kind'] == 'list_collection_toggling':
                del objs['res'][rid][:]
                if rnd.random() < 0.5:
                    objs['res'][rid].append('item')

    sess = ctx.session(f'{stack} dispatch (App._get_responder + full {stack.upper()} call) = Dp model', 'dpdriver')
    loop = asyncio.new_event_loop() if asgi else None

    def arun(coro):
        return loop.run_until_complete(asyncio.wait_for(coro, 30))

    def fmt_attrs(attrs):
        return ','.join(sorted(m + ('~' + sx if sx is not None else '') for m, sx in attrs)) or '-'

    def fmt_reg(tm, rid, suffix, attrs):
        return f"{TEMPLATES.index(tm)}:{rid}:{'-' if suffix is None else '=' + suffix}:{fmt_attrs(attrs)}"

    def new_resource(reg, objs, rid):
        """a resource object with a random set of responders: unsuffixed ones and up to three suffixed families, among them twins that
        differ in letter case only"""
        attrs = set()
        for m in rnd.sample(ALLM, rnd.randint(0, 5)):
            attrs.add((m, None))
        fams = []
        for sfx in ('alt', 'x'):
            if rnd.random() < 0.4:
                fams.append(sfx)
        if rnd.random() < 0.45:
            sfx = rnd.choice(SUFFIXES)
            fams.append(sfx)
            if rnd.random() < 0.6 and TWIN[sfx] in SUFFIXES:
                fams.append(TWIN[sfx])                     # the twin family: equal after lower-casing, another name in Python
        for sfx in dict.fromkeys(fams):
            for m in rnd.sample(ALLM, rnd.randint(1, 4)):
                attrs.add((m, sfx))
        if rnd.random() < 0.3:
            attrs.add(('WEBSOCKET', rnd.choice([None, 'alt'])))
        if rnd.random() < 0.08:
            attrs.add((rnd.choice(ALLM), ''))              # on_<m>_ (trailing underscore): reachable through no suffix at all
        nonc = set()
        for _ in range(rnd.choice([0, 0, 0, 1, 2])):
            c = (rnd.choice(ALLM), rnd.choice([None, 'alt', 'x'] + fams))
            if c not in attrs:
                nonc.add(c)
        rkind = rnd.choice(RES_KINDS)
        res = RES_CLS[rkind]()
        ctx.count(f'{stack}_resource_object_{rkind}')
        for m, sx in attrs:
            setattr(res, attr_name(m, sx), mk_responder(rid, m, sx))
        for m, sx in nonc:
            setattr(res, attr_name(m, sx), 'not callable')
        reg.resources[rid] = {'attrs': attrs, 'noncallable': nonc, 'kind': rkind}
        objs['res'][rid] = res
        fam_set = {sx for (_, sx) in attrs if sx}
        if any(a != b and a.lower() == b.lower() for a in fam_set for b in fam_set):
            ctx.count(f'{stack}_resource_with_twin_suffix_families_equal_after_lower_casing')
        reg.history.append(f'r{rid} = {rkind} object with ' + (', '.join(sorted(attr_name(m, sx) for m, sx in attrs)) or 'no responders'))
        return rid

    def families(reg, rid):
        return sorted({sx for (_, sx) in reg.resources[rid]['attrs'] if sx})

    def change_resource(reg, objs, rid):
        """the resource object gains and/or loses responders (a suffix family in use never loses its last member, so that every
        re-registration that follows is accepted)"""
        d = reg.resources[rid]
        res = objs['res'][rid]
        what = []
        todo = rnd.choice(['gain', 'gain', 'lose', 'lose', 'both'])
        if todo in ('lose', 'both'):
            for _ in range(rnd.randint(1, 2)):
                cands = sorted((c for c in d['attrs'] if c[1] is None or sum(1 for x in d['attrs'] if x[1] == c[1]) >= 2), key=str)
                if not cands:
                    break
                c = rnd.choice(cands)
                d['attrs'].discard(c)
                if rnd.random() < 0.5:
                    delattr(res, attr_name(*c))
                    what.append(f'lost {attr_name(*c)} (deleted)')
                else:
                    setattr(res, attr_name(*c), 'not callable any more')
                    d['noncallable'].add(c)
                    what.append(f'lost {attr_name(*c)} (now a non-callable attribute)')
        if todo in ('gain', 'both') or not what:
            for _ in range(rnd.randint(1, 2)):
                c = (rnd.choice(ALLM), rnd.choice([None, None] + families(reg, rid) + [rnd.choice(SUFFIXES)]))
                if c in d['attrs']:
                    continue
                d['attrs'].add(c)
                d['noncallable'].discard(c)
                setattr(res, attr_name(*c), mk_responder(rid, c[0], c[1]))
                what.append(f'gained {attr_name(*c)}')
        reg.history.append(f'r{rid} ' + ', '.join(what))
        return bool(what)

    def pick_suffix(reg, rid, avoid=()):
        """a suffix for add_route as an application may pass it"""
        fams = families(reg, rid)
        r = rnd.random()
        if r < 0.42:
            cand = None
        elif r < 0.47:
            cand = ''                                         # suffix='' : no suffix
        elif r < 0.9 or not fams:
            cand = rnd.choice(fams or ['alt'])
        else:
            f = rnd.choice(fams)                              # another spelling of a family the resource has: another name, maybe no responder at all
            cand = rnd.choice([TWIN.get(f, f.upper()), f.lower(), f.upper(), f.capitalize()])
        if cand in avoid:
            others = [x for x in [None] + fams if x not in avoid]
            if others:
                cand = rnd.choice(others)
        return cand

    def call_add_route(app, reg, objs, tm, rid, suffix, why):
        """one add_route call (on the app, or on the router the app was constructed with) -> accepted?"""
        d = reg.resources[rid]
        snapshot = frozenset(d['attrs'])
        target, on = app, 'app'
        if objs['router'] is not None and not asgi and rnd.random() < 0.4:
            target, on = objs['router'], 'router'               # a router handed to the constructor is the app's router
            ctx.count('route_added_on_the_explicit_router')
        how = 'omitted' if suffix is None and rnd.random() < 0.7 else 'given'
        rejected = False
        try:
            if how == 'omitted':
                target.add_route(tm, objs['res'][rid])
            else:
                target.add_route(tm, objs['res'][rid], suffix=suffix)
        except falcon.routing.util.SuffixedMethodNotFoundError:
            rejected = True
        reg.route_calls.append((tm, rid, suffix, snapshot))
        call = f"{on}.add_route({tm!r}, r{rid}" + ('' if how == 'omitted' else f', suffix={suffix!r}') + ')'
        reg.history.append(call + (' -> SuffixedMethodNotFoundError' if rejected else '') + f'   [{why}]')
        case = {'stack': stack, 'app': reg.describe(), 'template': tm, 'suffix': suffix, 'call': call}
        sess.case(case)
        sess.op(f"add combined={','.join(COMBINED)} regs={fmt_reg(tm, rid, suffix, snapshot)}", 'rejected' if rejected else 'ok')
        ctx.count(f'{stack}_add_route_suffix_' + ('None' if suffix is None else 'empty_string' if suffix == '' else
                                                  ('lower_case' if suffix == suffix.lower() else 'with_upper_case') + ('_with_digit_or_underscore' if not suffix.isalpha() else '')))
        if rejected:
            # documented: a suffix without any responder is rejected; the statement then has no (new) route
            ok = bool(suffix) and not any(sx == suffix for (_, sx) in snapshot)
            ctx.oracle('add_route(suffix=s) is rejected only when the resource has no on_*_s responder', ok,
                       None if ok else f'{call} was rejected although the resource has ' + ', '.join(sorted(attr_name(m, sx) for m, sx in snapshot if sx == (suffix or None))),
                       case)
            ctx.count('add_route_rejected_empty_suffix')
            return False
        reg.routes.append((tm, rid, suffix))
        objs['tmpl'][tm] = (rid, suffix)
        return True

    def register(app, reg, objs, counter):
        kind = rnd.choice(['route', 'route', 'route', 'sink', 'sink', 'static', 'static'])
        k = counter[0]
        counter[0] += 1
        if kind == 'route':
            cur = reg.current_routes()
            free = [t for t in TEMPLATES if t not in cur]
            if cur and (not free or rnd.random() < 0.4):
                # (10) a template that is registered already is registered AGAIN: the latest call defines the route
                tm = rnd.choice(sorted(cur))
                rid, sfx = cur[tm]
                mode = rnd.choice(['same_object_other_suffix', 'same_object_other_suffix', 'same_object_other_suffix', 'same_object_same_suffix',
                                   'same_object_changed', 'same_object_changed', 'same_object_changed', 'other_object', 'other_object'])
                if mode == 'same_object_other_suffix':
                    new = pick_suffix(reg, rid, avoid=(sfx,) if sfx else (None, ''))
                    if (new or None) == (sfx or None):
                        mode = 'same_object_same_suffix'
                    call_add_route(app, reg, objs, tm, rid, new, mode)
                elif mode == 'same_object_same_suffix':
                    call_add_route(app, reg, objs, tm, rid, sfx, mode)
                elif mode == 'same_object_changed':
                    change_resource(reg, objs, rid)
                    # every template the object is bound to is registered again, so that each route postdates the change
                    bound = [tm] + [t for t, (r2, _) in sorted(cur.items()) if r2 == rid and t != tm]
                    for t in bound:
                        old = cur[t][1]
                        fams = families(reg, rid)
                        keep = (not old) or old in fams
                        new = old if (keep and rnd.random() < 0.6) else rnd.choice([None] + fams)
                        call_add_route(app, reg, objs, t, rid, new, mode + ('' if (new or None) == (old or None) else '_and_other_suffix'))
                else:
                    others = sorted(r for r in reg.resources if r != rid)
                    rid2 = rnd.choice(others) if others and rnd.random() < 0.5 else new_resource(reg, objs, k)
                    call_add_route(app, reg, objs, tm, rid2, pick_suffix(reg, rid2), mode)
                ctx.count(f'{stack}_template_registered_again_{mode}')
                objs['rereg'].add(tm)
                return
            tm = rnd.choice(free)
            if reg.resources and rnd.random() < 0.25:
                rid = rnd.choice(sorted(reg.resources))       # the same resource under a second template
            else:
                rid = new_resource(reg, objs, k)
            call_add_route(app, reg, objs, tm, rid, pick_suffix(reg, rid), 'new template')
        elif kind == 'sink':
            r = rnd.random()
            flags = None
            if r < 0.3:
                px, flags, _ = rnd.choice(SINKS_FLAGGED)
            else:
                px = rnd.choice(SINKS_OPT) if r < 0.6 else rnd.choice(SINKS)
            how = rnd.random()
            if flags is not None:
                fl = 0
                for x in flags:
                    fl |= getattr(re, x)
                arg = re.compile(px, fl)                              # a precompiled pattern object WITH FLAGS
                if how < 0.3:
                    app.add_sink(prefix=arg, sink=mk_sink(k))
                else:
                    app.add_sink(mk_sink(k), arg)
                ctx.count(f'{stack}_add_sink_precompiled_with_flags_' + '|'.join(flags))
            elif px == '/' and how < 0.5:
                arg = '/'
                app.add_sink(mk_sink(k))                              # the documented default prefix
                ctx.count('add_sink_default_prefix')
            elif how < 0.3:
                arg = re.compile(px)
                flags = ()
                app.add_sink(mk_sink(k), arg)
            elif how < 0.45:
                arg = px
                app.add_sink(prefix=px, sink=mk_sink(k))
            else:
                arg = px
                app.add_sink(mk_sink(k), px)
            reg.sinks.append((px, k))
            reg.sinkarg[k] = arg
            reg.sinkflags[k] = flags
            reg.ops.append(f's{k}')
            reg.history.append(f'add_sink(s{k}, ' + ('re.compile(%r, %s)' % (px, '|'.join('re.' + x for x in flags) or '0') if flags is not None else repr(px)) + ')')
            objs['sinkre'][k] = reg.sink_pattern(k)
        else:
            px, dk, fb = rnd.choice(STATICS)
            app.add_static_route(px, os.path.join(root, dk), fallback_filename=fb)
            sr = CREATED[-1]
            sr.k = k
            objs['static'][k] = sr
            reg.statics.append((px, dk, fb, k))
            reg.ops.append(f't{k}')
            reg.history.append(f'add_static_route({px!r}, dir_{dk}, fallback_filename={fb!r})')

    def model_line(kind, reg, objs, route_info, method, path):
        hits = [f's{k}' for px, k in reg.sinks if objs['sinkre'][k].match(path)] + \
               [f't{k}' for px, dk, fb, k in reg.statics if objs['static'][k].match(path)]
        gi, grp = [], []
        for px, k in reg.sinks:
            pat = objs['sinkre'][k]
            if pat.groupindex:
                gi.append(f's{k}>' + ';'.join(f'{n}@{i}' for n, i in pat.groupindex.items()))
            mt = pat.match(path)
            if mt:
                took_part = [(i, mt.group(i)) for i in range(1, pat.groups + 1) if mt.group(i) is not None]
                took_part = [(i, esc(v)) for i, v in took_part]
                for i, v in took_part:
                    assert not (set(v) & set(' ;:|>,@\n\r\t')), v
                if took_part:
                    grp.append(f's{k}>' + ';'.join(f'{i}:{v}' for i, v in took_part))
        if route_info is None:
            rt, fields = '-', '-'
        else:
            tmpl, params = route_info
            rt = str(TEMPLATES.index(tmpl))
            fields = kwstr(params)
        # the model is handed the HISTORY of add_route calls (with the responders the resource object had at each call) and the
        # uri_template the router returned; which method map that template carries now is the model's business
        regs = '|'.join(fmt_reg(*c) for c in reg.route_calls) or '-'
        return (f"{kind} sbs={reg.ctor['sbs_arg']} ops={','.join(reg.ops) or '-'} route={rt} regs={regs} "
                f"combined={','.join(COMBINED)} hits={','.join(hits) or '-'} method={method} fields={fields} gi={'|'.join(gi) or '-'} grp={'|'.join(grp) or '-'}")

    class DummyWS:
        """Stands in for falcon.asgi.WebSocket when a responder returned by _get_responder is invoked directly."""

    def poison_resp(resp, poison):
        if poison is not None and not isinstance(resp, DummyWS):
            if poison[0] is not None:
                resp.status = poison[0]
            if poison[1] is not None:
                (resp.append_header if poison[1][0] == 'append_header' else resp.set_header)('Allow', poison[1][1])

    def observe_direct(app, kind, method, path, poison=None):
        """(A) App._get_responder on a real request object, then invoke what it returned - on a response object that carries what
        earlier stages left on it (`poison`: a status and / or an Allow header), if anything."""
        LOG.clear()
        exc = None
        allow = None
        if asgi:
            scope = ft.create_scope_ws(path=path) if kind == 'ws' else ft.create_scope(method=method, path=path)

            async def receive():
                return {'type': 'http.disconnect'}
            req = falcon.asgi.Request(scope, receive)
            responder, params, resource, tmpl = app._get_responder(req)
            resp = DummyWS() if kind == 'ws' else falcon.asgi.Response()
            poison_resp(resp, poison)

            async def call():
                await responder(req, resp, **params)
            try:
                arun(call())
            except falcon.HTTPError as e:
                exc = e
            except Exception as e:  # noqa  (e.g. a static route handed a WebSocket)
                exc = e
            if getattr(resp, 'stream', None) is not None and hasattr(resp.stream, 'close'):
                try:
                    arun(resp.stream.close())
                except Exception:  # noqa
                    pass
        else:
            req = falcon.Request(ft.create_environ(method=method, path=path))
            with alarm(30):
                responder, params, resource, tmpl = app._get_responder(req)
                resp = falcon.Response()
                poison_resp(resp, poison)
                try:
                    responder(req, resp, **params)
                except Exception as e:  # noqa  (anything but an HTTPError is an observation the oracle rejects, not a harness error)
                    exc = e
            if resp.stream is not None and hasattr(resp.stream, 'close'):
                resp.stream.close()
        if isinstance(exc, falcon.HTTPMethodNotAllowed):
            allow = split_allow(exc.headers.get('Allow'))
        elif exc is None and kind != 'ws':
            allow = split_allow(resp.get_header('Allow'))
        # a responder that returned without any generated responder / sink / static route having run is a framework-default one: the status it
        # leaves on the response is part of its answer
        status = None
        if exc is None and not LOG and kind != 'ws':
            status = int(falcon.code_to_http_status(resp.status)[:3])
        obs = classify(list(LOG), type(exc).__name__ if exc is not None else None, status, allow)
        return obs, resource, tmpl, params

    def observe_full(app, kind, method, path):
        """(B) the whole WSGI / ASGI application call."""
        LOG.clear()
        if not asgi:
            env = ft.create_environ(method=method, path=path)
            st = []
            with alarm(30):
                it = app(env, lambda s, h, e=None: st.append((s, h)))
                try:
                    for _ in it:
                        pass
                finally:
                    if hasattr(it, 'close'):
                        it.close()
            status = int(st[0][0].split()[0])
            hd = {}
            for hk, hv in st[0][1]:
                hd.setdefault(hk.lower(), []).append(hv)
            allow = split_allow(', '.join(hd['allow'])) if 'allow' in hd else None
            o = classify(list(LOG), None, status, allow)
            o['allow_raw'] = ', '.join(hd['allow']) if 'allow' in hd else None
            return o
        sent = []
        if kind == 'ws':
            scope = ft.create_scope_ws(path=path)
            events = [{'type': 'websocket.connect'}, {'type': 'websocket.disconnect', 'code': 1000}]
        else:
            scope = ft.create_scope(method=method, path=path)
            events = [{'type': 'http.request', 'body': b'', 'more_body': False}, {'type': 'http.disconnect'}]

        async def call():
            never = asyncio.get_running_loop().create_future()

            async def receive():
                if events:
                    return events.pop(0)
                await never

            async def send(e):
                sent.append(e)
            await app(scope, receive, send)
        crashed = None
        try:
            arun(call())
        except Exception as e:  # noqa
            crashed = e
            if kind != 'ws':
                raise
        if kind == 'ws':
            code = next((e.get('code', 1000) for e in sent if e['type'] == 'websocket.close'), None)
            status = {3404: 404, 3405: 405, 3400: 400}.get(code)
            return classify(list(LOG), None, status, None, allow_unobservable=True)
        start = next(e for e in sent if e['type'] == 'http.response.start')
        hd = {}
        for hk, hv in start['headers']:
            hd.setdefault(hk.decode('latin-1').lower(), []).append(hv.decode('latin-1'))
        allow = split_allow(', '.join(hd['allow'])) if 'allow' in hd else None
        o = classify(list(LOG), None, start['status'], allow)
        o['allow_raw'] = ', '.join(hd['allow']) if 'allow' in hd else None
        return o

    try:
        for ci in range(ctx.n(5000, 60000)):
            app, sbs, ctor, explicit_router = construct()
            reg = Reg(sbs, ctor)
            objs = {'res': {}, 'tmpl': {}, 'sinkre': {}, 'static': {}, 'router': explicit_router, 'rereg': set()}
            del CREATED[:]
            counter = [0]
            phases = [rnd.randint(0, 6), rnd.choice([0, 0, 1, 2, 3])]
            for ph, nreg in enumerate(phases):
                if ph == 1 and nreg == 0:
                    break
                for _ in range(nreg):
                    register(app, reg, objs, counter)
                for _ in range(rnd.randint(3, 5) if ph else rnd.randint(4, 6)):
                    path = rnd.choice(PATHS + ['/st/f.txt', '/s/x', '/s/y/z', '/st/nope', '/st2/f.txt', '/s', '/st', '/st2', '/st2/', '/s', '/q', '/'])
                    flagged = [k_ for k_, f_ in reg.sinkflags.items() if f_]
                    if flagged and rnd.random() < 0.4:
                        # a path on which the flags of a registered pattern object decide (other letter case, a newline, a non-ASCII word character / digit)
                        k_ = rnd.choice(flagged)
                        path = rnd.choice(next(ps for px_, fl_, ps in SINKS_FLAGGED if px_ == reg.sinkarg[k_].pattern and fl_ == reg.sinkflags[k_]))
                    elif rnd.random() < 0.04:
                        path = rnd.choice(FLAG_PATHS)
                    elif objs['rereg'] and rnd.random() < 0.5:
                        path = rnd.choice(sorted(objs['rereg'])).replace('{id}', rnd.choice(['7', 'x.y'])).replace('{top}', rnd.choice(['zz', 'a', 's', 'st']))
                    elif reg.routes and rnd.random() < 0.55:
                        path = rnd.choice(reg.routes)[0].replace('{id}', rnd.choice(['7', 'x.y'])).replace('{top}', rnd.choice(['zz', 'a', 's', 'st']))
                    method = rnd.choice(ALLM + ['GET', 'GET', 'GET', 'OPTIONS', 'OPTIONS', 'OPTIONS', 'OPTIONS', 'HEAD', 'FOO', 'WEBSOCKET'])
                    if reg.routes and rnd.random() < 0.4:
                        # a method some registration (the current one, or one that has been replaced since) implemented
                        tm, rid, sfx, snap = rnd.choice(reg.route_calls)
                        pool = sorted(m for (m, s) in (snap if rnd.random() < 0.5 else reg.resources[rid]['attrs']) if s == (sfx or None))
                        if pool:
                            method = rnd.choice(pool)
                    kind = 'ws' if (asgi and rnd.random() < 0.15) else 'http'
                    if kind == 'ws':
                        method = 'GET'
                    toggle(reg, objs)
                    truth = {r: bool(o) for r, o in objs['res'].items() if reg.resources[r]['kind'] != 'plain'}
                    case = {'stack': stack, 'app': reg.describe(), 'request': {'kind': kind, 'method': method, 'path': path},
                            'bool(resource) at request time': truth}
                    presets = reg.ctor.get('presets') or []
                    poison = None
                    if presets:
                        poison = (presets[0]['status'], presets[0]['allow'])
                    elif rnd.random() < 0.35:
                        poison = pick_preset()             # the responder object _get_responder returned, called on a response that is not pristine
                    if poison is not None:
                        case['response passed to the responder returned by App._get_responder carries'] = {'status': repr(poison[0]), 'Allow': poison[1]}
                    exp_get = reg.expect('ws' if kind == 'ws' else 'get', method, path)
                    exp_full = reg.expect(kind, method, path)
                    sess.case(case)
                    why = None
                    try:
                        oa, resource, tmpl, params = observe_direct(app, kind, method, path, poison)
                        # what the router answered is an input of the model
                        route_info = None
                        if resource is not None:
                            route_info = (tmpl, params)
                        mmeth = 'WEBSOCKET' if kind == 'ws' else method
                        sess.op(model_line('get', reg, objs, route_info, mmeth, path), render(oa))
                        # (an HTTP request naming the meta method never reaches _get_responder in the real call; the
                        #  statement is silent about the private method there, so only the correspondence looks at it)
                        why = None if (kind == 'http' and method in META) else judge(exp_get, oa, 'App._get_responder', preset=poison and {'status': poison[0], 'Allow': poison[1]})
                        if why is None and 'tmpl' in exp_get and tmpl != exp_get['tmpl']:
                            why = f'App._get_responder: uri_template {tmpl!r}, expected {exp_get["tmpl"]!r}'
                        ob = observe_full(app, kind, method, path)
                        if kind == 'http':
                            # what the earlier stages of THIS request leave on the response when the responder runs: the response_type initializer,
                            # then process_request (not reached by a meta method: the 400 is raised first), then process_resource if a route matched
                            pst, pal = 200, None
                            for by in ('response_type.__init__', 'process_request middleware', 'process_resource middleware'):
                                if (by == 'process_request middleware' and method in META) or (by == 'process_resource middleware' and (route_info is None or method in META)):
                                    continue
                                for p_ in presets:
                                    if p_['by'] == by:
                                        if p_['status'] is not None:
                                            pst = int(falcon.code_to_http_status(p_['status'])[:3])
                                        if p_['allow'] is not None:
                                            pal = (pal + ', ' + p_['allow'][1]) if (p_['allow'][0] == 'append_header' and pal is not None) else p_['allow'][1]
                            pre_w = f" pre={pst}:{'-' if pal is None else 'x' + pal.encode('utf-8').hex()}"
                            tail = ''
                            if ob['k'] in ('options', '405', '400', '404'):
                                tail = f" st={ob['status']} allow={'-' if ob.get('allow_raw') is None else ob['allow_raw'].encode('utf-8').hex()}"
                            sess.op(model_line('http', reg, objs, route_info, method, path) + pre_w, render(ob) + tail)
                        if why is None:
                            why = judge(exp_full, ob, f'full {stack} call', preset=[{'by': p_['by'], 'status': p_['status'], 'Allow': p_['allow']} for p_ in presets] or None)
                        okind = ob['k']
                    except Hang:
                        why = 'dispatch did not return (hang)'
                        okind = 'hang'
                    except (asyncio.TimeoutError, TimeoutError):
                        why = 'dispatch did not return (timeout)'
                        okind = 'hang'
                    ctx.oracle('dispatch: responder identity + kwargs, status and Allow are what the statement says (route > sink/static by recency in the configured order > 404; 405/OPTIONS exact; suffix isolation; WEBSOCKET is 400 over HTTP)',
                               why is None, why, case)
                    ctx.seen((stack, reg.sig(), kind, method, path), bool(reg.routes or reg.sinks or reg.statics))
                    ctx.count(f'{stack}_{kind}_{okind}')
                    ctx.count(f'{stack}_expected_{exp_full["k"]}')
                    if exp_full['k'] in ('options', '405', '404', '400') and kind == 'http':
                        live = [p_ for p_ in (reg.ctor.get('presets') or []) if p_['by'] != 'process_resource middleware' or 'tmpl' in exp_full]
                        if any(p_['status'] is not None for p_ in live):
                            ctx.count(f'{stack}_framework_default_{exp_full["k"]}_answer_after_an_earlier_stage_preset_the_status')
                        if any(p_['allow'] for p_ in live):
                            ctx.count(f'{stack}_framework_default_{exp_full["k"]}_answer_after_an_earlier_stage_preset_an_Allow_header')
                    if exp_get['k'] in ('options', '405', '404', '400') and case.get('response passed to the responder returned by App._get_responder carries'):
                        ctx.count(f'{stack}_responder_from_get_responder_{exp_get["k"]}_called_on_a_response_with_preset_status_or_Allow')
                    if 'tmpl' in exp_get:
                        rid_ = reg.current_routes()[exp_get['tmpl']][0]
                        if exp_get['tmpl'] in objs['rereg']:
                            ncalls = sum(1 for c in reg.routes if c[0] == exp_get['tmpl'])
                            same = len({c[1] for c in reg.routes if c[0] == exp_get['tmpl']}) == 1
                            ctx.count(f'{stack}_request_to_a_template_registered_{min(ncalls, 3)}{"+" if ncalls >= 3 else ""}_times_' + ('always_the_same_object' if same else 'different_objects'))
                            acc = [c for c in reg.route_calls if c[0] == exp_get['tmpl'] and (c[0], c[1], c[2]) in reg.routes]
                            if len(acc) >= 2:
                                sel = [(c[1], frozenset(m_ for (m_, s_) in c[3] if s_ == (c[2] or None)), c[2] or None) for c in acc[-2:]]
                                if sel[0][0] == sel[1][0] and sel[0] != sel[1]:
                                    ctx.count(f'{stack}_request_to_a_template_whose_latest_registration_selects_other_responders_of_the_SAME_object_than_the_one_before')
                        sx_ = exp_get.get('suffix') if exp_get['k'] == 'resource' else (reg.current_routes()[exp_get['tmpl']][1] or None)
                        if sx_ and any(sx_ != s2 and s2 and sx_.lower() == s2.lower() for (_, s2) in reg.resources[rid_]['attrs']):
                            ctx.count(f'{stack}_request_to_a_route_whose_suffix_has_a_twin_family_on_the_resource')
                        ctx.count(f'{stack}_request_to_a_route_whose_resource_is_' + ('truthy' if bool(objs['res'][rid_]) else 'FALSY') + f'_{reg.resources[rid_]["kind"]}')
                    if exp_full['k'] == 'sink':
                        pat = objs['sinkre'][exp_full['id']]
                        mt = pat.match(path)
                        if reg.sinkflags[exp_full['id']]:
                            ctx.count(f'{stack}_chosen_sink_is_a_pattern_object_with_flags')
                        vals_ = list(exp_full['kw'].values())
                        if not pat.groupindex:
                            shape = 'pattern_without_named_groups'
                        elif all(v is not None for v in vals_):
                            shape = 'every_named_group_took_part'
                        elif any(v is not None for v in vals_):
                            shape = 'some_named_groups_are_None'
                        elif mt.lastindex is None:
                            shape = 'all_named_groups_None_and_no_group_took_part'
                        else:
                            shape = 'all_named_groups_None_but_an_unnamed_group_took_part'
                        ctx.count(f'{stack}_sink_kwargs_{shape}')
                        if '' in vals_:
                            ctx.count(f'{stack}_sink_kwargs_with_an_empty_string_value')
                    for k_, f_ in reg.sinkflags.items():
                        if f_:
                            p1, p0 = reg.sinkarg[k_], re.compile(reg.sinkarg[k_].pattern)
                            m1, m0 = p1.match(path), p0.match(path)
                            if bool(m1) != bool(m0) or (m1 and m1.groupdict() != m0.groupdict()):
                                ctx.count(f'{stack}_request_path_on_which_the_flags_of_a_registered_pattern_object_decide')
                                if exp_full['k'] == 'sink' and exp_full['id'] == k_ or not m1 and exp_full['k'] != 'resource' and 'tmpl' not in exp_full:
                                    ctx.count(f'{stack}_request_whose_outcome_may_depend_on_those_flags')
                                break
                    if exp_full['k'] in ('sink', 'static'):
                        nm = sum(1 for px, k in reg.sinks if reg.sink_pattern(k).match(path)) + sum(1 for px, dk, fb, k in reg.statics if reg.static_matches(px, fb, path))
                        ctx.count(f'{stack}_fallback_with_{min(nm, 3)}{"+" if nm >= 3 else ""}_matching_entries')
                        if any(reg.sink_pattern(k).match(path) for px, k in reg.sinks) and any(reg.static_matches(px, fb, path) for px, dk, fb, k in reg.statics):
                            ctx.count(f'{stack}_fallback_sink_and_static_both_match_sbs={int(reg.sbs)}')
    finally:
        BASE._STATIC_ROUTE_TYPE = saved_static_type
        if loop is not None:
            loop.close()
    sess.finish()


LEVEL_TEXT = ('Machine-checked proofs (Lean 4) about a model of add_route (map_http_methods + set_default_responders, with suffixes; the node override of CompiledRouter.add_route over whole registration histories), add_sink, add_static_route, '
              '_update_sink_and_static_routes and App._get_responder / the meta-method guard of App.__call__: a route masks every sink and static route; '
              'without a route the first matching entry of the configured order is chosen and 404 iff none matches; after any registration history the order is '
              'sinks by recency then static routes by recency (or swapped); the Allow sets of the automatic OPTIONS and 405 responders are exact for every set of '
              'implemented methods (WEBSOCKET never leaks); suffixed routes reach only suffixed responders (suffix compared verbatim, empty = none); after any history of add_route calls a template answers from the method map of its latest accepted registration, also when the same object is registered again; kwargs are the template fields / groupdict() of the chosen sink\'s match - every named group of its prefix pattern, None for groups that did not take part, '
              'also when no group took part at all; the constructor default of sink_before_static_route is True; '
              'WEBSOCKET over HTTP is 400; the status and the Allow header of the answers of the framework itself (automatic OPTIONS 200, 405, 400, 404) are exact for every state an earlier stage (process_request / process_resource middleware, a custom response_type) left on the response (Dp.answer). The model is tied to falcon on every run: generated WSGI and ASGI apps built through falcon.App, falcon.API, falcon.asgi.App and subclasses with every constructor option omitted / by keyword / positional, each request observed on the responder returned by '
              '_get_responder and through the full application call, compared with the compiled model, and judged by an independent oracle written from the statement.')
LEVEL_NOTE = ('Trusted: Lean kernel + standard axioms; re and StaticRoute.match as table inputs; the router (C01) as an input; correspondence harness and oracle. '
              'Sortedness of Allow is carried by the correspondence only.')
TECHNIQUE = 'Lean 4 proofs on a dispatch model + differential correspondence model vs. real WSGI/ASGI apps + statement oracle on recorded responder identity/kwargs/status/Allow'

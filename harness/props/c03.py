"""C03 - middleware, hooks and responder run in the documented stack order, once each; ASGI lifespan order."""
import os as _os
import sys as _sys

# Responders for custom HTTP methods exist only if FALCON_CUSTOM_HTTP_METHODS is set when falcon is imported (falcon/constants.py reads it
# at import time).  The runner's worker imports this module BEFORE anything imports falcon (falcon is only imported inside run()), so the
# variable is set here; run() verifies that falcon picked it up and says so in the evidence if it did not.
CUSTOM_METHODS = ['PURGE', 'SUBSCRIBE']
_FALCON_PRELOADED = 'falcon' in _sys.modules
_os.environ['FALCON_CUSTOM_HTTP_METHODS'] = ','.join(CUSTOM_METHODS)

PROP = 'C03'
LEAN_MODULES = ['FalconModel.PipelineProofs', 'FalconModel.PipelineSpec', 'FalconModel.PipelineErrProofs', 'FalconModel.HooksLifespanProofs',
                'FalconModel.PipelineHooksProofs', 'FalconModel.PipelineRegProofs', 'FalconModel.PrepareMwProofs',
                'FalconModel.ErrHandlers', 'FalconModel.ErrHandleProofs']
DRIVERS = ['pldriver', 'hkdriver', 'phdriver', 'pgdriver', 'ehdriver']
THEOREMS = [
    # falcon/app.py + falcon/asgi/app.py __call__, falcon/app_helpers.py prepare_middleware (model Pl.run)
    'Pl.respLoop_idx', 'Pl.reqIndep_noResp', 'Pl.rsrcLoop_noResp', 'Pl.reqDep_noResp', 'Pl.reqDep_stack', 'Pl.reached_sub',
    'Pl.find_self', 'Pl.enum_nodup',
    'Pl.independent_resp_once', 'Pl.dependent_resp_stack',
    # the WHOLE call trace equals the documented discipline (FalconModel/PipelineSpec.lean)
    'Pl.run_eq_spec', 'Pl.respLoop_eq_spec', 'Pl.withFlags_flag', 'Pl.reqDep_topdown', 'Pl.reqDep_done', 'Pl.reqIndep_flags', 'Pl.rsrcLoop_flags', 'Pl.stopAct_ne_ret',
    'Pl.reqIndep_topdown', 'Pl.rsrcLoop_topdown', 'Pl.first_resp_flag',
    # the refinement with error handlers, escapes and the final status (model Pe.run, FalconModel/PipelineErr.lean):
    # falcon/app.py + falcon/asgi/app.py __call__ with every `except` block, and _handle_exception
    'Pe.run_refines_Pl', 'Pe.run_prefix_Pl', 'Pe.run_eq_specTrace', 'Pe.run_refines_Pl_of_benign', 'Pe.benign_not_escaped', 'Pe.run_abs', 'Pe.tries_abs',
    'Pe.reqIndep_abs', 'Pe.reqDep_abs', 'Pe.rsrcLoop_abs', 'Pe.respLoop_abs',
    'Pe.handler_called_once_per_raise_at_its_site', 'Pe.handle_once', 'Pe.handle_escapes', 'Pe.labels_correct',
    'Pe.unhandled_propagates_and_stops', 'Pe.escape_iff', 'Pe.run_stops', 'Pe.respLoop_stops',
    'Pe.succeeded_iff_nothing_raised', 'Pe.run_flags', 'Pe.respLoop_flags',
    'Pe.handled_raise_continues_response_phase', 'Pe.resp_call_at', 'Pe.respLoop_call_at', 'Pe.tries_order_independent',
    'Pe.run_decomp', 'Pe.tries_shape', 'Pe.handle_agrees_Eh',
    # falcon/hooks.py (model Hk.wrap) and the lifespan loop of falcon/asgi/app.py (model Hk.lifespan)
    'Hk.runUntil_snoc', 'Hk.wrap_eq_spec', 'Hk.before_outermost_first', 'Hk.after_innermost_first', 'Hk.hook_raise_skips_rest',
    'Hk.startLoop_eq', 'Hk.stopLoop_eq', 'Hk.lifespan_eq_spec', 'Hk.startup_in_order', 'Hk.shutdown_in_reverse',
    'Hk.first_failure_reported_and_stops',
    # the pipeline with the falcon.before/after-wrapped responder spelled out and resp.complete threaded through every callee and every
    # error handler (model Ph.run, FalconModel/PipelineHooks.lean): falcon/hooks.py _wrap_with_before/_wrap_with_after inside __call__
    'Ph.hook_order', 'Ph.hook_called_iff', 'Ph.hook_trace', 'Ph.hook_trace_prefix', 'Ph.responder_called_iff', 'Ph.after_called_iff',
    'Ph.decorateAll_runSeq', 'Ph.wrapBefore_runSeq', 'Ph.wrapAfter_runSeq', 'Ph.runSeq_append', 'Ph.runSeq_trace', 'Ph.runSeq_exc', 'Ph.cut_getElem', 'Ph.cut_prefix',
    'Ph.hookSeq_order', 'Ph.slot_subtrace', 'Ph.slot_subtrace_routed', 'Ph.slot_called_iff', 'Ph.hook_complete_inert',
    'Ph.hooks_refine_pe', 'Ph.tries_flat', 'Ph.afterReq_flat', 'Ph.tryBody2_flat', 'Ph.responderOf_flat', 'Ph.respLoop_flat', 'Ph.reqIndep_flat', 'Ph.reqDep_flat',
    'Ph.rsrcLoop_flat', 'Ph.handle_flat', 'Ph.firstRaise_net',
    'Ph.handler_complete_inert', 'Ph.final_complete_eq', 'Ph.tries_cp', 'Ph.respLoop_cp', 'Ph.handle_cp', 'Ph.runSeq_cp',
    'Ph.escape_iff', 'Ph.net_raise_iff', 'Ph.responder_label', 'Ph.calls_eq_spec', 'Ph.calls_prefix_spec', 'Ph.calls_expand',
    'Ph.independent_resp_once', 'Ph.dependent_resp_stack', 'Ph.succeeded_iff_nothing_raised', 'Ph.run_flags', 'Ph.FlagsOk_expand',
    'Ph.handler_called_once_per_raise_at_its_site', 'Ph.WH_cut', 'Ph.WH_expand_block',
    # the REGISTRATION TABLE of error handlers as an input (model Pg, FalconModel/PipelineReg.lean): _error_handlers / add_error_handler /
    # _find_error_handler / _handle_exception at the level of exception classes, abstracted to the alphabet of Pe / Ph
    'Pg.one_lookup', 'Pg.handler_called_at_most_once', 'Pg.status_raised_by_handler_is_composed', 'Pg.http_raised_by_handler_is_composed',
    'Pg.reraised_status_is_composed', 'Pg.reraised_http_is_composed', 'Pg.other_raised_by_handler_propagates',
    'Pg.find_http', 'Pg.find_status', 'Pg.find_app_own', 'Pg.find_app_plain', 'Pg.find_baseOnly', 'Pg.exception_handler_not_for_http',
    'Pg.handle_resolve', 'Pg.handle_resolve_ph', 'Pg.resolve_default', 'Pg.escapes_iff',
    'Pg.run_trace', 'Pg.run_outcome', 'Pg.run_handler_once_per_raise', 'Pg.run_escape_iff', 'Pg.run_handler_count',
    # falcon/app_helpers.py prepare_middleware (model Pm, FalconModel/PrepareMw.lean): how the three HTTP methods of a component are found
    # (per method: *_async or plain), the compatibility checks, the three stacks
    'Pm.lookup_async_wins', 'Pm.lookup_plain_when_no_async', 'Pm.lookup_wsgi_plain_only', 'Pm.lookup_isSome', 'Pm.prepare_ok', 'Pm.prepare_ok_iff',
    # _find_error_handler over an ARBITRARY method resolution order (the C04 model Eh.find, reused: the raised class has a generated hierarchy)
    'Eh.latest_registration_wins', 'Eh.find_most_specific', 'Eh.find_none_iff',
]
STATEMENTS = {
    'Eh.find_most_specific': '_find_error_handler returns h iff some class of the MRO is registered with h and no class before it in the MRO is registered at all (any linearisation: several bases, diamonds, mixins)',
    'Eh.find_none_iff': 'no handler is found iff no class of the MRO is registered',
    'Eh.latest_registration_wins': 'after add_error_handler(c, h) the registry maps c to h, whatever was registered before',
    'Pl.run_eq_spec': 'for every stack of components, every assignment of return / complete / raise to every method and to the responder, every routing outcome (route, 405, sink, 404) and both middleware modes, the whole sequence of calls the framework makes - including the (resource, req_succeeded) arguments of every process_response - equals specTrace: request methods top-down until one completes or raises; resource methods only after a route match when nothing completed or raised; the responder only if nothing completed or raised; then process_response bottom-up once each (dependent mode: only the components reached), the success flag true iff nothing raised so far',
    'Pl.withFlags_flag': 'the j-th process_response call gets req_succeeded = (nothing raised before the response phase) and no earlier process_response raised',
    'Pl.independent_resp_once': 'independent_middleware=True: for every stack, route target and action (return / complete / raise) at every call site, the process_response calls in the trace are exactly the components that define it, once each, in reverse registration order',
    'Pl.dependent_resp_stack': 'independent_middleware=False: the process_response calls are exactly the components before the first process_request that ran and raised (those skipped because an earlier one completed included), once each, in reverse order, whatever later stages do',
    'Pl.reqIndep_topdown': 'the independent request loop calls the process_request methods in registration order and stops right after the first one that completes or raises',
    'Pl.rsrcLoop_topdown': 'the resource loop calls the process_resource methods in registration order and stops right after the first one that completes or raises',
    'Pl.first_resp_flag': 'if the response loop starts with success flag s, the first process_response call it makes carries s (the flag computed from "nothing raised so far")',
    'Pe.run_refines_Pl': 'the refined model Pe.run transcribes __call__ with its three kinds of except blocks and _handle_exception (actions: return / complete / raise HTTPError / raise HTTPStatus / raise an application error whose handler sets the response, is falcon\'s default, raises HTTPError, raises HTTPStatus, raises a plain exception, or does not exist); whenever no exception leaves __call__, its calls - handler invocations and falcon\'s own 404/405 responder left out, every raise mapped to the single raise_ of Pl - are exactly Pl.run of the abstracted configuration, so Pl.run_eq_spec and every Pl theorem describe them',
    'Pe.run_prefix_Pl': 'and when an exception does leave __call__ the calls made are an initial part of Pl.run: nothing out of order, nothing twice',
    'Pe.run_refines_Pl_of_benign': 'if no method of the configuration raises an error without handler or with a handler raising a plain exception, the run never escapes, produces a response, and its calls equal Pl.run',
    'Pe.handler_called_once_per_raise_at_its_site': 'the whole trace equals its calls with, right after each call, what _handle_exception invokes for what that call raised: exactly one handler event carrying that error and that site if the call raised an error for which a handler exists (Pe.handle_once), nothing otherwise - so no handler runs without a raise, none runs twice, none runs late',
    'Pe.labels_correct': 'every call in the trace is labelled with the action the configuration assigns to that very method (component i\'s process_request/resource/response, the application responder, falcon\'s 404/405 responder)',
    'Pe.unhandled_propagates_and_stops': 'if a call raises an error that has no handler, or whose handler raises a plain exception, then after it the trace contains only that handler\'s invocation (if there is a handler) and ends - no further process_response, no responder - and the outcome is `escaped` (nothing is sent)',
    'Pe.escape_iff': 'the request escapes iff some call that was actually made raised an error that has no handler or whose handler raised a plain exception',
    'Pe.succeeded_iff_nothing_raised': 'at whatever position of the trace a process_response call stands, its req_succeeded argument is true iff no earlier call of the trace raised (request/resource method, responder, falcon\'s 404/405 responder, an earlier process_response), handled or not',
    'Pe.resp_call_at': 'the k-th method of the response stack is called - with req_succeeded true iff nothing raised before it - provided the earlier phases did not escape and none of the first k process_response methods raises an escaping error; earlier ones that raise handled errors do not stop the loop',
    'Pe.handled_raise_continues_response_phase': 'if the k-th process_response raises an error that is handled (handler exists and raises at most HTTPError/HTTPStatus) the (k+1)-th method of the stack is still called, with req_succeeded = False',
    'Pe.handle_agrees_Eh': 'Pe.handle and the C04 model Eh.handle of _handle_exception agree on whether the exception leaves __call__',
    'Hk.wrap_eq_spec': 'for every stacking of before/after decorators (outermost first) and every action per hook: the calls made by the wrapped responder are the before hooks outermost-first, the responder, the after hooks innermost-first, cut right after the first raise',
    'Hk.before_outermost_first': 'the before hooks that run are a prefix of the decorator list order',
    'Hk.after_innermost_first': 'the after hooks that run are a prefix of the reversed decorator list order',
    'Hk.hook_raise_skips_rest': 'if a before hook raises, neither the responder nor any after hook runs',
    'Hk.lifespan_eq_spec': 'the lifespan loop equals: startup handlers in order until the first failure, then (only if none failed) startup.complete and shutdown handlers in reverse order until the first failure',
    'Hk.startup_in_order': 'process_startup calls are a prefix of the registration order of the components defining it',
    'Hk.shutdown_in_reverse': 'process_shutdown calls are a prefix of the reversed registration order',
    'Hk.first_failure_reported_and_stops': 'a failing process_startup yields exactly one lifespan.startup.failed event and no shutdown handler ever runs',
    'Ph.hook_order': 'the routed responder - the method wrapped by its own decorators and then by the class-level ones, each wrapper being _wrap_with_before / _wrap_with_after of falcon/hooks.py as a higher-order function - behaves, for every value of resp.complete at entry and every action (return / complete / raise any error kind of Pe) of every hook, exactly like making the calls of hookSeq in order until one raises: before hooks outermost->innermost (class-level first), the responder, after hooks innermost->outermost (class-level last); same events, same resp.complete afterwards, same exception with the raising hook as its site',
    'Ph.hook_called_iff': 'in every run of the routed responder the j-th call of the documented order is made, at position j, iff every call before it in that order returned (marking the response complete counts as returning: hooks never read resp.complete)',
    'Ph.responder_called_iff': 'the responder is called iff all before hooks (class- and method-level) returned',
    'Ph.after_called_iff': 'the i-th after hook (innermost first) is called iff all before hooks, the responder and the after hooks inside it returned',
    'Ph.hook_complete_inert': 'turning every `complete` of a hook stack into `return` does not change which calls are made',
    'Ph.hooks_refine_pe': 'Ph.run transcribes __call__ + _handle_exception with the hook-wrapped responder in the responder slot and resp.complete as a state variable written by middleware methods, hooks, the responder and application error handlers and read at the five places the code reads it; its trace equals the trace of Pe.run of the flattened configuration (hook-wrapped responder := its net effect: what its first raising part raises, else complete if a part completes, else return) in which the one `responder` event is replaced by the hook sub-trace cut(hookSeq) and the handler invoked for the responder\'s error carries the raising hook as site; every other event and the outcome (status / escaped) are identical - so a hook\'s exception is handled in the same _handle_exception window as the responder\'s and every Pe / Pl theorem applies to stacks with hooks',
    'Ph.handler_complete_inert': 'whichever application error handlers execute resp.complete = True, the calls, handler invocations and outcome of the run are the same: on both stacks nothing that runs after an except clause of __call__ reads resp.complete (the else block is skipped, the response loop never looks at it)',
    'Ph.final_complete_eq': 'the final value of resp.complete is true iff some call that was made (middleware method, hook, responder) or some application error handler that was invoked executed resp.complete = True - so the handler\'s flag is recorded, just never consulted',
    'Ph.escape_iff': 'with hooks: the request escapes iff some call actually made - a hook included - raised an error that has no handler or whose handler raised a plain exception',
    'Ph.calls_eq_spec': 'with hooks, whenever no exception leaves __call__: the calls into the application (handler invocations and falcon\'s 404/405 responder left out) are Pl.specTrace - the documented discipline - of the flattened configuration with the responder of a matched route replaced by its hook sub-trace',
    'Ph.calls_prefix_spec': 'and an initial part of that when an exception does leave __call__',
    'Ph.independent_resp_once': 'independent mode with hooks: unless an exception escapes, every component defining process_response has it called exactly once, in reverse registration order, whatever hooks and responder do',
    'Ph.dependent_resp_stack': 'dependent mode with hooks: unless an exception escapes, the process_response calls are exactly the components before the first process_request that ran and raised, once each, in reverse order',
    'Ph.succeeded_iff_nothing_raised': 'with hooks: the req_succeeded argument of a process_response call at any position is true iff no earlier call of the trace raised - a before hook, the responder or an after hook included',
    'Pg.one_lookup': '_handle_exception, for every registration table (the application\'s own handlers for HTTPStatus / HTTPError / Exception on top of falcon\'s three, a handler for the raised class itself) and every raised class: the handlers it calls are exactly the ONE that _find_error_handler returns (none if it returns None) - whatever that handler does',
    'Pg.status_raised_by_handler_is_composed': 'if the handler found raises HTTPStatus, that handler is the only one called and the outcome is the composed status response - also when the application registered its own handler for HTTPStatus (or HTTPError, or Exception): what a handler raises is never given to the table again',
    'Pg.reraised_status_is_composed': 'a handler registered for HTTPStatus that re-raises what it got (`raise ex`) is called once; the same HTTPStatus is composed',
    'Pg.other_raised_by_handler_propagates': 'anything else a handler raises leaves __call__',
    'Pg.handle_resolve': '_handle_exception at the level of classes + registration table is Pe.handle of the resolved exception (Pg.resolve: the abstraction to the alphabet of Pe / Ph): the same number of handler invocations (0 or 1), the same composed status / escape - so Pg.run := Ph.run of the resolved configuration, and every Pe / Ph / Pl theorem holds for every registration table',
    'Pg.resolve_default': 'with nothing registered on top of the defaults the abstraction is the alphabet Pe was written for',
    'Pg.exception_handler_not_for_http': 'a handler registered for Exception is never the one found for an HTTPError or an HTTPStatus (most specific class first)',
    'Pg.run_handler_once_per_raise': 'for every registration table: the trace is its calls with, right after each call, the one handler invocation that belongs to what that call raised - no handler is invoked for what a handler raised',
    'Pm.prepare_ok': 'prepare_middleware, when every component is accepted: each of the three stacks is a function of the attributes of ITS method alone, component by component - the resource stack lists in registration order the components that have process_resource in some accepted spelling (ASGI: process_resource_async, else a plain coroutine process_resource; WSGI: the plain one), whatever spelling the same component uses for its other methods; likewise the request stack (dependent mode: the (request, response) pairs) and the response stack (independent mode: reverse registration order)',
    'Pm.prepare_ok_iff': 'construction succeeds iff every component is accepted: no method found in a spelling of the wrong kind (ASGI: a sync function, WSGI: a coroutine function) and at least one HTTP method - or, on ASGI, a lifespan / WebSocket method',
    'Pm.lookup_async_wins': 'ASGI: when a component has both process_x_async and process_x the *_async one is used, whatever the plain one is',
    'Pm.lookup_isSome': 'ASGI: a method is on its stack iff the component has it in EITHER spelling; WSGI: iff it has the plain one',
    'Ph.handler_called_once_per_raise_at_its_site': 'with hooks: the trace is its calls with, right after each call, what _handle_exception invokes for what that call raised - one handler event carrying that error and that very call (hook k, responder, middleware method) as site, nothing if it did not raise or no handler exists',
}
TRUSTED = [
    'getattr-based method discovery of falcon.util.get_bound_method (an attribute is a bound coroutine / sync function or absent: the input of Pm.run) and of falcon.hooks (exercised, not modelled)',
    'Pg.resolve is the abstraction from (raised class, registration table) to the alphabet of Pe / Ph; it is proved exact for _handle_exception (Pg.handle_resolve) and the Pg.run correspondence compares the full trace, naming WHICH registered handler is invoked',
    'the mapping of the harness\'s raising actions to the single `raise_` action of Pl.run in the first correspondence (proved sound for the model side: Pe.run_refines_Pl); the second correspondence (Pe.run) uses the full alphabet',
    'falcon\'s own default error handlers and its 404/405 responders cannot be observed through the public API: the model\'s events for them are not compared, their effect is compared through the final status (and by C04)',
    'in the Pl.run / Pe.run correspondences the hook-wrapped responder is one responder action (what its first raising part does, else complete, else return) - proved sound: that is Ph.flatten, and Ph.hooks_refine_pe relates the two runs; the Ph.run correspondence compares the full trace with every hook event',
    'final resp.complete is read off the Response object the generated callees received (not observable by a server)',
    'a static route is falcon\'s own responder: a recording subclass (installed as _STATIC_ROUTE_TYPE while add_static_route runs) notes `responder` when it returned normally; for the models a static route that serves is a passive sink, one that finds no file is the unrouted 404',
    'Python argument binding of the app constructors and add_middleware are not modelled: the models receive the mode the test author configured (True when independent_middleware was left out - the documented default) and the components in the documented order',
]
ASSUMPTIONS = [
    'an exception that no handler takes - a BaseException-only raise (not caught by falcon by design), or whatever an error handler raises other than HTTPError/HTTPStatus (falcon documents only these as raisable from handlers) - propagates to the server and ends the sequence: the "once each" part of the property is read as "up to that point" (Pe.run_prefix_Pl, Pe.unhandled_propagates_and_stops)',
    'components, hooks and responders either return, complete or raise (not complete-then-raise); error handlers may set resp.complete (Ph.run)',
    'which error handlers execute resp.complete = True is chosen per handler BEHAVIOUR (sets / raises HTTPError / raises HTTPStatus / raises a plain exception - the alphabet of Ph.handlerCompletes): a handler registered for HTTPStatus / HTTPError / Exception '
    'does so iff the application-class handler of the same behaviour does; a handler re-raising an HTTPError / HTTPStatus never does (it resolves to the framework composing that very exception), re-raising anything else counts as raising a plain exception',
    'an HTTPError / HTTPStatus re-raised by the handler that was called for it is "an HTTPError / HTTPStatus raised by a handler": composed (docs/api/app.rst add_error_handler; what the unchanged tree does on both stacks and what tests/test_error_handlers.py::test_catch_http_no_route_error relies on)',
    'hooks are applied to resource responders (falcon.before/after do not apply to sinks)',
    'FALCON_CUSTOM_HTTP_METHODS=PURGE,SUBSCRIBE in every worker (set by harness/props/c03.py before falcon is imported; falcon reads it at import time); if falcon does not list them in COMBINED_METHODS the run says so in its notes and leaves custom methods out',
    'WebSocket handshakes: components, hooks and the responder either return or raise (HTTPForbidden, or an application error taken by falcon\'s default handler); the responder accepts the connection and returns',
]
RULE = ('[two dimensions added after seeds C03_16 / C03_17: (i) THE SHAPE OF THE CLASS HIERARCHY OF WHAT IS RAISED (case key `hier`, action `mi`): the raised class has a generated hierarchy - several bases '
        '(application base first / a falcon HTTPError or HTTPStatus subclass first), two plain exception bases, diamonds, a mixin that is not an exception, BaseException-only - and handlers are registered for any of its classes '
        '(the raised class, its first base, a later base, ancestors of either, a common ancestor, built-in / falcon classes it derives from, classes outside its MRO, the same class twice); enumerated: 19 hierarchy templates x '
        '{no registration, every single class of the MRO, every pair, every class twice} x WSGI+ASGI with the handler behaviour, raising site (middleware methods, responder, hooks), mode and a table entry rotated (thorough: every site); '
        'random: 12 % of the random cases carry a random hierarchy of 2-6 classes with 0-3 bases each. The oracle linearises the hierarchy itself (C3 on the class names) and demands the handler of the most specific registered class '
        'of that MRO, latest registration winning; the real _find_error_handler is compared with Eh.find over type(ex).__mro__[:-1], and Pl / Pe / Ph / Pg.run are given the MRO-based choice as the handler that is found; '
        '(ii) LIFESPAN HISTORIES: half of the lifespan runs call add_middleware AFTER the server opened the lifespan scope (the app coroutine is waiting in receive()): before the startup event is delivered, from inside a process_startup handler, '
        'between startup and shutdown (0-2 components each, bare or as one-element list); the oracle reads the documented discipline on the stack as it stands when each event is processed; Hk.lifespan gets the final stack, a component that was '
        'not there at startup being one without process_startup] '
        '[two dimensions added after seeds C03_13 / C03_15: (A) HOW THE APP OBJECT IS CONSTRUCTED (case keys `entry`, `mode_arg`, `mw_arg`): through every public constructor name - falcon.App, the deprecated alias falcon.API, '
        'falcon.asgi.App and a user subclass of each -, independent_middleware given by keyword, positionally or LEFT OUT (then the documented default, True, must be in force: the oracle and the models are told `independent`), the components handed to '
        'the constructor (keyword / positional) or added afterwards with add_middleware (all at once, one by one as bare components / one-element lists, or half and half); enumerated: 6 names x 5 ways of giving the mode x 5 ways of giving the components x '
        '{nothing raises, HTTPError / handled app error at process_request of the 1st / 2nd / 3rd component, at a process_resource, the responder, a process_response} x {route, unrouted} on a 4-component stack; random: 50 % of the cases name an entry point, '
        '50 % of the independent ones leave the mode out, 35 % give the components another way; (B) REQUEST TARGETS THAT ARE NOT ROUTES (case key `target`): besides sink and unrouted a STATIC ROUTE serving an existing file, a fallback file, or no file (404), '
        'with process_resource components in the stack; enumerated: 7 targets x 4 stacks containing process_resource methods x what the first of them would do if called {return, complete, HTTPError, handled app error} x both modes x WSGI+ASGI; random: 27 % of the cases; '
        'the `resource` argument of every process_resource / process_response / process_resource_ws call is compared by identity with the object given to add_route (None when no route matched): resource methods run only after a successful ROUTE match; '
        'for a static route that serves while every method just returns the body must be the file] '
        '[two dimensions added after seeds C03_11 / C03_12: (a) the SPELLING of each HTTP middleware method is chosen PER METHOD inside one component (case key `spell`; `variant` was one spelling per component): '
        'ASGI {absent, plain coroutine, *_async next to a sync function of the plain name, *_async alone, *_async next to a plain coroutine - documented: the *_async one is the ASGI version}, '
        'WSGI {absent, absent but with an *_async version (ignored on WSGI), plain sync, plain sync next to an *_async coroutine}; enumerated: every combination over the three methods for a single component '
        '(124 ASGI + 56 WSGI), alone and between two full components x both modes x {route, unrouted} x fault-free and a raise at each of its methods; random: 35 % of the components of random stacks; '
        'and falcon.app_helpers.prepare_middleware itself on generated component objects (each of the six attributes absent / coroutine function / sync function - the rejected combinations included - '
        'with or without a lifespan method: every single component x ASGI/WSGI, random stacks of 1-4) compared with the model Pm.run; '
        '(b) the REGISTRATION TABLE of error handlers is an input (case key `handlers`): the application\'s own handlers registered for falcon.HTTPStatus / falcon.HTTPError / Exception themselves (replacing falcon\'s '
        'default ones), each {sets the response, raises a new HTTPError, raises a new HTTPStatus, re-raises what it got, raises a plain exception}; a new application class whose own handler re-raises (app_hr); '
        'falcon\'s own 404 / 405 go through the table like every HTTPError; enumerated: all 216 tables x what is raised {HTTPError, HTTPStatus, application class without handler, the five application classes with own handlers, '
        'falcon\'s 404, falcon\'s 405, nothing} x WSGI+ASGI between two full components, the raising site (process_request / process_resource of either component, responder, before hook, after hook, process_response of either) '
        'and the mode rotated (thorough: every site x both modes); random: 35 % of the random cases carry a table of 1-3 entries. The oracle reads the documented discipline: the handler registered for the most specific '
        'class of what was RAISED INTO THE FRAMEWORK is called once; what a handler raises is composed (HTTPError / HTTPStatus) or propagates and is never looked up in the table; both stacks. The model Pg.run '
        '(classes + table, resolved to Ph.run) predicts every call, WHICH handler is invoked at which site, status / escape, resp.complete] '
        'stacks of 0..5 middleware components, each implementing any non-empty subset of process_request/process_resource/process_response '
        '(ASGI: plain coroutine names, *_async next to a sync decoy, or *_async alone; WSGI: sync names, with or without an async *_async decoy) '
        'AND any subset of the lifespan / WebSocket methods process_startup, process_shutdown, process_request_ws, process_resource_ws on the same component '
        '(the shape of a component is the set of all seven methods; on WSGI the four are inert attributes, sync or async; on ASGI also components with none of the three HTTP methods, '
        'which falcon accepts when a lifespan/WebSocket method is present) - the HTTP call discipline is judged from the three HTTP methods alone and none of the other four may be called during an HTTP request '
        '(through falcon.testing on ASGI the lifespan handlers run around the request and are left out of the comparison); x independent_middleware in {True, False} x target in '
        '{route, route without the method (405), sink, unrouted (404)} x the routed RESOURCE OBJECT {plain instance, empty dict subclass, empty list subclass, __len__ == 0, __bool__ False, '
        'truthy at add_route and falsy at request time, falsy at add_route and truthy at request time} (a matched route is a matched route whatever bool(resource) is) x the request method / responder name '
        '{GET, POST, PATCH, WebDAV REPORT / PROPFIND / MKCOL / VERSION-CONTROL, custom PURGE / SUBSCRIBE enabled through FALCON_CUSTOM_HTTP_METHODS, which this module sets before the worker imports falcon} '
        'x 0..3 stacked before/after hooks (method- and class-level) x an action per call site '
        'from {return, set resp.complete, raise HTTPError, raise HTTPStatus, raise app error with custom handler, with only the default handler, '
        'custom handler re-raising HTTPError / HTTPStatus / a plain exception, raise a BaseException-only error (no handler at all)} x any subset of the four custom error handlers '
        'executing resp.complete = True before returning / raising; enumerated: every stack of <= 3 (quick) / <= 4 (thorough) components (the largest stacks with 4 of the 9 fault kinds) x every '
        'single-fault placement, and every stack of <= 1 (quick) / <= 2 (thorough) components x every double placement of {complete, HTTPError, handled app error, handler raising}, '
        'each x both modes x {route, unrouted} (the largest stacks routed only; 4-component stacks alternate between WSGI and ASGI) x WSGI+ASGI (every third faulty run with completing handlers); '
        'every stacking of 1..3 (quick) / 1..4 (thorough) before/after hooks x every class-level/method-level split x every single fault on a hook or the responder and every pair of '
        '{complete, handled app error[, handler raising]} on two of them, around one full component, x both modes x WSGI+ASGI x resource class layouts, half with completing handlers, the request method and the resource-object kind rotated through both enumerated families by a scrambled index; '
        'every component shape (each of the 127 non-empty subsets of the seven methods) alone / below / above a full component x both modes x {route, unrouted} x WSGI+ASGI x fault-free and a raise / completion at each of its HTTP methods; '
        'plus random stacks with 0..4 faults; ASGI WebSocket handshakes through the whole app: 0..3 components over subsets of the seven methods, 0..3 hooks around on_websocket (every stacking of 1..2 (quick) / 1..3 (thorough) hooks x every '
        'class-/method-level split x every class layout x fault-free and every single raise; plus random ones), target {on_websocket, route without it (close 3405), unrouted (3404)}, falsy resource objects, raises of HTTPForbidden (3403) / an application error (1011) '
        'at process_request_ws / process_resource_ws / hooks / responder; plus ASGI lifespan runs over 0..5 components with any subset '
        'of process_startup/process_shutdown, any subset of the five HTTP/WebSocket methods beside them, and a failing one anywhere. non-trivial = at least one middleware/hook/lifespan call was made; '
        'distinct = distinct (stack kind, configuration, action assignment)')
PARTIAL = ('Proved in Lean: the whole call trace of the model equals the documented discipline (Pl.run_eq_spec) in both middleware modes, the hook order and the lifespan order; '
           'and for the refined model Pe.run (ten actions, handler invocations in the trace, outcome responded(status) | escaped): refinement to Pl.run, one handler call per raise at its site, '
           'continuation of the response loop after handled raises, propagation-and-stop for unhandled ones, the success flag at every process_response position, escape iff. '
           'The hooks inside the pipeline and error handlers that mark the response complete are modelled by Ph.run (resp.complete threaded as state through every callee and handler) and proved: '
           'hook order with called-iff per position (Ph.hook_order, Ph.hook_called_iff), refinement to Pe.run by flattening (Ph.hooks_refine_pe) with the Pe/Pl theorems lifted (discipline, response methods once, success flag, '
           'one handler call per raise at the hook that raised, escape iff), handler-set resp.complete recorded but never consulted (Ph.handler_complete_inert, Ph.final_complete_eq). '
           'The models take the routing outcome (route / 405 / sink / 404), the three HTTP methods of each component and the hook stack as inputs: the kind of resource object, the request method '
           '(standard / WebDAV / custom) and the lifespan/WebSocket methods of a component cannot be expressed in them - the same model line is sent whatever they are, so the correspondence demands that the real trace does not depend on them, '
           'and the oracle judges them. The WebSocket handshake path (_handle_websocket: process_request_ws / process_resource_ws / on_websocket) is not modelled in Lean: it is oracle-only, except that the hook part of its trace is compared with Hk.wrap. '
           'Not modelled in Lean: what happens after the response loop (body rendering and its own except block: C05); callees that set resp.complete and then raise; hooks on sinks (falcon does not support them). '
           'Default-handler invocations are model events that the correspondence can only check through the final status. '
           'The registration table of error handlers is modelled at the level of exception classes (Pg: _error_handlers with the three defaults overwritten by the application, the MRO walk of _find_error_handler, '
           '_handle_exception with one lookup and the two except clauses) and proved to abstract exactly to the alphabet of Pe / Ph (Pg.handle_resolve); Pg.run is Ph.run of the resolved configuration, falcon\'s own 404 / 405 responder '
           'being put into the responder slot (of a hook-less route / of a sink) so that what it raises is resolved like every other raise - that relabelling is tied by the correspondence only (cases with the default table go to both Ph.run and Pg.run). '
           'Handlers registered for BaseException or for several classes at once are not generated. prepare_middleware is modelled (Pm) with its lookups, checks and stacks; the proof that the stacks Pm builds are the ones Pe.tries assumes is by reading (Pm.prepare_ok states them in the same form).')
JOBS = {'quick': 12, 'thorough': 16}

RAISES = {'http': 403, 'status': 202, 'app_h': 418, 'app_d': 500, 'app_hh': 409, 'app_hs': 299, 'app_he': None, 'base': None, 'app_hr': None,
          'mi': None}      # 'mi': an instance of case['hier']['raised'] - a class of a generated class HIERARCHY (several bases, diamonds, mixins)
# THE SHAPE OF THE CLASS HIERARCHY of what is raised (case key `hier`): {'classes': [[name, [base names]], ...] in definition order,
# 'raised': name, 'reg': [[class name, behaviour], ...] in registration order (the same class may occur twice: the latest wins)}.
# Base names are earlier classes of the hierarchy or these (name -> bases; `object` is left out everywhere):
HIER_BUILTIN = {'BaseException': [], 'Exception': ['BaseException'], 'LookupError': ['Exception'], 'KeyError': ['LookupError'],
                'ValueError': ['Exception'], 'RuntimeError': ['Exception'], 'HTTPError': ['Exception'], 'HTTPForbidden': ['HTTPError'],
                'HTTPTooManyRequests': ['HTTPError'], 'HTTPNotFound': ['HTTPError'], 'HTTPStatus': ['Exception'], 'BaseOnly': ['BaseException']}
HIER_STATUS = {'HTTPForbidden': 403, 'HTTPTooManyRequests': 429, 'HTTPNotFound': 404, 'HTTPError': 403}   # the status an instance carries
HIER_TABLED = {'HTTPError': 'E', 'HTTPStatus': 'S', 'Exception': 'X'}     # registered through case['handlers'] (else falcon's default handler)
BEH_STD = {'sets': 'app_h', 'http': 'app_hh', 'status': 'app_hs', 'plain': 'app_he'}   # the application class whose own handler behaves like that


def _c3(name, classes):
    """The method resolution order of class `name` (C3 linearisation as the language reference defines it; `object` left out), computed on
    the NAMES: classes maps name -> list of base names.  None if the bases cannot be linearised."""
    bases = classes[name]
    seqs = [_c3(b, classes) for b in bases]
    if any(q is None for q in seqs):
        return None
    seqs = [list(q) for q in seqs] + [list(bases)]
    out = [name]
    while any(seqs):
        for q in seqs:
            if q and not any(q[0] in t[1:] for t in seqs):
                head = q[0]
                break
        else:
            return None
        out.append(head)
        for t in seqs:
            if t and t[0] == head:
                t.pop(0)
    return out


def hier_mro(hier):
    return _c3(hier['raised'], dict(HIER_BUILTIN, **{n: list(b) for n, b in hier['classes']}))
CUSTOM = ('app_h', 'app_hh', 'app_hs', 'app_he')        # a custom (generated) error handler runs for these
CUSTOM_ALL = CUSTOM + ('app_hr',)                       # ... and for this one: the handler registered for the class re-raises what it got
ESCAPING = ('app_he', 'base')                           # the exception leaves __call__: handler raised a plain exception / no handler at all
FAULTS = ['complete', 'http', 'status', 'app_h', 'app_d', 'app_hh', 'app_hs', 'app_he', 'base']
FAULTS_T = FAULTS + ['app_hr']                          # (app_hr is in the alphabet of pgdriver only)
LETTER = {'ret': 'r', 'complete': 'c', None: '-', 'http': 'e', 'status': 's', 'app_h': 'h', 'app_d': 'd', 'app_hh': 'H', 'app_hs': 'S',
          'app_he': 'P', 'base': 'n', 'app_hr': 'R'}    # the action alphabet of Pe.run (pldriver `runx`; R: pgdriver `runt` only)
# THE REGISTRATION TABLE (case key `handlers`): handlers the application registered for falcon.HTTPStatus ('S'), falcon.HTTPError ('E') and
# Exception ('X') themselves - replacing falcon's default ones - and what each does once called
TABLE_KEYS = ('S', 'E', 'X')
BEHS = ['sets', 'http', 'status', 'same', 'plain']      # sets the response / raises a new HTTPError / a new HTTPStatus / re-raises what it got / raises a plain exception
BEH_LETTER = {'sets': 's', 'http': 'H', 'status': 'S', 'same': 'R', 'plain': 'P'}
OWN_BEH = {'app_h': 'sets', 'app_hh': 'http', 'app_hs': 'status', 'app_he': 'plain', 'app_hr': 'same'}   # the handlers registered for the application's own classes
BEH_STATUS = {'sets': 418, 'http': 409, 'status': 299}  # the status a handler of that behaviour leaves (set / carried by what it raises)
RAISED_STATUS = {'http': 403, 'status': 202, 'notfound': 404, 'nomethod': 405, 'app_d': 500}   # the status of what is raised, when falcon's own handler takes it


class _BaseOnly(BaseException):
    """raised by the 'base' action: derives from BaseException only, so no error handler exists for it (not even falcon's
    default one for Exception) and `except Exception` in __call__ does not catch it."""
METHS = ('req', 'rsrc', 'resp')
PNAME = {'req': 'process_request', 'rsrc': 'process_resource', 'resp': 'process_response'}
# the other methods a middleware component may define (ASGI lifespan + WebSocket); the SHAPE of a component is the set of all seven.
# On WSGI they are inert extra attributes.  c['extras'] maps name -> action (only the *_ws ones ever act, and only in WebSocket cases).
EXTRAS = ('startup', 'shutdown', 'request_ws', 'resource_ws')
# what kind of object the routed resource is: any object with on_* attributes is a resource, whatever bool(resource) says
RESOBJ = ['plain', 'empty_dict_subclass', 'empty_list_subclass', 'len_0', 'bool_false', 'falsy_after_add_route', 'truthy_after_add_route']
# request methods a responder may serve: standard verbs, WebDAV, custom ones (FALCON_CUSTOM_HTTP_METHODS); 'WEBSOCKET' is the _websocket() part
STD_VERBS = ['GET', 'POST', 'PATCH']
DAV_VERBS = ['REPORT', 'PROPFIND', 'MKCOL', 'VERSION-CONTROL']
VERBS = STD_VERBS + DAV_VERBS + CUSTOM_METHODS          # run() removes CUSTOM_METHODS if falcon did not pick the variable up
# how the routing outcome of a case is put to the models: a static route that SERVES (existing file / fallback file) is a responder of the
# framework's that returns - like a passive sink; a static route that finds no file raises falcon's 404 - like an unrouted request
TLETTER = {'route': 'r', 'nomethod': 'm', 'sink': 's', 'none': 'n', 'static': 's', 'static_fallback': 's', 'static_missing': 'n'}
STATIC_TARGETS = ('static', 'static_fallback', 'static_missing')
STATIC_FILE, STATIC_FALLBACK = b'falcon-static-file', b'falcon-static-fallback'
_ASSETS = {'dir': None}      # a directory with logo.txt and index.txt, created by run()
# every public way to construct an app object (label -> class; 'sub:' = a user subclass that adds nothing)
ENTRIES = {'wsgi': ['falcon.App', 'falcon.API', 'sub:falcon.App', 'sub:falcon.API'], 'asgi': ['falcon.asgi.App', 'sub:falcon.asgi.App']}
MODE_ARGS = ['keyword', 'omitted', 'positional']       # independent_middleware: by keyword, LEFT OUT (documented default True), positionally
MW_ARGS = ['keyword', 'positional', 'add_middleware', 'add_middleware_one_by_one', 'split']   # how the components reach the app
WS_CODE = {'http': 3403, 'app_d': 1011}                 # WebSocket close codes: HTTPForbidden -> 3403, unhandled application error -> 1011


# ------------------------------------------------------------------ the oracle: the documented discipline

class _Escape(Exception):
    pass


def dispatch(case, a):
    """The documented error handling for ONE raise (docs/api/app.rst add_error_handler, docs/api/middleware.rst): the handler registered for
    the most specific class of the raised exception is called, once; "a handler can raise an instance of HTTPError or HTTPStatus to communicate
    information about the issue to the client" - the framework uses that exception to update the response; anything else it raises goes to
    the server.  What a handler raises is not a raise of the application into the framework: no handler is looked up for it.
    a: the action (what is raised; 'notfound' / 'nomethod' = falcon's own 404 / 405).  Returns (the application's handler that is called |
    None = one of falcon's three / none at all, the status the server sees | None = the exception propagates)."""
    table = case.get('handlers') or {}
    if a == 'base':
        return None, None                                   # derives from BaseException only: nothing is registered that matches
    cn = {'http': 'HTTPForbidden', 'notfound': 'HTTPNotFound'}.get(a)
    ks = [k for k, (rc, _) in enumerate(case['hier']['reg']) if rc == cn] if cn and case.get('hier') else []
    if ks:
        # the hierarchy's registrations include the very class of this HTTPError (HTTPForbidden() / falcon's own HTTPNotFound()): most specific
        who, beh = f'M{cn}#{ks[-1]}', case['hier']['reg'][ks[-1]][1]
        return who, (RAISED_STATUS[a] if beh == 'same' else BEH_STATUS.get(beh))
    if a == 'mi':
        # a class with a generated hierarchy: "the framework will choose the most specific one, as determined by the method resolution order
        # of the raised exception type"; the most recent registration for a class replaces the earlier ones
        hier = case['hier']
        mro = hier_mro(hier)
        if 'Exception' not in mro:
            return None, None                               # BaseException only, like 'base'
        http_status = next((HIER_STATUS[c] for c in mro if c in HIER_STATUS), None)
        raised_status = 202 if 'HTTPStatus' in mro else http_status          # what the exception itself says (None: not an HTTPError / HTTPStatus)
        for c in mro:
            ks = [k for k, (rc, _) in enumerate(hier['reg']) if rc == c]
            if ks:
                who, beh = f'M{c}#{ks[-1]}', hier['reg'][ks[-1]][1]
                break
            if c in HIER_TABLED:
                key = HIER_TABLED[c]
                if key not in table:
                    return None, {'E': http_status, 'S': 202, 'X': 500}[key]     # falcon's default handler for that class
                who, beh = key, table[key]
                break
        else:
            return None, None                               # no class of the MRO is registered
        if beh == 'same':
            return who, raised_status
        return who, BEH_STATUS.get(beh)
    if a in OWN_BEH:
        who, beh = a, OWN_BEH[a]                            # a handler for the very class: most specific
    else:
        key = 'E' if a in ('http', 'notfound', 'nomethod') else 'S' if a == 'status' else 'X'
        if key not in table:
            return None, RAISED_STATUS[a]                   # falcon's default handler for HTTPError / HTTPStatus / Exception
        who, beh = key, table[key]
    if beh == 'same':
        # `raise ex`: an HTTPError / HTTPStatus is used to update the response like any other one a handler raises; anything else propagates
        return who, (RAISED_STATUS[a] if a in ('http', 'notfound', 'nomethod', 'status') else None)
    return who, BEH_STATUS.get(beh)                         # 'plain': None


def spec(case):
    """Independent rendering of the property statement.  Returns (trace, final status | None, escaped)."""
    comps, hooks, target, indep = case['comps'], case['hooks'], case['target'], case['independent']
    tr = []
    st = {'complete': False, 'raised': False, 'status': 200}

    def raised(label, a):
        st['raised'] = True
        who, status = dispatch(case, a)
        if who is not None:
            tr.append('h:' + who + '@' + label)     # the handler found for that error is invoked right away, with that error - once
        if status is None:
            raise _Escape()                     # what the handler raises (not HTTPError/HTTPStatus) / an error without handler goes to the server
        st['status'] = status

    def site(label, a):
        tr.append(label)
        if a == 'complete':
            st['complete'] = True
        elif a in RAISES:
            raised(label, a)
            return True
        return False
    try:
        # request methods top-down until one completes or raises
        req_raiser = None
        for i, c in enumerate(comps):
            if c['req'] is None:
                continue
            if site(f'req:{i}', c['req']):
                req_raiser = i
                break
            if st['complete']:
                break
        matched = False
        if not st['complete'] and not st['raised']:
            # resource methods only after a route match
            matched = target in ('route', 'nomethod')
            if matched:
                for i, c in enumerate(comps):
                    if c['rsrc'] is None:
                        continue
                    if site(f'rsrc:{i}', c['rsrc']) or st['complete']:
                        break
            # the responder only if nothing completed or raised
            if not st['complete'] and not st['raised']:
                if target in ('none', 'static_missing'):
                    raised('default', 'notfound')       # falcon's own responder (a static route without the file) raises HTTPNotFound: an HTTPError like any other
                elif target == 'nomethod':
                    raised('default', 'nomethod')
                elif target in ('static', 'static_fallback'):
                    tr.append('responder')              # the static route serves the file: the responder of a request that matched NO route
                else:
                    befores = [(k, a) for k, (kind, a) in enumerate(hooks) if kind == 'before']   # outermost first
                    afters = [(k, a) for k, (kind, a) in enumerate(hooks) if kind == 'after']
                    ok = True
                    for k, a in befores:
                        if site(f'bef:{k}', a):
                            ok = False
                            break
                    if ok and not site('responder', case['responder']):
                        for k, a in reversed(afters):                                              # innermost first
                            if site(f'aft:{k}', a):
                                break
        # response methods bottom-up, exactly once each; dependent mode: only if own and all earlier request methods did not raise
        for i in reversed(range(len(comps))):
            if comps[i]['resp'] is None:
                continue
            if not indep and req_raiser is not None and i >= req_raiser:
                continue
            site(f"resp:{i}:{str(matched).lower()}:{str(not st['raised']).lower()}", comps[i]['resp'])
    except _Escape:
        return tr, None, True
    return tr, st['status'], False


# ------------------------------------------------------------------ building the real app for a case

def _build(case, trace, box=None):
    import falcon
    import falcon.asgi
    asgi = case['stack'] == 'asgi'
    hcomplete = case.get('hcomplete', ())   # the custom error handlers that execute `resp.complete = True`

    class AppH(Exception): pass
    class AppD(Exception): pass
    class AppHH(Exception): pass
    class AppHS(Exception): pass
    class AppHE(Exception): pass
    class AppHR(Exception): pass
    excs = {'app_h': AppH, 'app_d': AppD, 'app_hh': AppHH, 'app_hs': AppHS, 'app_he': AppHE, 'app_hr': AppHR}
    table = case.get('handlers') or {}
    routed = {}                 # 'obj': the resource object given to add_route (the `resource` argument middleware methods must receive)
    # the generated class hierarchy of the 'mi' action
    hier = case.get('hier')
    hcls = {'BaseException': BaseException, 'Exception': Exception, 'LookupError': LookupError, 'KeyError': KeyError, 'ValueError': ValueError,
            'RuntimeError': RuntimeError, 'HTTPError': falcon.HTTPError, 'HTTPForbidden': falcon.HTTPForbidden,
            'HTTPTooManyRequests': falcon.HTTPTooManyRequests, 'HTTPNotFound': falcon.HTTPNotFound, 'HTTPStatus': falcon.HTTPStatus, 'BaseOnly': _BaseOnly}
    for n_, bases_ in (hier['classes'] if hier else ()):
        hcls[n_] = type(n_, tuple(hcls[b_] for b_ in bases_), {})

    def mk_mi(label):
        """a well-formed instance of the raised class: initialised the way its falcon base class (if any) requires"""
        cls = hcls[hier['raised']]
        e = cls.__new__(cls)
        f = next((c for c in cls.__mro__ if c.__module__.startswith('falcon')), None)
        if f is None:
            BaseException.__init__(e, label)
        elif f is falcon.HTTPStatus:
            f.__init__(e, 202)
        else:
            # (not f.__init__(e): with two falcon bases the cooperative super() call inside it would reach the other one's __init__)
            falcon.HTTPError.__init__(e, getattr(falcon, 'HTTP_%d' % HIER_STATUS[f.__name__]))
        return e
    if box is not None and hier:
        box['hcls'], box['mk_mi'] = hcls, mk_mi

    def rarg(resource):
        """'' if the `resource` argument is the routed resource object, else a marker that shows up in the trace"""
        return '' if resource is routed.get('obj') else ':WRONG-resource-argument-' + type(resource).__name__

    def act(a, resp, label):
        trace.append(label)
        if box is not None:
            box['resp'] = resp
        if a == 'complete':
            resp.complete = True
        elif a in RAISES:
            e = (falcon.HTTPForbidden() if a == 'http' else falcon.HTTPStatus(202) if a == 'status' else _BaseOnly(label) if a == 'base'
                 else mk_mi(label) if a == 'mi' else excs[a](label))
            e.c03_site = label          # where it was raised (what falcon's own 404 / 405 responder raises has no such mark)
            raise e

    def handler_body(name, beh, resp, ex):
        """the handler registered under `name` (an application class, or S / E / X = HTTPStatus / HTTPError / Exception) with behaviour `beh`"""
        trace.append('h:' + name + '@' + getattr(ex, 'c03_site', 'default'))
        if box is not None:
            box['resp'] = resp
        # `hcomplete` names the handler behaviours that execute resp.complete = True, by the application class whose handler has that behaviour
        # (re-raising an HTTPError / HTTPStatus: never; re-raising anything else counts as raising a plain exception)
        hb = {'sets': 'app_h', 'http': 'app_hh', 'status': 'app_hs', 'plain': 'app_he',
              'same': None if isinstance(ex, (falcon.HTTPError, falcon.HTTPStatus)) else 'app_he'}[beh]
        if hb in hcomplete:
            resp.complete = True
        if beh == 'sets':
            resp.status = 418
        elif beh == 'http':
            raise falcon.HTTPConflict()
        elif beh == 'status':
            raise falcon.HTTPStatus(299)
        elif beh == 'same':
            raise ex
        elif beh == 'plain':
            raise RuntimeError('raised inside the error handler')

    def mkhandler(name, beh):
        if asgi:
            async def h(req, resp, ex, params):
                handler_body(name, beh, resp, ex)
        else:
            def h(req, resp, ex, params):
                handler_body(name, beh, resp, ex)
        return h

    def component(i, c):
        d = {}
        variant = c.get('variant', 0)
        spell = c.get('spell') or {}

        def add(m, name, fn_sync, fn_async):
            # the SPELLING of this method (per method: c['spell'][m]; else the component-wide c['variant']):
            #   ASGI  0 plain coroutine `name` | 1 `name_async` + a sync function under `name` | 2 `name_async` alone |
            #         3 `name_async` + a coroutine under `name` (documented: the *_async one is the ASGI version)
            #   WSGI  0 / 2 plain sync `name` | 1 / 3 plain sync `name` + a coroutine `name_async` (its ASGI version: ignored)
            sp = spell.get(m, variant)
            if asgi:
                if sp == 1:
                    d[name + '_async'] = fn_async
                    d[name] = lambda self, *a, **k: trace.append('WRONG-sync-twin:' + name)
                elif sp == 2:
                    d[name + '_async'] = fn_async                     # only the *_async spelling, no sync twin
                elif sp == 3:
                    d[name + '_async'] = fn_async
                    async def ctwin(self, *a, **k):
                        trace.append('WRONG-plain-coroutine-twin:' + name)
                    d[name] = ctwin
                else:
                    d[name] = fn_async
            else:
                d[name] = fn_sync
                if sp in (1, 3):
                    async def twin(self, *a, **k):
                        trace.append('WRONG-async-twin:' + name)
                    d[name + '_async'] = twin
        if c['req'] is not None:
            def rq(self, req, resp, a=c['req']): act(a, resp, f'req:{i}')
            async def arq(self, req, resp, a=c['req']): act(a, resp, f'req:{i}')
            add('req', 'process_request', rq, arq)
        if c['rsrc'] is not None:
            def rs(self, req, resp, resource, params, a=c['rsrc']): act(a, resp, f'rsrc:{i}' + rarg(resource))
            async def ars(self, req, resp, resource, params, a=c['rsrc']): act(a, resp, f'rsrc:{i}' + rarg(resource))
            add('rsrc', 'process_resource', rs, ars)
        if c['resp'] is not None:
            def rp(self, req, resp, resource, req_succeeded, a=c['resp']):
                act(a, resp, f'resp:{i}:{str(resource is not None).lower()}:{str(req_succeeded is True).lower()}' + (rarg(resource) if resource is not None else ''))
            async def arp(self, req, resp, resource, req_succeeded, a=c['resp']):
                act(a, resp, f'resp:{i}:{str(resource is not None).lower()}:{str(req_succeeded is True).lower()}' + (rarg(resource) if resource is not None else ''))
            add('resp', 'process_response', rp, arp)
        if not asgi:
            # WSGI: a method the component does NOT have for WSGI, but whose ASGI version `name_async` it has (a dual component that
            # serves that phase on ASGI only): still not a method of the WSGI stack
            for m in c.get('ghost', ()):
                if c[m] is None:
                    async def ghost(self, *a, _n=PNAME[m], **k):
                        trace.append('WRONG-async-only-method:' + _n)
                    d[PNAME[m] + '_async'] = ghost
        # lifespan / WebSocket methods of the same component (ASGI: coroutines, as falcon requires; WSGI: inert attributes, sync or async).
        # In an HTTP request none of them may be called: their labels would show up in the trace.
        ex = c.get('extras') or {}
        sync_extra = (not asgi) and variant == 1
        if 'startup' in ex:
            async def pst(self, scope, event): trace.append(f'startup:{i}')
            d['process_startup'] = (lambda self, *a, **k: trace.append(f'startup:{i}')) if sync_extra else pst
        if 'shutdown' in ex:
            async def psh(self, scope, event): trace.append(f'shutdown:{i}')
            d['process_shutdown'] = (lambda self, *a, **k: trace.append(f'shutdown:{i}')) if sync_extra else psh
        if 'request_ws' in ex:
            async def prw(self, req, ws, a=ex['request_ws']): act(a, ws, f'reqws:{i}')
            d['process_request_ws'] = (lambda self, *a, **k: trace.append(f'reqws:{i}')) if sync_extra else prw
        if 'resource_ws' in ex:
            async def psw(self, req, ws, resource, params, a=ex['resource_ws']): act(a, ws, f'rsrcws:{i}' + rarg(resource))
            d['process_resource_ws'] = (lambda self, *a, **k: trace.append(f'rsrcws:{i}')) if sync_extra else psw
        return type(f'C{i}', (), d)()

    comps = [component(i, c) for i, c in enumerate(case['comps'])]
    # HOW THE APP OBJECT IS CONSTRUCTED (case keys entry / mode_arg / mw_arg): through every public constructor name, independent_middleware
    # given by keyword, positionally or LEFT OUT (then the documented default, True, must be in force: case['independent'] is True),
    # the components handed to the constructor (keyword / positional) or added afterwards with add_middleware (documented: "as if they had
    # been appended to the original middleware list passed to the class initializer")
    base = falcon.asgi.App if asgi else falcon.App
    entry = case.get('entry') or ('falcon.asgi.App' if asgi else 'falcon.App')
    cls_ = {'falcon.App': falcon.App, 'falcon.API': falcon.API, 'falcon.asgi.App': falcon.asgi.App}[entry.replace('sub:', '')]
    if entry.startswith('sub:'):
        cls_ = type('UserApp', (cls_,), {'__doc__': 'a user subclass that adds nothing'})
    mode_arg, mw_arg = case.get('mode_arg', 'keyword'), case.get('mw_arg', 'keyword')
    if mode_arg == 'omitted':
        assert case['independent'] is True, 'independent_middleware left out: the documented default is True'
    h_ = len(comps) // 2
    first, later = {'keyword': (comps, []), 'positional': (comps, []), 'add_middleware': (None, [comps]),
                    'add_middleware_one_by_one': (None, [c_ if j_ % 2 == 0 else [c_] for j_, c_ in enumerate(comps)]),
                    'split': (comps[:h_], [comps[h_:]])}[mw_arg]
    args, kwargs = [], {}
    if mode_arg == 'positional':
        args = [falcon.DEFAULT_MEDIA_TYPE, None, None, first, None, case['independent']]
    else:
        if mw_arg == 'positional':
            args = [falcon.DEFAULT_MEDIA_TYPE, None, None, first]
        elif first is not None:
            kwargs['middleware'] = first
        if mode_arg == 'keyword':
            kwargs['independent_middleware'] = case['independent']
    import warnings
    with warnings.catch_warnings():
        warnings.simplefilter('ignore')              # falcon.API is deprecated (and still public)
        app = cls_(*args, **kwargs)
    for more in later:
        app.add_middleware(more)                     # a list of components, or one bare component
    regs = []                   # the registration history the harness makes, oldest first (after falcon's own three)

    def register(cls, h):
        app.add_error_handler(cls, h)
        regs.append((cls, h))
    if box is not None:
        box['app'], box['regs'] = app, regs
    for name in CUSTOM_ALL:
        register(excs[name], mkhandler(name, OWN_BEH[name]))
    # the registration table: the application's own handlers for HTTPStatus / HTTPError / Exception themselves (falcon documents:
    # "error handlers may be registered for any exception type, including HTTPError or HTTPStatus"; they replace the default ones)
    for key, cls in (('S', falcon.HTTPStatus), ('E', falcon.HTTPError), ('X', Exception)):
        if key in table:
            register(cls, mkhandler(key, table[key]))
    # handlers for classes of the generated hierarchy (and for built-in / falcon classes its classes derive from), in registration order
    for k_, (cn_, beh_) in enumerate(hier['reg'] if hier else ()):
        register(hcls[cn_], mkhandler(f'M{cn_}#{k_}', beh_))

    target = case['target']
    if target in ('route', 'nomethod'):
        ra = case['responder']
        is_ws = case.get('kind') == 'ws'
        if is_ws:
            async def on_x(self, req, ws):
                act(ra, ws, 'responder')
                await ws.accept()
        elif asgi:
            async def on_x(self, req, resp): act(ra, resp, 'responder')
        else:
            def on_x(self, req, resp): act(ra, resp, 'responder')
        hooks = list(enumerate(case['hooks']))
        n_class = case.get('class_hooks', 0)            # the first n_class hooks are applied to the class (outermost)

        def hook(k, kind, a):
            if kind == 'before':
                if asgi:
                    async def f(req, resp, resource, params): act(a, resp, f'bef:{k}')
                else:
                    def f(req, resp, resource, params): act(a, resp, f'bef:{k}')
                return falcon.before(f)
            if asgi:
                async def g(req, resp, resource): act(a, resp, f'aft:{k}')
            else:
                def g(req, resp, resource): act(a, resp, f'aft:{k}')
            return falcon.after(g)
        for k, (kind, a) in reversed(hooks[n_class:]):  # decorators apply innermost first
            on_x = hook(k, kind, a)(on_x)
        # where the responder lives in the class hierarchy of the routed resource (class-level hooks apply to every responder of the
        # decorated class, inherited and suffixed ones included)
        layout = case.get('layout', 'flat')
        suffix = 'items' if layout in ('suffix', 'inherited_suffix') else None
        verb = 'WEBSOCKET' if is_ws else case.get('verb', 'GET')
        # target route: the resource implements the request method; nomethod: it implements another one only
        rname = ('on_' + verb.lower() if target == 'route' else ('on_post' if verb != 'POST' else 'on_patch')) + ('_' + suffix if suffix else '')
        # the resource OBJECT: plain, or falsy (empty dict/list subclass, __len__ 0, __bool__ False), or changing after registration
        resobj = case.get('resobj', 'plain')
        truth = {'v': resobj != 'truthy_after_add_route'}
        xb = {'empty_dict_subclass': (dict,), 'empty_list_subclass': (list,)}.get(resobj, ())
        xn = {'len_0': {'__len__': lambda self: 0}, 'bool_false': {'__bool__': lambda self: False},
              'falsy_after_add_route': {'__bool__': lambda self: truth['v']},
              'truthy_after_add_route': {'__bool__': lambda self: truth['v']}}.get(resobj, {})
        if asgi:
            async def other(self, req, resp): act('ret', resp, 'WRONG-responder')
        else:
            def other(self, req, resp): act('ret', resp, 'WRONG-responder')

        def deco(c, hs):
            for k, (kind, a) in reversed(hs):
                c = hook(k, kind, a)(c)
            return c
        if layout in ('flat', 'suffix'):
            cls = deco(type('Res', xb, dict(xn, **{rname: on_x, 'on_delete': other})), hooks[:n_class])
        elif layout in ('inherited', 'inherited_suffix'):
            base = type('Base', (), {rname: on_x})
            cls = deco(type('Res', (base,) + xb, dict(xn, on_delete=other)), hooks[:n_class])
        elif layout == 'grandparent':
            base = type('Base', (), {rname: on_x})
            mid = type('Mid', (base,), {'on_put': other})
            cls = deco(type('Res', (mid,) + xb, dict(xn, on_delete=other)), hooks[:n_class])
        elif layout == 'mixin':
            mixin = type('Mixin', (), {rname: on_x})
            plain = type('Plain', (), {'helper': lambda self: None})
            cls = deco(type('Res', (plain, mixin) + xb, dict(xn, on_delete=other)), hooks[:n_class])
        elif layout == 'base_decorated':
            base = deco(type('Base', (), {rname: on_x}), hooks[:n_class])
            cls = type('Res', (base,) + xb, dict(xn, on_delete=other))
        elif layout == 'split_decorated':
            # the outer half of the class-level hooks decorates the subclass, the inner half the base class
            h = n_class // 2
            base = deco(type('Base', (), {rname: on_x}), hooks[h:n_class])
            cls = deco(type('Res', (base,) + xb, dict(xn, on_delete=other)), hooks[:h])
        else:
            raise AssertionError(layout)
        routed['obj'] = cls()
        app.add_route('/', routed['obj'], **({'suffix': suffix} if suffix else {}))
        truth['v'] = not truth['v']        # (only the two *_after_add_route kinds read it)
    elif target == 'sink':
        ra = case['responder']
        if asgi:
            async def sink(req, resp, **kw): act(ra, resp, 'responder')
        else:
            def sink(req, resp, **kw): act(ra, resp, 'responder')
        app.add_sink(sink, '/')
    elif target in STATIC_TARGETS:
        # a request that is not matched by any route and yet answered: by a static route (existing file / fallback file / no file: 404).
        # The static route object is falcon's; a recording subclass notes `responder` when it has served (returned normally).
        from falcon.routing.static import StaticRoute, StaticRouteAsync
        if asgi:
            class RecStatic(StaticRouteAsync):
                async def __call__(self, req, resp, **kw):
                    await super().__call__(req, resp, **kw)
                    trace.append('responder')
        else:
            class RecStatic(StaticRoute):
                def __call__(self, req, resp, **kw):
                    super().__call__(req, resp, **kw)
                    trace.append('responder')
        saved = base.__dict__['_STATIC_ROUTE_TYPE']
        base._STATIC_ROUTE_TYPE = RecStatic
        try:
            app.add_static_route('/assets', _ASSETS['dir'], **({'fallback_filename': 'index.txt'} if target == 'static_fallback' else {}))
        finally:
            base._STATIC_ROUTE_TYPE = saved
    return app


def _model_line(case):
    """The case as input of Pl.run; None if the model does not cover it (a handler raising a plain exception)."""
    m = {'ret': 'r', 'complete': 'c', None: '-'}

    def a1(a):
        return m.get(a, 'x')
    acts = [c[k] for c in case['comps'] for k in METHS] + [case['responder']] + [a for _, a in case['hooks']]
    acts += {'none': ['notfound'], 'static_missing': ['notfound'], 'nomethod': ['nomethod']}.get(case['target'], [])      # what falcon's own responder raises
    if any(dispatch(case, a)[1] is None for a in acts if a in RAISES or a in ('notfound', 'nomethod')):
        return None             # some raise is not handled under this registration table (Pl.run has the one handled raise)
    # the hook-wrapped responder is one responder for Pl.run: it raises if any of its parts raises first, else completes if any part does
    comp = 'r'
    if case['target'] in ('route',) and case['hooks']:
        befores = [a for kind, a in case['hooks'] if kind == 'before']
        afters = [a for kind, a in case['hooks'] if kind == 'after']
        seq = befores + [case['responder']] + afters[::-1]
        for a in seq:
            if a in RAISES:
                comp = 'x'
                break
            if a == 'complete':
                comp = 'c'
    else:
        comp = a1(case['responder'])
    t = TLETTER[case['target']]
    return f"run {int(case['independent'])} {t} {comp} " + ' '.join(','.join(a1(c[k]) for k in METHS) for c in case['comps'])


def _modelx_line(case):
    """The case as input of Pe.run (every case is covered): one letter of LETTER per call site.  The hook-wrapped responder is
    one responder: it does what its first raising part does, else completes if any part does, else returns."""
    comp = case['responder']
    if case['target'] == 'route' and case['hooks']:
        befores = [a for kind, a in case['hooks'] if kind == 'before']
        afters = [a for kind, a in case['hooks'] if kind == 'after']
        comp = 'ret'
        for a in befores + [case['responder']] + afters[::-1]:
            if a in RAISES:
                comp = a
                break
            if a == 'complete':
                comp = 'complete'
    t = TLETTER[case['target']]
    return f"runx {int(case['independent'])} {t} {LETTER[comp]} " + ' '.join(','.join(LETTER[c[k]] for k in METHS) for c in case['comps'])


def _modelx_view(trace, r):
    """The real observation in the reply format of `runx`: calls and custom-handler invocations (with the site whose error they got),
    hooks+responder collapsed to `responder`; then the outcome: the status the server saw, or `escaped`."""
    def site(lbl):
        p = lbl.split(':')
        return 'responder' if p[0] in ('bef', 'aft', 'responder') else p[0] + ':' + p[1]
    out = []
    for t in trace:
        if t.startswith('h:'):
            name, _, at = t[2:].partition('@')
            out.append(f'h:{LETTER[name]}@{site(at)}')
            continue
        if t.startswith('bef:') or t.startswith('aft:'):
            t = 'responder'
        if t == 'responder' and out and out[-1] == 'responder':
            continue
        out.append(t)
    return ' '.join(out) + ' | ' + ('escaped' if r.escaped else f'responded:{r.status}')


def _modelh_line(case):
    """The case as input of Ph.run (phdriver `runh`): like `runx`, but the routed responder is NOT collapsed - the hooks are listed
    outermost first with the number of class-level ones - and the error handlers that set resp.complete are named."""
    t = TLETTER[case['target']]
    hooks = case['hooks'] if case['target'] == 'route' else []
    hs = ','.join(('b' if kind == 'before' else 'a') + LETTER[a] for kind, a in hooks) or '-'
    hc = ''.join(LETTER[n] for n in CUSTOM if n in case.get('hcomplete', ())) or '-'
    return (f"runh {int(case['independent'])} {t} {LETTER[case['responder']]} {hc} {case.get('class_hooks', 0) if hooks else 0} {hs} "
            + ' '.join(','.join(LETTER[c[k]] for k in METHS) for c in case['comps']))


def _modelh_view(trace, r, complete):
    """The real observation in the reply format of `runh`: every call incl. each hook, custom-handler invocations with the site
    (hook, responder, middleware method) whose error they got; the outcome; the final value of resp.complete."""
    def site(lbl):
        p = lbl.split(':')
        return p[0] if p[0] == 'responder' else p[0] + ':' + p[1]
    out = []
    for t in trace:
        if t.startswith('h:'):
            name, _, at = t[2:].partition('@')
            out.append(f'h:{LETTER[name]}@{site(at)}')
        else:
            out.append(t)
    return (' '.join(out) + ' | ' + ('escaped' if r.escaped else f'responded:{r.status}') + ' | complete:' + str(bool(complete)).lower())


def _tabled(case):
    """the case needs the alphabet of pgdriver: a registration table, or an application class whose own handler re-raises"""
    return bool(case.get('handlers')) or 'app_hr' in [c[k] for c in case['comps'] for k in METHS] + [case['responder']] + [a for _, a in case['hooks']]


def _modelt_line(case):
    """The case as input of Pg.run (pgdriver `runt`): the line of `runh` + the registration table (what the handlers registered for
    HTTPStatus, HTTPError, Exception do; `-` = falcon's default one stays); action letters name exception CLASSES."""
    t = TLETTER[case['target']]
    hooks = case['hooks'] if case['target'] == 'route' else []
    hs = ','.join(('b' if kind == 'before' else 'a') + LETTER[a] for kind, a in hooks) or '-'
    hc = ''.join(LETTER[n] for n in CUSTOM if n in case.get('hcomplete', ())) or '-'
    table = case.get('handlers') or {}
    tb = ''.join(BEH_LETTER[table[k]] if k in table else '-' for k in TABLE_KEYS)
    return (f"runt {int(case['independent'])} {t} {LETTER[case['responder']]} {hc} {case.get('class_hooks', 0) if hooks else 0} {hs} {tb} "
            + ' '.join(','.join(LETTER[c[k]] for k in METHS) for c in case['comps']))


def _modelt_view(trace, r, complete):
    """The real observation in the reply format of `runt`: every call, every invocation of an application's handler naming WHICH one
    (own class: its letter; TS / TE / TX: the one registered for HTTPStatus / HTTPError / Exception) and the site whose error it got."""
    def site(lbl):
        p = lbl.split(':')
        return p[0] if p[0] in ('responder', 'default') else p[0] + ':' + p[1]
    out = []
    for t in trace:
        if t.startswith('h:'):
            name, _, at = t[2:].partition('@')
            out.append(f"h:{'T' + name if name in TABLE_KEYS else LETTER[name]}@{site(at)}")
        else:
            out.append(t)
    return (' '.join(out) + ' | ' + ('escaped' if r.escaped else f'responded:{r.status}') + ' | complete:' + str(bool(complete)).lower())


def _model_view(trace):
    """The real trace in the reply format of pldriver: handler calls dropped, hooks+responder collapsed to `responder`."""
    out = []
    for t in trace:
        if t.startswith('h:'):
            continue
        if t.startswith('bef:') or t.startswith('aft:'):
            t = 'responder'
        if t == 'responder' and out and out[-1] == 'responder':
            continue
        out.append(t)
    return ' '.join(out)


def _hook_line(case):
    m = {'ret': 'r', 'complete': 'r'}
    return 'wrap ' + m.get(case['responder'], 'x') + ' ' + ' '.join(('b' if kind == 'before' else 'a') + m.get(a, 'x') for kind, a in case['hooks'])


def _sub_actions(case, f):
    """a copy of the case with every action a replaced by f(a)"""
    out = dict(case)
    out['comps'] = [dict(c, **{m: f(c[m]) for m in METHS}) for c in case['comps']]
    out['hooks'] = [[kind, f(a)] for kind, a in case['hooks']]
    out['responder'] = f(case['responder'])
    return out


def _resolved(case):
    """A case whose raised class has a generated hierarchy, as input of the pipeline models: Pe / Ph take WHAT THE HANDLER THAT IS FOUND DOES as
    an input (their alphabet Pe.Exc) - they are given the MRO-based choice (Eh.find over type(ex).__mro__[:-1], tied to the real lookup by its own
    correspondence): the 'mi' action becomes the application class of the standard alphabet whose handler behaves like the one chosen.
    None if the choice is not in their alphabet (a registration table, a re-raising handler, falcon's default handler composing a status
    other than 403): those cases are judged by the oracle and the Eh.find correspondence."""
    if case.get('handlers'):
        return None
    regd = {rc for rc, _b in case['hier']['reg']}
    acts = [c[k] for c in case['comps'] for k in METHS] + [case['responder']] + [a for _, a in case['hooks']]
    if ('HTTPForbidden' in regd and 'http' in acts) or ('HTTPNotFound' in regd and case['target'] in ('none', 'static_missing')):
        return None         # a registration of the hierarchy also takes a standard raise of this case: not in the models' alphabet
    who, status = dispatch(case, 'mi')
    if who is None:
        std = {None: 'base', 500: 'app_d', 403: 'http', 202: 'status'}.get(status)
    else:
        std = BEH_STD.get(case['hier']['reg'][int(who.partition('#')[2])][1])
    if std is None:
        return None
    out = _sub_actions(case, lambda a: std if a == 'mi' else a)
    del out['hier']
    return out


def _relabel(case, trace):
    """the real trace with the invocations of the hierarchy's handlers named by what THAT handler does (the alphabet of the models)"""
    out = []
    for t in trace:
        if t.startswith('h:M'):
            name, _, at = t[2:].partition('@')
            t = 'h:' + BEH_STD.get(case['hier']['reg'][int(name.partition('#')[2])][1], 'app_hr') + '@' + at
        out.append(t)
    return out


def _hier_tie(ctx, esess, case, box):
    """_find_error_handler of the real app, for an instance of the raised class, against Eh.find over type(ex).__mro__[:-1] and the
    registration history (falcon's three defaults, then everything the harness registered, in order)"""
    import falcon
    app, regs = box['app'], box['regs']
    ex = box['mk_mi']('probe')
    cid = {}

    def c_(cls):
        return cid.setdefault(cls, len(cid) + 1)
    esess.case({'case': case})
    esess.op('new', 'ok')
    for cls, hid in ((Exception, 9001), (falcon.HTTPError, 9002), (falcon.HTTPStatus, 9003)):
        esess.op(f'reg {c_(cls)} {hid}', 'ok')
    hids = {}
    for j, (cls, h) in enumerate(regs):
        hids[id(h)] = 100 + j
        esess.op(f'reg {c_(cls)} {100 + j}', 'ok')
    found = app._find_error_handler(ex)
    if found is None:
        real = 'none'
    elif id(found) in hids:
        real = str(hids[id(found)])
    else:
        real = next((str(hid) for hid, dflt in ((9001, app._python_error_handler), (9002, app._http_error_handler), (9003, app._http_status_handler))
                     if found == dflt), 'unknown-handler')
    esess.op('find ' + ','.join(str(c_(cls)) for cls in type(ex).__mro__[:-1]), real)
    # the oracle's own linearisation against the interpreter's (a harness self-check: the oracle must judge the hierarchy that was built)
    names = [c.__name__.replace('_BaseOnly', 'BaseOnly') for c in type(ex).__mro__[:-1]]
    if names != hier_mro(case['hier']):
        raise AssertionError(f'harness: C3 of the oracle {hier_mro(case["hier"])} != type(ex).__mro__ {names}')


def _hier_counts(ctx, case):
    hier = case['hier']
    classes = dict(HIER_BUILTIN, **{n: list(b) for n, b in hier['classes']})
    mro = hier_mro(hier)
    bases = classes[hier['raised']]
    ctx.count('raised_class_hierarchy')
    ctx.count(f'raised_class_with_{len(bases)}_bases')
    chain, c = [], hier['raised']
    while c is not None:
        chain.append(c)
        c = classes[c][0] if classes[c] else None
    who, _ = dispatch(case, 'mi')
    if who is not None and who.startswith('M'):
        cn = who[1:].partition('#')[0]
        ctx.count('hierarchy_handler_found_' + ('for_the_raised_class_itself' if cn == hier['raised'] else
                                                'on_the_chain_of_first_bases' if cn in chain else 'on_a_SECONDARY_base_or_its_ancestors'))
        if sum(1 for rc, _b in hier['reg'] if rc == cn) > 1:
            ctx.count('hierarchy_found_class_registered_more_than_once_latest_wins')
        if len([rc for rc, _b in hier['reg'] if rc in mro]) > 1:
            ctx.count('hierarchy_several_registered_classes_in_the_MRO_most_specific_wins')
    elif who is not None:
        ctx.count('hierarchy_handler_found_in_the_table_for_HTTPStatus_HTTPError_Exception')
    else:
        ctx.count('hierarchy_handler_found_falcon_default_or_none')
    if any('BaseException' not in (_c3(n, classes) or []) for n, _b in hier['classes']):
        ctx.count('hierarchy_with_a_mixin_that_is_not_an_exception')
    fal = [b for b in bases if any(x in HIER_STATUS or x == 'HTTPStatus' for x in _c3(b, classes))]
    if fal and len(bases) > 1:
        ctx.count('hierarchy_falcon_class_is_' + ('FIRST' if bases[0] in fal else 'a_LATER') + '_base_of_the_raised_class')
    seen_, dia = set(), False
    for b in bases:
        m_ = set(_c3(b, classes)) - {'Exception', 'BaseException'}
        dia = dia or bool(m_ & seen_)
        seen_ |= m_
    if dia:
        ctx.count('hierarchy_diamond_common_ancestor_below_Exception')


ORACLE = 'call trace (incl. process_response arguments and error-handler calls), final status and escape = documented stack discipline'


def _execute(ctx, sess, hsess, case, via_testing=False, xsess=None, psess=None, tsess=None, esess=None):
    from lib_appcall import call_wsgi, call_asgi, call_via_testing, Result
    trace = []
    box = {}
    app = _build(case, trace, box)
    if via_testing and 'base' in [c[k] for c in case['comps'] for k in METHS] + [case['responder']] + [a for _, a in case['hooks']]:
        via_testing = False                 # the testing client's own loop/validator is not made for BaseException-only raises
    if via_testing and case.get('hier') and 'Exception' not in hier_mro(case['hier']):
        via_testing = False
    verb = case.get('verb', 'GET')
    if via_testing and case['stack'] == 'wsgi' and verb not in ('GET', 'POST', 'PATCH'):
        via_testing = False                 # wsgiref.validate (used by the WSGI testing client) rejects WebDAV / custom request methods
    path = {'static': '/assets/logo.txt', 'static_fallback': '/assets/nope.txt', 'static_missing': '/assets/nope.txt'}.get(case['target'], '/')
    try:
        if via_testing:
            r = call_via_testing(app, method=verb, path=path)
        elif case['stack'] == 'asgi':
            r = call_asgi(app, method=verb, path=path)
        else:
            r = call_wsgi(app, method=verb, path=path)
    except _BaseOnly as e:                  # lib_appcall reports Exception-derived escapes only
        r = Result(escaped=e)
    if via_testing and case['stack'] == 'asgi':
        # falcon.testing drives the ASGI lifespan protocol around the request: the startup/shutdown handlers legitimately run there
        # (their order is the subject of _lifespan()); everywhere else a lifespan call during an HTTP request stays in the trace
        trace[:] = [t for t in trace if not t.startswith(('startup:', 'shutdown:'))]
    exp_tr, exp_status, exp_esc = spec(case)
    what = None
    if trace != exp_tr:
        shown = trace if len(trace) <= 60 else trace[:40] + [f'... ({len(trace)} entries in total)']
        what = f'call trace {shown} differs from the documented discipline {exp_tr}'
    elif bool(r.escaped) != exp_esc:
        what = f'exception {"escaped to the server: %r" % (r.escaped,) if r.escaped else "did not reach the server although no handler took it (an error handler raised it, or none exists for it)"}'
    elif not exp_esc and r.status != exp_status:
        what = f'final status {r.status}, expected {exp_status}'
    elif exp_esc and r.events:
        what = f'the exception reached the server, yet events were sent before: {r.events}'
    elif (case['target'] in ('static', 'static_fallback') and not exp_esc and exp_status == 200 and 'responder' in exp_tr
          and all(c[k] in (None, 'ret') for c in case['comps'] for k in METHS)
          and r.body != (STATIC_FILE if case['target'] == 'static' else STATIC_FALLBACK)):
        what = f'the static route served {r.body[:60]!r} although every middleware method just returned'
    ctx.oracle(ORACLE, what is None, what, dict(case, via_testing=via_testing))
    rcase, rtrace = case, trace
    if case.get('hier'):
        # the raised class has a generated hierarchy: the lookup itself against Eh.find; the pipeline models get the MRO-based choice
        if esess is not None:
            _hier_tie(ctx, esess, case, box)
        _hier_counts(ctx, case)
        rcase, rtrace = _resolved(case), _relabel(case, trace)
        if rcase is None:
            ctx.count('hierarchy_case_judged_by_oracle_and_Eh_find_only')
    _model_sessions(ctx, sess, hsess, rcase, rtrace, r, box, via_testing, xsess, psess, tsess, exp_esc)
    _case_counts(ctx, case, trace, verb, exp_tr, exp_esc)


def _model_sessions(ctx, sess, hsess, case, trace, r, box, via_testing, xsess, psess, tsess, exp_esc):
    if case is None:
        return
    line = _model_line(case) if sess is not None else None
    if line is not None:
        sess.case({'case': case})
        sess.op(line, _model_view(trace))
    tabled = _tabled(case)
    if tsess is not None and (tabled or ctx.rng.random() < 0.12):
        # the registration table as an input: full trace, WHICH handler is invoked, final status / escape, final resp.complete against Pg.run
        # (cases without a table: the default table - ties Pg.resolve to the alphabet the other two sessions use)
        tsess.case({'case': case, 'via_testing': via_testing})
        tsess.op(_modelt_line(case), _modelt_view(trace[:400], r, box['resp'].complete if 'resp' in box else False))
    if tabled:
        xsess = psess = None            # pldriver / phdriver have no registration table and no re-raising handler in their alphabet
    if xsess is not None:
        xsess.case({'case': case, 'via_testing': via_testing})
        xsess.op(_modelx_line(case), _modelx_view(trace, r))
    if psess is not None:
        # the full trace - every hook, every handler invocation with its site - and the final resp.complete against Ph.run
        # (no call recorded = the framework's own 404/405 responder only: nothing could have set resp.complete)
        psess.case({'case': case, 'via_testing': via_testing})
        psess.op(_modelh_line(case), _modelh_view(trace, r, box['resp'].complete if 'resp' in box else False))
    if case['hooks'] and case['target'] == 'route' and not exp_esc:
        # the hook part of the trace against Hk.wrap (only when the wrapped responder was reached)
        part = [t for t in trace if t.startswith(('bef:', 'aft:')) or t == 'responder']
        if part:
            hsess.case({'case': case})
            hsess.op(_hook_line(case), ' '.join(part))


def _case_counts(ctx, case, trace, verb, exp_tr, exp_esc):
    ctx.seen((case['stack'], repr(sorted(case.items(), key=str))), len(trace) > 0)
    ctx.count('stack_' + case['stack'])
    ctx.count('target_' + case['target'])
    ctx.count('mode_' + ('independent' if case['independent'] else 'dependent'))
    if 'entry' in case or 'mode_arg' in case or 'mw_arg' in case:
        ctx.count('constructed_by_' + case.get('entry', 'base class') + '_independent_middleware_' +
                  {'omitted': 'OMITTED', 'keyword': 'by_keyword', 'positional': 'positional'}[case.get('mode_arg', 'keyword')])
        ctx.count('components_given_' + case.get('mw_arg', 'keyword'))
        if case.get('mode_arg') == 'omitted' and any(c['req'] in RAISES for c in case['comps']):
            ctx.count('independent_middleware_OMITTED_and_a_process_request_raises_' + case.get('entry', 'base class'))
    if case['target'] not in ('route', 'nomethod') and any(c['rsrc'] is not None for c in case['comps']):
        ctx.count('request_without_route_match_' + case['target'] + '_with_process_resource_components')
    ctx.count(f"components_{len(case['comps'])}")
    for c in case['comps']:
        ex = c.get('extras') or {}
        if ex:
            ctx.count('component_shape_http_' + ('+'.join(k for k in METHS if c[k] is not None) or 'none') + '_with_' +
                      ('lifespan' if ('startup' in ex or 'shutdown' in ex) else '') + ('+' if (('startup' in ex or 'shutdown' in ex) and ('request_ws' in ex or 'resource_ws' in ex)) else '') +
                      ('ws' if ('request_ws' in ex or 'resource_ws' in ex) else '') + '_methods_' + case['stack'])
    if case['target'] in ('route', 'nomethod'):
        ctx.count('resource_object_' + case.get('resobj', 'plain') + '_' + case['target'])
    ctx.count('request_method_' + ('standard' if verb in STD_VERBS else 'webdav' if verb in DAV_VERBS else 'custom') +
              ('_class_level_hooks' if case['hooks'] and case.get('class_hooks', 0) and case['target'] == 'route' else ''))
    nf = sum(1 for c in case['comps'] for k in METHS if c[k] not in (None, 'ret')) + (case['responder'] != 'ret') + sum(1 for _, a in case['hooks'] if a != 'ret')
    ctx.count(f'faults_{min(nf, 4)}{"+" if nf >= 4 else ""}')
    if case.get('hcomplete'):
        ctx.count('handlers_setting_complete')
        if any(t.startswith('h:') and t[2:].partition('@')[0] in case['hcomplete'] for t in trace):
            ctx.count('handler_set_complete_invoked')
    if case['hooks']:
        if any(a == 'complete' for _, a in case['hooks']) and any(t.startswith(('bef:', 'aft:')) for t in trace):
            ctx.count('hook_stack_with_completing_hook_reached')
        ctx.count(f"hooks_{len(case['hooks'])}")
        ctx.count('class_level_hooks_%d_layout_%s' % (min(case.get('class_hooks', 0), 1), case.get('layout', 'flat')))
    if exp_esc:
        ctx.count('escaped_no_handler' if trace and not trace[-1].startswith('h:') else 'escaped_handler_raised_plain_exception')
    # the registration table
    tb = case.get('handlers') or {}
    ctx.count(f'handler_table_entries_{len(tb)}')
    for k_, b_ in tb.items():
        ctx.count(f"handler_table_{ {'S': 'HTTPStatus', 'E': 'HTTPError', 'X': 'Exception'}[k_] }_{b_}")
    for t in exp_tr:
        if t.startswith('h:'):
            who = t[2:].partition('@')[0]
            beh = case['hier']['reg'][int(who.partition('#')[2])][1] if who.startswith('M') else tb[who] if who in tb else OWN_BEH[who]
            ctx.count('handler_invoked_' + ({'S': 'for_HTTPStatus', 'E': 'for_HTTPError', 'X': 'for_Exception'}.get(who, 'for_a_class_of_the_generated_hierarchy' if who.startswith('M') else 'for_own_class')) + '_' + beh)
            # the handler raised (or re-raised) an HTTPStatus / HTTPError while the application has its own handler registered for that class
            raises = {'status': 'S', 'http': 'E'}.get(beh) or ({'S': 'S', 'E': 'E'}.get(who) if beh == 'same' else None)
            if raises in tb:
                ctx.count('handler_raised_what_another_registered_handler_would_take_' + case['stack'])
    # the spelling of the middleware methods, per method
    for c in case['comps']:
        sp = c.get('spell')
        if sp:
            kinds = {('plain' if sp.get(m, 0) == 0 else 'async') for m in METHS if c[m] is not None}
            ctx.count('component_spelling_per_method_' + case['stack'] + ('_MIXED_plain_and_async' if len(kinds) == 2 else '_uniform'))
            for m in METHS:
                if c[m] is not None:
                    ctx.count(f"method_spelling_{case['stack']}_{m}_{sp.get(m, 0)}")
        if c.get('ghost') and case['stack'] == 'wsgi':
            ctx.count('wsgi_component_with_async_only_method')


def _mix(idx):
    """a deterministic scrambling of the enumeration index: the dimensions that are rotated (not multiplied) through an enumerated family
    must not run in step with its loop variables"""
    return ((idx * 0x9E3779B1) & 0xFFFFFFFF) >> 9


def _shapes(n):
    import itertools
    subsets = [s for s in itertools.product([False, True], repeat=3) if any(s)]
    return itertools.product(subsets, repeat=n)


FAULTS2 = ['complete', 'http', 'app_h', 'app_he']     # the fault kinds used for exhaustive double placements


def _enumerated(ctx, max_single, max_double):
    """every stack of <= max_single components x every single-fault placement (+ the fault-free run), and every stack of
    <= max_double components x every double placement of FAULTS2, each x both modes x {route, unrouted} x WSGI+ASGI"""
    import itertools
    idx = 0
    i, k = ctx.shard
    for n in range(max(max_single, max_double) + 1):
        for shape in _shapes(n):
            sites = [(ci, m) for ci, sh in enumerate(shape) for m, on in zip(METHS, sh) if on] + [('responder', None)]
            placements = []
            if n <= max_single:
                placements += [()] + [((s, f),) for s in sites for f in (FAULTS if n < max_single else FAULTS2)]
            if n <= max_double:
                placements += [((s1, f1), (s2, f2)) for s1, s2 in itertools.combinations(sites, 2) for f1 in FAULTS2 for f2 in FAULTS2]
            for pi, pl in enumerate(placements):
                for indep in (True, False):
                    for target in (('route', 'none') if n < max(3, max_single) else ('route',)):
                        for stack in (('wsgi', 'asgi') if n < 4 else (('wsgi', 'asgi')[(pi + indep) % 2],)):
                            idx += 1
                            if idx % k != i:
                                continue
                            comps = [{m: ('ret' if on else None) for m, on in zip(METHS, sh)} for sh in shape]
                            responder = 'ret'
                            for (ci, m), f in pl:
                                if ci == 'responder':
                                    responder = f
                                else:
                                    comps[ci][m] = f
                            case = {'stack': stack, 'independent': indep, 'target': target, 'comps': comps, 'hooks': [], 'responder': responder}
                            h = _mix(idx)
                            if target == 'route' and h % 2:
                                case['resobj'] = RESOBJ[(h // 2) % len(RESOBJ)]       # every other routed run: one of the seven resource-object kinds
                            if (h // 16) % 4 == 0:
                                case['verb'] = VERBS[(h // 64) % len(VERBS)]          # every fourth run: a request method other than GET
                            if idx % 3 == 0 and any(f in CUSTOM for _, f in pl):
                                case['hcomplete'] = list(CUSTOM)      # every third faulty run: the custom error handlers set resp.complete
                            yield len(pl), case


def _enumerated_hooks(ctx, max_hooks):
    """every stacking of <= max_hooks before/after decorators x every split into class-level / method-level x every single-fault
    placement on a hook or the responder (+ the fault-free run, + every pair of {complete, handled app error} on two sites), around
    one middleware component implementing all three methods, x both modes x WSGI+ASGI x handlers that do / do not set resp.complete"""
    import itertools
    idx = 0
    i, k = ctx.shard
    for n in range(1, max_hooks + 1):
        for kinds in itertools.product(('before', 'after'), repeat=n):
            sites = list(range(n)) + ['responder']
            placements = [()] + [((s, f),) for s in sites for f in FAULTS]
            placements += [((s1, f1), (s2, f2)) for s1, s2 in itertools.combinations(sites, 2)
                           for f1 in ('complete', 'app_h') for f2 in ('complete', 'app_h', 'app_he')]
            for pi, pl in enumerate(placements):
                for n_class in range(n + 1):
                    for indep in (True, False):
                        for stack in ('wsgi', 'asgi'):
                            idx += 1
                            if idx % k != i:
                                continue
                            hooks = [[kind, 'ret'] for kind in kinds]
                            responder = 'ret'
                            for s_, f in pl:
                                if s_ == 'responder':
                                    responder = f
                                else:
                                    hooks[s_][1] = f
                            case = {'stack': stack, 'independent': indep, 'target': 'route', 'comps': [{m: 'ret' for m in METHS}],
                                    'hooks': hooks, 'responder': responder, 'class_hooks': n_class,
                                    'layout': LAYOUTS[(pi + n_class) % len(LAYOUTS)]}
                            # the responder's request method and the resource object rotate independently of layout / split / mode / stack
                            h = _mix(idx)
                            case['verb'] = VERBS[h % len(VERBS)]
                            if (h // 16) % 3:
                                case['resobj'] = RESOBJ[(h // 64) % len(RESOBJ)]
                            if (pi + n_class + indep) % 2:
                                case['hcomplete'] = list(CUSTOM)
                            yield len(pl), case


def _enumerated_shapes(ctx):
    """every component SHAPE = subset of the seven middleware methods (3 HTTP + startup/shutdown + process_request_ws/process_resource_ws;
    the 15 shapes without any HTTP method on ASGI only - falcon rejects them on WSGI), alone / below / above a component with all three
    HTTP methods, x both modes x {route, unrouted} x WSGI+ASGI x the fault-free run and a raise or a completion at each of its HTTP methods.
    The HTTP call discipline may depend on the HTTP methods only."""
    idx = 0
    i, k = ctx.shard
    for mask in range(1, 128):
        http = [m for b, m in enumerate(METHS) if mask >> b & 1]
        extras = {x: 'ret' for b, x in enumerate(EXTRAS) if mask >> (3 + b) & 1}
        placements = [None] + [(m, f) for m in http for f in ('http', 'complete')]
        for pos in ('alone', 'below_full', 'above_full'):
            for pl in placements:
                for indep in (True, False):
                    for target in ('route', 'none'):
                        for stack in ('wsgi', 'asgi'):
                            if not http and stack == 'wsgi':
                                continue
                            idx += 1
                            if idx % k != i:
                                continue
                            comp = {m: ('ret' if m in http else None) for m in METHS}
                            comp['extras'] = dict(extras)
                            h = _mix(idx)
                            if h % 3 == 1:
                                comp['variant'] = 1 + (h // 3) % 2
                            if pl is not None:
                                comp[pl[0]] = pl[1]
                            full = {m: 'ret' for m in METHS}
                            comps = {'alone': [comp], 'below_full': [full, comp], 'above_full': [comp, full]}[pos]
                            yield (0 if pl is None else 1), {'stack': stack, 'independent': indep, 'target': target, 'comps': comps, 'hooks': [],
                                                             'responder': 'ret'}


def _enumerated_tables(ctx, full):
    """THE REGISTRATION TABLE: every table over {HTTPStatus, HTTPError, Exception} x {no handler of the application's (falcon's default),
    sets, raises HTTPError, raises HTTPStatus, re-raises what it got, raises a plain exception} (216 tables) x what is raised {HTTPError,
    HTTPStatus, an application class without handler, application classes whose own handler sets / raises HTTPError / raises HTTPStatus /
    raises a plain exception / re-raises, falcon's own 404, falcon's own 405, nothing} x WSGI+ASGI, between two full components; the
    raising site (process_request / process_resource of either component, the responder, a hook, process_response of either component)
    and the middleware mode rotate by a scrambled index (thorough: every site x both modes)."""
    idx = 0
    i, k = ctx.shard
    opts = [None] + BEHS
    sites = [(0, 'req'), (1, 'req'), (0, 'rsrc'), (1, 'rsrc'), 'responder', 'hook_before', 'hook_after', (1, 'resp'), (0, 'resp')]
    for s_ in opts:
        for e_ in opts:
            for x_ in opts:
                table = {key: v for key, v in zip(TABLE_KEYS, (s_, e_, x_)) if v is not None}
                for kind in ['http', 'status', 'app_d', 'app_h', 'app_hh', 'app_hs', 'app_he', 'app_hr', 'fw404', 'fw405', None]:
                    for stack in ('wsgi', 'asgi'):
                        idx += 1
                        h = _mix(idx)
                        variants = [(st_, ind) for st_ in sites for ind in (True, False)] if (full and kind not in ('fw404', 'fw405', None)) \
                            else [(sites[(h // 2) % len(sites)], bool(h % 2))]
                        for vi, (st_, indep) in enumerate(variants):
                            if (idx + vi) % k != i:
                                continue
                            comps = [{m: 'ret' for m in METHS}, {m: 'ret' for m in METHS}]
                            case = {'stack': stack, 'independent': indep, 'target': 'route', 'comps': comps, 'hooks': [], 'responder': 'ret',
                                    'handlers': dict(table)}
                            if kind == 'fw404':
                                case['target'] = 'none'
                            elif kind == 'fw405':
                                case['target'] = 'nomethod'
                            elif kind is not None:
                                if st_ == 'responder':
                                    case['responder'] = kind
                                elif st_ == 'hook_before':
                                    case['hooks'] = [['before', kind], ['after', 'ret']]
                                elif st_ == 'hook_after':
                                    case['hooks'] = [['before', 'ret'], ['after', kind]]
                                else:
                                    comps[st_[0]][st_[1]] = kind
                            if case['hooks']:
                                case['class_hooks'] = (h // 32) % 3
                            if (h // 128) % 4 == 0:
                                case['hcomplete'] = list(CUSTOM)
                            yield (0 if kind is None else 1), case


def _enumerated_spellings(ctx):
    """THE SPELLING OF EACH METHOD, independently per method, inside one component.  ASGI: each of process_request / process_resource /
    process_response is {absent, a plain coroutine, `*_async` next to a sync function of the plain name, `*_async` alone, `*_async` next to
    a plain coroutine (the *_async one is the ASGI version)}: all 124 non-empty combinations.  WSGI: {absent, absent but with an `*_async`
    version (ignored), plain sync, plain sync next to an `*_async` coroutine}: all 56 combinations with at least one WSGI method.  Alone and
    between two full components x both modes x {route, unrouted} x the fault-free run and a raise at each of its methods."""
    import itertools
    idx = 0
    i, k = ctx.shard
    for stack in ('asgi', 'wsgi'):
        states = [None, 0, 1, 2, 3] if stack == 'asgi' else [None, 'ghost', 0, 1]
        for combo in itertools.product(states, repeat=3):
            present = [m for m, v in zip(METHS, combo) if isinstance(v, int)]
            if not present:
                continue
            for pos in ('alone', 'middle'):
                for indep in (True, False):
                    for target in ('route', 'none'):
                        for pl in [None] + present:
                            idx += 1
                            if idx % k != i:
                                continue
                            comp = {m: ('ret' if isinstance(v, int) else None) for m, v in zip(METHS, combo)}
                            comp['spell'] = {m: v for m, v in zip(METHS, combo) if isinstance(v, int)}
                            ghost = [m for m, v in zip(METHS, combo) if v == 'ghost']
                            if ghost:
                                comp['ghost'] = ghost
                            if pl is not None:
                                comp[pl] = 'http'
                            full = {m: 'ret' for m in METHS}
                            comps = [comp] if pos == 'alone' else [dict(full), comp, dict(full)]
                            yield (0 if pl is None else 1), {'stack': stack, 'independent': indep, 'target': target, 'comps': comps, 'hooks': [],
                                                             'responder': 'ret'}


def _enumerated_ctor(ctx):
    """THE DEFAULTS OF EVERY PUBLIC CONSTRUCTOR NAME: falcon.App / falcon.API / falcon.asgi.App and a user subclass of each x independent_middleware
    {LEFT OUT (documented default: True), keyword True / False, positional True / False} x the components through the constructor (keyword /
    positional), add_middleware (all at once / one by one) or both x where something raises (a process_request of the 1st / 2nd / 3rd component -
    the only sites at which the two modes differ -, a process_resource, the responder, a process_response, nothing) x {HTTPError, handled app
    error} x {route, unrouted}; stack: three full components and a process_response-only one."""
    idx = 0
    i, k = ctx.shard
    sites = [None, (0, 'req'), (1, 'req'), (2, 'req'), (1, 'rsrc'), 'responder', (2, 'resp')]
    for stack in ('wsgi', 'asgi'):
        for entry in ENTRIES[stack]:
            for mode_arg, indep in (('omitted', True), ('keyword', True), ('keyword', False), ('positional', True), ('positional', False)):
                for mw_arg in MW_ARGS:
                    for st_ in sites:
                        for f in (('http', 'app_h') if st_ is not None else ('ret',)):
                            for target in ('route', 'none'):
                                idx += 1
                                if idx % k != i:
                                    continue
                                comps = [{m: 'ret' for m in METHS} for _ in range(3)] + [{'req': None, 'rsrc': None, 'resp': 'ret'}]
                                case = {'stack': stack, 'independent': indep, 'target': target, 'comps': comps, 'hooks': [], 'responder': 'ret',
                                        'entry': entry, 'mode_arg': mode_arg, 'mw_arg': mw_arg}
                                if st_ == 'responder':
                                    case['responder'] = f
                                elif st_ is not None:
                                    comps[st_[0]][st_[1]] = f
                                yield (0 if st_ is None else 1), case


def _enumerated_targets(ctx):
    """REQUEST TARGETS THAT ARE NOT ROUTES, with process_resource components present: a static route (existing file, fallback file, no file: 404),
    a sink, nothing at all - and the two routed targets for comparison - x four stacks containing process_resource methods x what the first
    process_resource would do if it were called {return, complete, raise HTTPError, raise a handled app error} x both modes x WSGI+ASGI, the
    constructor name rotated.  Resource methods run only after a successful ROUTE match, and then they receive the routed resource object."""
    idx = 0
    i, k = ctx.shard
    full = {m: 'ret' for m in METHS}
    stacks = [[full], [full, full], [{'req': None, 'rsrc': 'ret', 'resp': None}],
              [{'req': 'ret', 'rsrc': None, 'resp': None}, {'req': None, 'rsrc': 'ret', 'resp': None}, {'req': None, 'rsrc': None, 'resp': 'ret'}]]
    for target in STATIC_TARGETS + ('sink', 'none', 'route', 'nomethod'):
        for si, st_ in enumerate(stacks):
            for f in ('ret', 'complete', 'http', 'app_h'):
                for indep in (True, False):
                    for stack in ('wsgi', 'asgi'):
                        idx += 1
                        if idx % k != i:
                            continue
                        comps = [dict(c) for c in st_]
                        next(c for c in comps if c['rsrc'] is not None)['rsrc'] = f
                        h = _mix(idx)
                        case = {'stack': stack, 'independent': indep, 'target': target, 'comps': comps, 'hooks': [], 'responder': 'ret',
                                'entry': ENTRIES[stack][h % len(ENTRIES[stack])]}
                        if target == 'route' and (h // 8) % 2:
                            case['resobj'] = RESOBJ[(h // 16) % len(RESOBJ)]
                        yield (0 if f == 'ret' else 1), case


# ------------------------------------------------------------------ the class hierarchy of what is raised

HIER_TEMPLATES = [
    # (classes in definition order; the LAST one is raised)
    [['AppError', ['Exception']], ['Raised', ['AppError', 'HTTPTooManyRequests']]],            # application base first, falcon class second
    [['AppError', ['Exception']], ['Raised', ['HTTPForbidden', 'AppError']]],                  # falcon class first
    [['AppError', ['Exception']], ['Raised', ['AppError', 'HTTPForbidden']]],
    [['AppError', ['Exception']], ['Raised', ['ValueError', 'AppError']]],                     # two plain exception bases
    [['AppError', ['Exception']], ['Raised', ['AppError', 'ValueError']]],
    [['AppError', ['Exception']], ['Raised', ['KeyError', 'AppError']]],                       # (KeyError -> LookupError -> Exception)
    [['Root', ['Exception']], ['Left', ['Root']], ['Right', ['Root']], ['Raised', ['Left', 'Right']]],                       # diamond
    [['Root', ['Exception']], ['Left', ['Root']], ['Right', ['Root', 'HTTPForbidden']], ['Raised', ['Left', 'Right']]],      # diamond, falcon class on one side
    [['Root', ['RuntimeError']], ['Left', ['Root']], ['Right', ['Root']], ['Mid', ['Left', 'Right']], ['Raised', ['Mid', 'HTTPNotFound']]],
    [['Tagged', []], ['Raised', ['Tagged', 'ValueError']]],                                    # a mixin that is not an exception
    [['Tagged', []], ['AppError', ['Exception']], ['Raised', ['Tagged', 'ValueError', 'AppError']]],
    [['Tagged', []], ['AppError', ['Tagged', 'Exception']], ['Raised', ['AppError', 'HTTPForbidden']]],
    [['A', ['Exception']], ['B', ['Exception']], ['C', ['A']], ['Raised', ['C', 'B']]],        # the second base outranks the ancestors of the first
    [['A', ['Exception']], ['B', ['A']], ['Raised', ['B', 'HTTPForbidden']]],
    [['AppError', ['Exception']], ['Raised', ['AppError', 'HTTPStatus']]],
    [['AppError', ['Exception']], ['Raised', ['HTTPStatus', 'AppError']]],
    [['Tagged', []], ['Raised', ['Tagged', 'BaseOnly']]],                                      # BaseException only: no handler can exist
    [['AppError', ['Exception']], ['Raised', ['AppError']]],                                   # single inheritance, for comparison
    [['AppError', ['HTTPForbidden']], ['Raised', ['AppError']]],
]
HIER_SITES = [(0, 'req'), (1, 'req'), (0, 'rsrc'), 'responder', 'hook_before', 'hook_after', (1, 'resp'), (0, 'resp')]


def _hier_registrable(classes_list):
    """the exception classes of the MRO of the raised class a handler may be registered for here (HTTPError / HTTPStatus / Exception go through
    case['handlers']; falcon rejects classes that are not exceptions)"""
    classes = dict(HIER_BUILTIN, **{n: list(b) for n, b in classes_list})
    mro = _c3(classes_list[-1][0], classes)
    return [c for c in mro if c not in HIER_TABLED and 'Exception' in _c3(c, classes)]      # (BaseException-only classes: not caught by falcon, by design)


def _place(case, st_, kind):
    if st_ == 'responder':
        case['responder'] = kind
    elif st_ == 'hook_before':
        case['hooks'] = [['before', kind], ['after', 'ret']]
    elif st_ == 'hook_after':
        case['hooks'] = [['before', 'ret'], ['after', kind]]
    else:
        case['comps'][st_[0]][st_[1]] = kind


def _enumerated_hier(ctx, full):
    """THE SHAPE OF THE CLASS HIERARCHY OF WHAT IS RAISED: every template x handlers registered for {nothing, each single class of the MRO - the raised
    class, its first base, a later base, an ancestor of either, a common ancestor -, each pair of them, the same class twice (the latest wins)}
    x WSGI+ASGI, between two full components; what the handlers do, the raising site and the middleware mode rotate by a scrambled index
    (thorough: every site)."""
    import itertools
    idx = 0
    i, k = ctx.shard
    behs = ['sets', 'http', 'status', 'plain', 'same']
    for ti, tpl in enumerate(HIER_TEMPLATES):
        able = _hier_registrable(tpl)
        regsets = [()] + [(c,) for c in able] + list(itertools.combinations(able, 2)) + [(c, c) for c in able]
        for rs in regsets:
            for stack in ('wsgi', 'asgi'):
                idx += 1
                h = _mix(idx)
                for vi, st_ in enumerate(HIER_SITES if full else [HIER_SITES[(h // 2) % len(HIER_SITES)]]):
                    if (idx + vi) % k != i:
                        continue
                    reg = [[c, behs[(h // 16 + 3 * j) % (len(behs) if (h // 8) % 4 == 0 else 2)]] for j, c in enumerate(rs)]
                    if len(rs) == 2 and rs[0] == rs[1] and reg[0][1] == reg[1][1]:
                        reg[1][1] = 'http' if reg[0][1] == 'sets' else 'sets'         # twice the same class: two different handlers
                    if (h // 64) % 2:
                        reg.reverse()
                    case = {'stack': stack, 'independent': bool((h + vi) % 2), 'target': 'route', 'comps': [{m: 'ret' for m in METHS}, {m: 'ret' for m in METHS}],
                            'hooks': [], 'responder': 'ret', 'hier': {'classes': [[n, list(b)] for n, b in tpl], 'raised': tpl[-1][0], 'reg': reg}}
                    _place(case, st_, 'mi')
                    if case['hooks']:
                        case['class_hooks'] = (h // 32) % 3
                    if (h // 128) % 4 == 0:
                        case['hcomplete'] = list(CUSTOM)
                    if (h // 512) % 5 == 0:
                        case['handlers'] = {TABLE_KEYS[(h // 4096) % 3]: BEHS[(h // 16384) % len(BEHS)]}
                    yield 1, case


def _random_hier(rnd):
    """a random hierarchy: 2..6 classes, each with 0..3 bases among the earlier ones and the built-in / falcon classes; the last one (an
    exception class) is raised; handlers for a random choice of exception classes in and outside its MRO"""
    roots = ['Exception', 'Exception', 'ValueError', 'KeyError', 'LookupError', 'RuntimeError', 'HTTPForbidden', 'HTTPTooManyRequests', 'HTTPNotFound',
             'HTTPError', 'HTTPStatus', 'BaseOnly']
    for _ in range(50):
        classes = []
        for j in range(rnd.randint(2, 6)):
            pool = [n for n, _b in classes] + rnd.sample(roots, 3)
            nb = rnd.choice([0, 1, 1, 2, 2, 2, 3]) if j < 2 else rnd.choice([1, 2, 2, 2, 3])
            classes.append([f'K{j}', rnd.sample(pool, min(nb, len(pool)))])
        table = dict(HIER_BUILTIN, **{n: list(b) for n, b in classes})
        mro = _c3(classes[-1][0], table)
        if mro is None or 'BaseException' not in mro or any(_c3(n, table) is None for n, _b in classes):
            continue
        if 'HTTPStatus' in mro and 'HTTPError' in mro:
            continue                            # (instance lay-out conflict: the interpreter rejects the class)
        if any('HTTPStatus' in _c3(n, table) and 'HTTPError' in _c3(n, table) for n, _b in classes):
            continue
        able = _hier_registrable(classes)
        other = [n for n, _b in classes if n not in mro and 'Exception' in _c3(n, table)] + ['ValueError', 'KeyError', 'HTTPNotFound']
        reg = [[c, rnd.choice(BEHS)] for c in rnd.sample(able, rnd.randint(0, min(3, len(able))))]
        reg += [[c, rnd.choice(BEHS)] for c in rnd.sample(other, rnd.randint(0, 2)) if c not in mro]
        if reg and rnd.random() < 0.3:
            reg.append([rnd.choice(reg)[0], rnd.choice(BEHS)])      # one class registered again: the latest wins
        rnd.shuffle(reg)
        return {'classes': classes, 'raised': classes[-1][0], 'reg': reg}
    return {'classes': [[n, list(b)] for n, b in HIER_TEMPLATES[0]], 'raised': 'Raised', 'reg': [['AppError', 'sets']]}


LAYOUTS = ['flat', 'suffix', 'inherited', 'inherited_suffix', 'grandparent', 'mixin', 'base_decorated', 'split_decorated']


def _random_case(rnd):
    n = rnd.choice([0, 1, 2, 2, 3, 3, 4, 4, 5, 5])
    comps = []
    for _ in range(n):
        c = {m: ('ret' if rnd.random() < 0.6 else None) for m in METHS}
        if all(v is None for v in c.values()):
            c[rnd.choice(METHS)] = 'ret'
        r_ = rnd.random()
        if r_ < 0.25:
            c['variant'] = rnd.choice([1, 1, 2])
        elif r_ < 0.6:
            # the spelling of each method on its own (on WSGI 1 / 3 = with an *_async twin); a missing method may still have an *_async version
            c['spell'] = {m: rnd.choice([0, 0, 1, 2, 3]) for m in METHS if c[m] is not None}
            ghost = [m for m in METHS if c[m] is None and rnd.random() < 0.3]
            if ghost:
                c['ghost'] = ghost
        if rnd.random() < 0.4:
            c['extras'] = {x: 'ret' for x in rnd.sample(EXTRAS, rnd.randint(1, len(EXTRAS)))}   # lifespan / WebSocket methods on the same component
        comps.append(c)
    stack = rnd.choice(['wsgi', 'asgi'])
    if stack == 'asgi' and comps and rnd.random() < 0.15:
        # a component without any HTTP method (ASGI accepts it if it has a lifespan or WebSocket method): a no-op in every HTTP stack
        comps.insert(rnd.randint(0, len(comps)), {'req': None, 'rsrc': None, 'resp': None,
                                                  'extras': {x: 'ret' for x in rnd.sample(EXTRAS, rnd.randint(1, len(EXTRAS)))}})
    target = rnd.choice(['route', 'route', 'route', 'route', 'route', 'nomethod', 'sink', 'none', 'static', 'static_fallback', 'static_missing'])
    hooks = []
    if target == 'route' and rnd.random() < 0.6:
        hooks = [[rnd.choice(['before', 'after']), 'ret'] for _ in range(rnd.randint(1, 3))]
    case = {'stack': stack, 'independent': rnd.random() < 0.5, 'target': target, 'comps': comps,
            'hooks': hooks, 'responder': 'ret'}
    # how the app object is constructed: entry point, independent_middleware by keyword / positional / LEFT OUT (documented default True), the
    # components through the constructor or add_middleware
    if rnd.random() < 0.5:
        case['entry'] = rnd.choice(ENTRIES[stack])
    r_ = rnd.random()
    if r_ < 0.5 and case['independent']:
        case['mode_arg'] = 'omitted'
    elif r_ < 0.65:
        case['mode_arg'] = 'positional'
    if rnd.random() < 0.35:
        case['mw_arg'] = rnd.choice(MW_ARGS)
    if rnd.random() < 0.5:
        case['verb'] = rnd.choice(VERBS)
    if target in ('route', 'nomethod') and rnd.random() < 0.5:
        case['resobj'] = rnd.choice(RESOBJ)
    if hooks:
        case['class_hooks'] = rnd.randint(0, len(hooks))
    if target in ('route', 'nomethod') and rnd.random() < 0.6:
        case['layout'] = rnd.choice(LAYOUTS)
    if rnd.random() < 0.4:
        case['hcomplete'] = sorted(rnd.sample(CUSTOM, rnd.randint(1, len(CUSTOM))))   # these error handlers set resp.complete = True
    if rnd.random() < 0.35:
        # the registration table: the application's own handlers for HTTPStatus / HTTPError / Exception
        case['handlers'] = {key: rnd.choice(BEHS) for key in rnd.sample(TABLE_KEYS, rnd.choice([1, 1, 2, 3]))}
    sites = [(ci, m) for ci, c in enumerate(comps) for m in METHS if c[m] is not None] + [('responder', None)] + [('hook', k) for k in range(len(hooks))]
    if rnd.random() < 0.12:
        case['hier'] = _random_hier(rnd)        # what is raised (action 'mi') is of a class with a generated hierarchy
    for (a, b) in rnd.sample(sites, min(len(sites), rnd.choice([0, 1, 1, 2, 2, 3, 4]))):
        f = rnd.choice(FAULTS_T if 'handlers' in case or rnd.random() < 0.2 else FAULTS)
        if 'hier' in case and rnd.random() < 0.6:
            f = 'mi'
        if a == 'responder':
            case['responder'] = f
        elif a == 'hook':
            hooks[b][1] = f
        else:
            comps[a][b] = f
    if target in STATIC_TARGETS:
        case['responder'] = 'ret'          # the responder is falcon's static route: it serves (returns) or raises falcon's 404
    return case


def run(ctx):
    from falcon import constants
    missing = [m for m in CUSTOM_METHODS if m not in constants.COMBINED_METHODS]
    if missing:
        # (never on the unchanged tree under the runner: this module sets the variable before the worker imports falcon)
        ctx.notes.append(f'custom HTTP methods {missing} are not in falcon.constants.COMBINED_METHODS although FALCON_CUSTOM_HTTP_METHODS was set '
                         f'{"after" if _FALCON_PRELOADED else "before"} falcon was imported: responders for custom methods are not exercised in this run')
        ctx.count('custom_methods_unavailable')
        for m in missing:
            VERBS.remove(m)
    import shutil
    import tempfile
    _ASSETS['dir'] = tempfile.mkdtemp(prefix='c03static_')
    try:
        with open(_os.path.join(_ASSETS['dir'], 'logo.txt'), 'wb') as f:
            f.write(STATIC_FILE)
        with open(_os.path.join(_ASSETS['dir'], 'index.txt'), 'wb') as f:
            f.write(STATIC_FALLBACK)
        _requests(ctx)
        _prepare(ctx)
        _websocket(ctx)
        _lifespan(ctx)
    finally:
        shutil.rmtree(_ASSETS['dir'], ignore_errors=True)


def _requests(ctx):
    rnd = ctx.rng
    sess = ctx.session('App.__call__ call trace (WSGI+ASGI) = Pl.run', 'pldriver')
    hsess = ctx.session('falcon.before/after wrapped responder = Hk.wrap', 'hkdriver')
    xsess = ctx.session('App.__call__ + _handle_exception: calls, error-handler invocations (with site), final status / escape (WSGI+ASGI) = Pe.run', 'pldriver')
    psess = ctx.session('App.__call__ with the falcon.before/after-wrapped responder spelled out: every middleware, hook and responder call, '
                        'error-handler invocations with the site (hook included) whose error they got, handlers that set resp.complete, '
                        'final status / escape, final resp.complete (WSGI+ASGI) = Ph.run', 'phdriver')
    tsess = ctx.session('App.__call__ + _find_error_handler + _handle_exception with the REGISTRATION TABLE of error handlers as an input (the application\'s own '
                        'handlers for HTTPStatus / HTTPError / Exception and for its own classes; returning, raising HTTPError / HTTPStatus / a plain exception, re-raising): '
                        'every call, WHICH handler is invoked for which site, final status / escape, final resp.complete (WSGI+ASGI) = Pg.run', 'pgdriver')
    esess = ctx.session('App._find_error_handler for an instance of a class with a generated HIERARCHY (several bases, diamonds, mixins; handlers registered for any '
                        'classes of it, some twice) = Eh.find over type(ex).__mro__[:-1] and the registration history', 'ehdriver')
    if not ctx.searching:
        for nf, case in _enumerated_hier(ctx, not ctx.quick):
            _execute(ctx, sess, hsess, case, xsess=xsess, psess=psess, tsess=tsess, esess=esess)
            ctx.count(f'enumerated_class_hierarchies_{nf}_fault')
        for nf, case in _enumerated(ctx, *((3, 1) if ctx.quick else (4, 2))):
            _execute(ctx, sess, hsess, case, xsess=xsess, psess=psess, tsess=tsess)
            ctx.count(f'enumerated_{nf}_fault')
        for nf, case in _enumerated_hooks(ctx, 3 if ctx.quick else 4):
            _execute(ctx, sess, hsess, case, xsess=xsess, psess=psess, tsess=tsess)
            ctx.count(f'enumerated_hooks_{nf}_fault')
        for nf, case in _enumerated_shapes(ctx):
            _execute(ctx, sess, hsess, case, xsess=xsess, psess=psess, tsess=tsess)
            ctx.count(f'enumerated_shapes_{nf}_fault')
        for nf, case in _enumerated_tables(ctx, not ctx.quick):
            _execute(ctx, sess, hsess, case, xsess=xsess, psess=psess, tsess=tsess)
            ctx.count(f'enumerated_handler_tables_{nf}_fault')
        for nf, case in _enumerated_spellings(ctx):
            _execute(ctx, sess, hsess, case, xsess=xsess, psess=psess, tsess=tsess)
            ctx.count(f'enumerated_method_spellings_{nf}_fault')
        for nf, case in _enumerated_ctor(ctx):
            _execute(ctx, sess, hsess, case, xsess=xsess, psess=psess, tsess=tsess)
            ctx.count(f'enumerated_constructor_names_and_defaults_{nf}_fault')
        for nf, case in _enumerated_targets(ctx):
            _execute(ctx, sess, hsess, case, xsess=xsess, psess=psess, tsess=tsess)
            ctx.count(f'enumerated_targets_that_are_not_routes_{nf}_fault')
    for j in range(ctx.n(16000, 100000)):
        case = _random_case(rnd)
        _execute(ctx, sess, hsess, case, via_testing=(j % 16 == 0), xsess=xsess, psess=psess, tsess=tsess, esess=esess)
        ctx.count('random')
    sess.finish()
    esess.finish()
    xsess.finish()
    psess.finish()
    tsess.finish()
    hsess.finish()


# ------------------------------------------------------------------ prepare_middleware: how the methods of a component are found

def _prepare(ctx):
    """falcon.app_helpers.prepare_middleware on generated component objects against Pm.run: for each of the three HTTP methods the two
    attributes `process_x_async` / `process_x`, each absent / a coroutine function / a sync function (so also the combinations falcon
    rejects), a lifespan / WebSocket method or not; every single component (3^6 x 2) x ASGI/WSGI x both modes, and random stacks."""
    import itertools
    import falcon
    from falcon.app_helpers import prepare_middleware
    rnd = ctx.rng
    sess = ctx.session('falcon.app_helpers.prepare_middleware: which attribute of which component is on the request / resource / response stack, '
                       'CompatibilityError / TypeError (ASGI+WSGI, both modes) = Pm.run', 'pgdriver')
    KINDS = ['-', 'c', 's']

    def build(spec_):
        """spec_: (req_async, req, rsrc_async, rsrc, resp_async, resp, other) -> (component object, {function -> 'a' | 'p'})"""
        d, which = {}, {}
        for (name, _m), (ka, kp) in zip((('process_request', 0), ('process_resource', 1), ('process_response', 2)),
                                        ((spec_[0], spec_[1]), (spec_[2], spec_[3]), (spec_[4], spec_[5]))):
            for attr, kind, tag in ((name + '_async', ka, 'a'), (name, kp, 'p')):
                if kind == 'c':
                    async def f(self, *a, **k): pass
                elif kind == 's':
                    def f(self, *a, **k): pass
                else:
                    continue
                d[attr] = f
                which[f] = tag
        if spec_[6]:
            async def process_startup(self, scope, event): pass
            d['process_startup'] = process_startup
        return type('M', (), d)(), which

    def one(asgi, indep, specs):
        objs = [build(sp) for sp in specs]
        index = {id(o): i for i, (o, _) in enumerate(objs)}
        which = {}
        for _, w in objs:
            which.update(w)

        def show(m):
            return '-' if m is None else f'{index[id(m.__self__)]}:{which[m.__func__]}'
        try:
            rq, rs, rp = prepare_middleware([o for o, _ in objs], independent_middleware=indep, asgi=asgi)
            if indep:
                out_rq = ','.join(show(m) for m in rq) or '-'
            else:
                out_rq = ','.join(f"{index[id((a or b).__self__)]}:{'-' if a is None else which[a.__func__]}/{'-' if b is None else which[b.__func__]}" for a, b in rq) or '-'
            got = f"req={out_rq} rsrc={','.join(show(m) for m in rs) or '-'} resp={','.join(show(m) for m in rp) or '-'}"
        except falcon.CompatibilityError:
            got = 'CompatibilityError'
        except TypeError:
            got = 'TypeError'
        line = f"prep {int(asgi)} {int(indep)} " + ' '.join(f'{sp[0]}{sp[1]},{sp[2]}{sp[3]},{sp[4]}{sp[5]},{int(sp[6])}' for sp in specs)
        sess.case({'asgi': asgi, 'independent': indep, 'components': [list(sp) for sp in specs]})
        sess.op(line, got)
        ctx.seen(('prep', line), True)
        ctx.count('prepare_middleware_' + ('asgi' if asgi else 'wsgi') + '_' + ('accepted' if got.startswith('req=') else got))
        mixed = [sp for sp in specs if asgi and any(sp[j] == 'c' for j in (0, 2, 4)) and any(sp[j] == '-' and sp[j + 1] == 'c' for j in (0, 2, 4))]
        if mixed and got.startswith('req='):
            ctx.count('prepare_middleware_asgi_component_mixing_async_and_plain_coroutine_spellings')

    if not ctx.searching:
        idx = 0
        i, k = ctx.shard
        for attrs in itertools.product(KINDS, repeat=6):
            for other in (False, True):
                for asgi in (True, False):
                    idx += 1
                    if idx % k != i:
                        continue
                    one(asgi, bool(_mix(idx) % 2), [attrs + (other,)])
    for _ in range(ctx.n(3000, 40000)):
        n = rnd.choice([1, 2, 2, 3, 3, 4])
        asgi = rnd.random() < 0.6
        specs = []
        for _ in range(n):
            if rnd.random() < 0.75:
                # mostly acceptable components, so that whole stacks get built: coroutines (ASGI) / plain sync functions (WSGI) in random spellings
                sp = []
                for _m in range(3):
                    if asgi:
                        sp += rnd.choice([['-', '-'], ['-', 'c'], ['c', '-'], ['c', 's'], ['c', 'c']])
                    else:
                        sp += rnd.choice([['-', '-'], ['-', 's'], ['c', 's'], ['c', '-'], ['s', 's']])
                specs.append(tuple(sp) + (rnd.random() < 0.3,))
            else:
                specs.append(tuple(rnd.choice(KINDS) for _ in range(6)) + (rnd.random() < 0.3,))
        one(asgi, rnd.random() < 0.5, specs)
    sess.finish()


# ------------------------------------------------------------------ ASGI WebSocket handshakes: hooks around on_websocket

def spec_ws(case):
    """The documented order for a WebSocket handshake: process_request_ws top-down, (route matched) process_resource_ws top-down, then the
    WebSocket responder inside its hooks - before hooks outermost first, on_websocket, after hooks innermost first; the first raise ends
    the sequence.  No HTTP middleware method takes part.  Returns (trace, close code)."""
    tr = []

    def site(label, a):
        tr.append(label)
        return WS_CODE.get(a)
    for i, c in enumerate(case['comps']):
        a = (c.get('extras') or {}).get('request_ws')
        if a is not None:
            code = site(f'reqws:{i}', a)
            if code:
                return tr, code
    if case['target'] == 'none':
        return tr, 3404
    for i, c in enumerate(case['comps']):
        a = (c.get('extras') or {}).get('resource_ws')
        if a is not None:
            code = site(f'rsrcws:{i}', a)
            if code:
                return tr, code
    if case['target'] == 'nomethod':
        return tr, 3405
    befores = [(k, a) for k, (kind, a) in enumerate(case['hooks']) if kind == 'before']
    afters = [(k, a) for k, (kind, a) in enumerate(case['hooks']) if kind == 'after']
    for label, a in [(f'bef:{k}', a) for k, a in befores] + [('responder', case['responder'])] + [(f'aft:{k}', a) for k, a in reversed(afters)]:
        code = site(label, a)
        if code:
            return tr, code
    return tr, 1000


def _random_ws_case(rnd):
    comps = []
    for _ in range(rnd.choice([0, 1, 1, 2, 2, 3])):
        names = rnd.sample(METHS + EXTRAS, rnd.randint(1, 7))
        c = {m: ('ret' if m in names else None) for m in METHS}
        c['extras'] = {x: 'ret' for x in EXTRAS if x in names}
        if rnd.random() < 0.3:
            c['variant'] = rnd.choice([1, 2])
        comps.append(c)
    target = rnd.choice(['route', 'route', 'route', 'route', 'route', 'nomethod', 'none'])
    hooks = [[rnd.choice(['before', 'after']), 'ret'] for _ in range(rnd.choice([0, 1, 1, 2, 2, 3]))] if target == 'route' else []
    case = {'stack': 'asgi', 'kind': 'ws', 'independent': rnd.random() < 0.5, 'target': target, 'comps': comps, 'hooks': hooks, 'responder': 'ret'}
    if hooks:
        case['class_hooks'] = rnd.choice([0] + [len(hooks)] * 2 + list(range(len(hooks) + 1)))
    if target != 'none':
        case['layout'] = rnd.choice(LAYOUTS)
        if rnd.random() < 0.5:
            case['resobj'] = rnd.choice(RESOBJ)
    sites = [('ws', ci, x) for ci, c in enumerate(comps) for x in ('request_ws', 'resource_ws') if x in c['extras']] + [('responder',)] + [('hook', k) for k in range(len(hooks))]
    for s_ in rnd.sample(sites, min(len(sites), rnd.choice([0, 0, 1, 1, 2]))):
        f = rnd.choice(sorted(WS_CODE))
        if s_[0] == 'ws':
            comps[s_[1]]['extras'][s_[2]] = f
        elif s_[0] == 'hook':
            hooks[s_[1]][1] = f
        else:
            case['responder'] = f
    return case


ORACLE_WS = ('WebSocket handshake: process_request_ws / process_resource_ws top-down, then the hooks around on_websocket (before hooks outermost first, '
             'the responder, after hooks innermost first), cut at the first raise; no HTTP middleware method; close code')


def _websocket(ctx):
    """ASGI WebSocket handshakes through the whole app.  The Lean pipeline models (Pl/Pe/Ph.run) describe App.__call__ for HTTP requests only:
    these cases are judged by the oracle; the hook part of the trace is also compared with Hk.wrap."""
    import asyncio
    import itertools
    import falcon.testing as ft
    from lib_appcall import loop
    rnd = ctx.rng
    hsess = ctx.session('falcon.before/after wrapped on_websocket responder (ASGI WebSocket handshake) = Hk.wrap', 'hkdriver')

    async def call(app):
        scope = ft.create_scope_ws(path='/')
        events = [{'type': 'websocket.connect'}, {'type': 'websocket.disconnect', 'code': 1000}]
        never = asyncio.get_running_loop().create_future()
        sent = []

        async def receive():
            if events:
                return events.pop(0)
            await never

        async def send(ev):
            sent.append(ev)
        try:
            await asyncio.wait_for(app(scope, receive, send), 5)
        except asyncio.TimeoutError:
            return sent, 'did not return'
        except Exception as e:  # noqa
            return sent, e
        return sent, None

    def execute(case):
        trace = []
        app = _build(case, trace)
        sent, escaped = loop().run_until_complete(call(app))
        exp_tr, exp_code = spec_ws(case)
        codes = [e.get('code', 1000) for e in sent if e['type'] == 'websocket.close']
        what = None
        if trace != exp_tr:
            what = f'call trace {trace} differs from the documented order {exp_tr}'
        elif escaped is not None:
            what = f'the handshake ended with {escaped!r}'
        elif codes != [exp_code]:
            what = f'close codes sent {codes}, expected [{exp_code}]'
        ctx.oracle(ORACLE_WS, what is None, what, case)
        part = [t for t in trace if t.startswith(('bef:', 'aft:')) or t == 'responder']
        if case['hooks'] and part:
            hsess.case({'case': case})
            hsess.op(_hook_line(case), ' '.join(part))
        ctx.seen(('ws', repr(sorted(case.items(), key=str))), len(trace) > 0)
        ctx.count('websocket_handshake')
        ctx.count('websocket_target_' + case['target'])
        if case['target'] == 'route':
            ctx.count(f"websocket_hooks_{len(case['hooks'])}_class_level_{min(case.get('class_hooks', 0), 1)}")
            ctx.count('websocket_layout_' + case.get('layout', 'flat'))
        if case['target'] != 'none':
            ctx.count('websocket_resource_object_' + case.get('resobj', 'plain'))

    if not ctx.searching:
        # every stacking of 1..2 (quick) / 1..3 (thorough) hooks x every class-/method-level split x the fault-free run and every single raise
        idx = 0
        i, k = ctx.shard
        full = {'req': 'ret', 'rsrc': 'ret', 'resp': 'ret', 'extras': {x: 'ret' for x in EXTRAS}}
        for n in range(1, (2 if ctx.quick else 3) + 1):
            for kinds in itertools.product(('before', 'after'), repeat=n):
                for pl in [None] + [(s_, f) for s_ in list(range(n)) + ['responder'] for f in sorted(WS_CODE)]:
                    for n_class in range(n + 1):
                        for layout in LAYOUTS:
                            idx += 1
                            if idx % k != i:
                                continue
                            hooks = [[kind, 'ret'] for kind in kinds]
                            responder = 'ret'
                            if pl is not None and pl[0] == 'responder':
                                responder = pl[1]
                            elif pl is not None:
                                hooks[pl[0]][1] = pl[1]
                            h = _mix(idx)
                            case = {'stack': 'asgi', 'kind': 'ws', 'independent': bool(h % 2), 'target': 'route', 'comps': [dict(full, extras=dict(full['extras']))],
                                    'hooks': hooks, 'responder': responder, 'class_hooks': n_class, 'layout': layout}
                            if (h // 2) % 2:
                                case['resobj'] = RESOBJ[(h // 4) % len(RESOBJ)]
                            execute(case)
                            ctx.count('websocket_enumerated_hooks')
    for _ in range(ctx.n(2500, 30000)):
        execute(_random_ws_case(rnd))
    hsess.finish()


# ------------------------------------------------------------------ ASGI lifespan

def _lifespan_spec(comps, late=()):
    """startup handlers in order, shutdown handlers in reverse; the first failure is reported and stops the sequence - for the app's stack of
    components AT THE TIME THE EVENT IS PROCESSED: add_middleware is documented as "as if they had been appended to the original middleware list
    passed to the class initializer" and may be called at any time, also after the server opened the lifespan scope.  late: components added
    (in this order) `before_startup` (the scope is open, the startup event not yet delivered), `in_startup` (by the process_startup handler of
    component comps[i] with i in its 'adds' - the new component stands after the one that adds it, so it is started in the same pass) or
    `between` (after startup completed, before the shutdown event).  Returns (calls, events, the stack at the end)."""
    calls, events = [], []
    stack = [(i, c) for i, c in enumerate(comps)]
    n = len(comps)
    stack += [(n + j, c) for j, c in enumerate(late) if c['when'] == 'before_startup']
    started = set()
    pos = 0
    while pos < len(stack):
        i, c = stack[pos]
        pos += 1
        started.add(i)
        if c['startup'] is None:
            continue
        calls.append(f'startup:{i}')
        for j in c.get('adds', ()):
            stack.append((n + j, late[j]))
        if c['startup'] == 'raise':
            return calls, ['lifespan.startup.failed'], stack, started
    events.append('lifespan.startup.complete')
    stack += [(n + j, c) for j, c in enumerate(late) if c['when'] == 'between']
    for i, c in reversed(stack):
        if c['shutdown'] is None:
            continue
        calls.append(f'shutdown:{i}')
        if c['shutdown'] == 'raise':
            return calls, events + ['lifespan.shutdown.failed'], stack, started
    return calls, events + ['lifespan.shutdown.complete'], stack, started


LIFESPAN_OTHER = ['process_request', 'process_resource', 'process_response', 'process_request_ws', 'process_resource_ws']


def _lifespan(ctx):
    import asyncio
    import falcon.asgi
    from lib_appcall import loop
    rnd = ctx.rng
    sess = ctx.session('ASGI lifespan handler sequencing = Hk.lifespan', 'hkdriver')

    async def one(comps, late=()):
        calls = []
        holder = {}
        n = len(comps)

        def mk(i, c):
            d = {}
            if c['startup'] is not None:
                async def process_startup(self, scope, event, a=c['startup'], adds=tuple(c.get('adds', ()))):
                    calls.append(f'startup:{i}')
                    for j in adds:          # a handler that completes the stack with a component needing what it has just opened
                        holder['app'].add_middleware(mk(n + j, late[j]))
                    if a == 'raise': raise RuntimeError('startup failed')
                d['process_startup'] = process_startup
            if c['shutdown'] is not None:
                async def process_shutdown(self, scope, event, a=c['shutdown']):
                    calls.append(f'shutdown:{i}')
                    if a == 'raise': raise RuntimeError('shutdown failed')
                d['process_shutdown'] = process_shutdown
            other = list(c['other'])
            if not d and not other:
                other = ['process_request']          # (falcon rejects a component without any middleware method)
            for name in other:
                async def wrong(self, *a, _n=name, **k): calls.append(f'WRONG-{_n}:{i}')
                d[name] = wrong
            return type(f'L{i}', (), d)()
        app = holder['app'] = falcon.asgi.App(middleware=[mk(i, c) for i, c in enumerate(comps)])
        queue = asyncio.Queue()
        sent = []

        async def receive():
            return await queue.get()

        async def send(ev):
            sent.append(ev)

        async def settle(until):
            for _ in range(200):
                if task.done() or until():
                    return
                await asyncio.sleep(0)
        scope = {'type': 'lifespan', 'asgi': {'version': '3.0', 'spec_version': '2.0'}}
        blocked = escaped = None
        # the server opens the lifespan scope: the app coroutine runs until it waits for the first event
        task = asyncio.ensure_future(app(scope, receive, send))
        await asyncio.sleep(0)
        await asyncio.sleep(0)
        for j, c in enumerate(late):
            if c['when'] == 'before_startup':
                app.add_middleware(mk(n + j, c) if j % 2 else [mk(n + j, c)])
        queue.put_nowait({'type': 'lifespan.startup'})
        await settle(lambda: any(e['type'].startswith('lifespan.startup.') for e in sent))
        if not task.done():
            for j, c in enumerate(late):
                if c['when'] == 'between':
                    app.add_middleware(mk(n + j, c) if j % 2 else [mk(n + j, c)])
        queue.put_nowait({'type': 'lifespan.shutdown'})
        try:
            await asyncio.wait_for(task, 1.0)
        except asyncio.TimeoutError:
            blocked = True
        except Exception as e:  # noqa
            escaped = e
        return calls, sent, blocked, escaped

    name = 'lifespan: process_startup in order, process_shutdown in reverse, first failure reported (with a message) and stops'
    for _ in range(ctx.n(1500, 40000)):
        n = rnd.randint(0, 5)
        # besides process_startup / process_shutdown a component may define any of the HTTP and WebSocket methods (none is called here)
        comps = [{'startup': rnd.choice([None, 'ret', 'ret', 'ret']), 'shutdown': rnd.choice([None, 'ret', 'ret', 'ret']),
                  'other': sorted(rnd.sample(LIFESPAN_OTHER, rnd.randint(1, len(LIFESPAN_OTHER)))) if rnd.random() < 0.5 else []} for _ in range(n)]
        sites = [(i, k) for i, c in enumerate(comps) for k in ('startup', 'shutdown') if c[k] is not None]
        for (i, k) in rnd.sample(sites, min(len(sites), rnd.choice([0, 0, 1, 1, 2]))):
            comps[i][k] = 'raise'
        # THE HISTORY: components added with add_middleware AFTER the server opened the lifespan scope (half of the runs): before the startup
        # event is delivered, by a process_startup handler, between startup and shutdown
        late = []
        if rnd.random() < 0.5:
            def lc(when):
                return {'when': when, 'startup': rnd.choice([None, 'ret', 'ret', 'ret', 'raise'] if when != 'between' else [None, 'ret', 'ret']),
                        'shutdown': rnd.choice([None, 'ret', 'ret', 'ret', 'ret', 'raise']),
                        'other': sorted(rnd.sample(LIFESPAN_OTHER, rnd.randint(1, len(LIFESPAN_OTHER)))) if rnd.random() < 0.3 else []}
            late += [lc('before_startup') for _ in range(rnd.choice([0, 0, 1, 1, 2]))]
            for c in comps:
                if c['startup'] is not None and rnd.random() < 0.3:
                    c['adds'] = [len(late)]
                    late.append(lc('in_startup'))
            late += [lc('between') for _ in range(rnd.choice([0, 0, 1, 1, 2]) if late else rnd.choice([1, 1, 2]))]
        calls, sent, blocked, escaped = loop().run_until_complete(one(comps, late))
        exp_calls, exp_events, stack, started = _lifespan_spec(comps, late)
        types = [e['type'] for e in sent]
        what = None
        if blocked: what = 'the lifespan coroutine did not return'
        elif escaped is not None: what = f'exception escaped the lifespan protocol: {escaped!r}'
        elif calls != exp_calls: what = f'handler calls {calls}, documented order {exp_calls} (components are numbered: the original stack, then the ones added later in the order of `late`)'
        elif types != exp_events: what = f'events sent {types}, expected {exp_events}'
        elif any(t.endswith('.failed') and not e.get('message') for t, e in zip(types, sent)): what = 'failure event without a message'
        ctx.oracle(name, what is None, what, {'lifespan_components': comps, 'late': late})
        # the model takes ONE stack: the stack as it stands at the end, a component that was not there when the startup event was processed being
        # one without process_startup; calls are renumbered by stack position
        eff = [(i, c['startup'] if i in started else None, c['shutdown']) for i, c in stack]
        posn = {i: k_ for k_, (i, _s, _h) in enumerate(eff)}
        line = 'lifespan ' + ' '.join(('-' if st_ is None else 'x' if st_ == 'raise' else 'r') + ('-' if sh_ is None else 'x' if sh_ == 'raise' else 'r') for _i, st_, sh_ in eff)

        def renum(cl):
            kind, _, i_ = cl.partition(':')
            return f'{kind}:{posn[int(i_)]}' if i_.isdigit() and int(i_) in posn else cl
        sess.case({'components': comps, 'late': late})
        sess.op(line, ' '.join(renum(cl) for cl in calls) + ' | ' + ' '.join(types))
        for w_ in sorted({c['when'] for c in late}):
            ctx.count('lifespan_history_add_middleware_after_the_scope_was_opened_' + w_)
        if late:
            ctx.count('lifespan_with_components_added_after_the_scope_was_opened')
        ctx.seen(('lifespan', line), bool(calls))
        ctx.count('lifespan')
        if any(c['other'] for c in comps):
            ctx.count('lifespan_components_with_http_or_ws_methods')
        ctx.count('lifespan_startup_failed' if 'lifespan.startup.failed' in types else 'lifespan_shutdown_failed' if 'lifespan.shutdown.failed' in types else 'lifespan_clean')
    sess.finish()


LEVEL_TEXT = ('[also: the registration table of error handlers (Pg: one lookup per raise by MRO, what a handler raises is composed or propagates, never dispatched again - for every table incl. custom handlers for HTTPStatus / HTTPError / Exception; '
              'abstraction to Pe / Ph proved exact) and prepare_middleware (Pm: every stack is a function of the attributes of its own method, per component; *_async wins; acceptance iff), both tied by their own correspondences] '
              'Machine-checked proofs (Lean 4) about a transcription of App.__call__ (shared by WSGI and ASGI) - first with one abstract raise (Pl.run), then refined with _handle_exception, '
              'error-handler invocations, exceptions that leave __call__ and the final status (Pe.run, proved to refine Pl.run) - falcon.hooks and the lifespan loop: response methods run exactly once '
              'each, bottom-up, in both middleware modes for every stack and fault placement; request/resource loops are top-down and stop at the first completion or raise; '
              'before hooks run outermost-first, after hooks innermost-first, a raise skips the rest - also inside the pipeline (Ph.run, proved to refine Pe.run: a hook\'s error is handled in the responder\'s '
              'except window, resp.complete set by a hook or by an error handler changes nothing downstream); startup in order, shutdown in reverse, first failure reported and final. '
              'The model is tied to falcon/app.py, falcon/asgi/app.py, falcon/app_helpers.py and falcon/hooks.py on every run by a differential correspondence over generated '
              'middleware/hook/responder objects that record the call trace, and an independent oracle written from the property statement decides failing inputs.')
LEVEL_NOTE = ('Trusted: Lean kernel + standard axioms; the correspondence harness and oracle. The whole-trace equality with the documented discipline is not one theorem (see partial).')
TECHNIQUE = 'Lean 4 proofs about a pipeline/hook/lifespan model + differential correspondence (call traces, WSGI and ASGI) + statement oracle'

"""C04 - every raised exception becomes the response its most specific handler defines."""
PROP = 'C04'
LEAN_MODULES = ['FalconModel.ErrHandlers', 'FalconModel.ErrHandleProofs', 'FalconModel.ErrSerialize', 'FalconModel.ErrSerializeProofs', 'FalconModel.ErrBody', 'FalconModel.ErrBodyProofs', 'FalconModel.ErrLink', 'FalconModel.ErrLinkProofs']
DRIVERS = ['ehdriver', 'esdriver']
THEOREMS = [
    # falcon/http_error.py HTTPError.__init__ with the real encoder: 'href': uri.encode(href) (model Ek.mkError = Es.mkError with enc := Us.encode, the C10 str-level model)
    'Ek.link_href_faithful', 'Ek.encHref_injective', 'Ek.toCp_encHref', 'Ek.validStr_toCp', 'Ek.toCp_ofCp_ascii', 'Ek.toCp_injective',
    'Us.decode_encode_uri_str', 'Us.encode_charset',
    # falcon/app.py add_error_handler + _find_error_handler (model Eh.register / Eh.lookup / Eh.find)
    'Eh.lookup_append_single', 'Eh.latest_registration_wins', 'Eh.other_class_unaffected', 'Eh.find_most_specific', 'Eh.find_none_iff',
    # falcon/app.py _handle_exception (model Eh.handle)
    'Eh.body_reset_before_handler', 'Eh.handler_runs_on_clean_body', 'Eh.handler_raised_http_rendered', 'Eh.handler_raised_status_rendered',
    'Eh.escape_iff', 'Eh.default_exception_is_500_and_never_escapes', 'Eh.default_httperror_keeps_status',
    'Eh.draft_then_http_eq_http', 'Eh.draft_then_status_eq_status', 'Eh.draft_http_body_is_error', 'Eh.draft_status_body_is_status_text', 'Eh.draft_leaks_pinned_witness',
    # falcon/app.py _get_body / falcon/asgi/app.py body selection after _handle_exception, with a stream attached before the raise (model Eb.handleS / Eb.sent)
    'Eb.defined_body_is_sent', 'Eb.sent_independent_of_stale_stream', 'Eb.default_http_sends_error_body', 'Eb.default_exception_sends_error_body', 'Eb.default_status_sends_text',
    'Eb.handler_raised_http_sends_error_body', 'Eb.handler_raised_status_sends_text', 'Eb.handler_set_body_is_sent', 'Eb.handler_stream_is_sent', 'Eb.stale_stream_sent_only_if_no_body',
    'Eb.handleS_resp', 'Eb.handleS_eq', 'Eb.handleS_some_iff', 'Eb.sent_no_stream', 'Eb.stream_first_witness', 'Eb.stale_sse_discarded', 'Eb.no_sse_after', 'Eb.sse_pinned_witness',
    'Eb.handler_raised_discards_its_sse', 'Eb.handler_sse_is_sent', 'Eb.handler_sse_pinned_witness',
    # falcon/app_helpers.py default_serialize_error (model Es.serializeChoice on top of Mt.bestMatch)
    'Es.serialize_json_on_tie', 'Es.negotiated_tie_is_json', 'Es.serialize_xml_only_if_preferred_and_enabled', 'Es.serialize_xml_type',
    'Es.serialize_never_form_types', 'Es.serialize_ctype_negotiated', 'Es.serialize_none_iff', 'Es.serialize_none_accepts_nothing',
    'Es.serialize_some_if_accepted', 'Es.serialize_typeOnly_only', 'Es.serialize_media_only_if_handler', 'Es.serialize_ctype_preferred',
    # falcon/http_error.py HTTPError.__init__ / to_dict (model Es.mkError / Es.toDict)
    'Es.to_dict_fields_exact', 'Es.to_dict_keys', 'Es.mk_error_fields',
    # falcon/app.py _compose_error_response / _compose_status_response, Response.set_headers / append_header (model Es.composeError / Es.composeStatus)
    'Es.vary_accept_always_appended', 'Es.httperror_status_headers_kept', 'Es.httpstatus_text_headers_kept', 'Es.composeError_spec',
    'Es.composeError_header_not_supported_iff', 'Es.setHeaders_last_wins', 'Es.setHeaders_other', 'Es.setHeaders_none_iff',
]
STATEMENTS = {
    'Eh.latest_registration_wins': 'after add_error_handler(c, h) the registry maps c to h, whatever was registered before',
    'Eh.other_class_unaffected': 'add_error_handler(c, h) does not change the handler of any other class',
    'Eh.find_most_specific': '_find_error_handler returns h iff some class of the MRO is registered with h and no class before it in the MRO is registered at all (any linearisation, diamonds included)',
    'Eh.find_none_iff': 'no handler is found iff no class of the MRO is registered (only then may the exception propagate)',
    'Eh.body_reset_before_handler': 'the response produced by _handle_exception does not depend on the text/data/media that were set before the raise',
    'Eh.handler_runs_on_clean_body': 'if the chosen handler sets nothing, the resulting response has text = data = media = None',
    'Eh.handler_raised_http_rendered': 'if the chosen handler raises an HTTPError, the response is that error\'s status and its serialized body',
    'Eh.handler_raised_status_rendered': 'if the chosen handler raises an HTTPStatus, the response is that status and text',
    'Eh.draft_http_body_is_error': 'if the chosen handler assigns text/data/media and THEN raises an HTTPError, the body sent is the serialized error, never the draft (fix 07d5278; Eh.draft_leaks_pinned_witness: the pinned code sent the draft)',
    'Eb.sent_independent_of_stale_stream': 'if the response produced by _handle_exception has a rendered body (text, data or media), the body SENT (rendered body first, resp.stream only otherwise) is the same whatever stream, text, data or media the response carried before the raise',
    'Eb.default_http_sends_error_body': 'default HTTPError handler: the serialized error is what is sent, whatever stream was attached before the raise (same for the default 500 and, with its text, HTTPStatus)',
    'Eb.handler_raised_http_sends_error_body': 'an HTTPError raised by the chosen handler, after assigning anything, is sent as the serialized error even when a stream is attached',
    'Eb.handler_set_body_is_sent': 'a handler that assigns text / data / media: that (text before data before media) is sent, never the stream attached before the raise',
    'Eb.handler_stream_is_sent': 'a handler that attaches its own stream and no text / data / media: its stream is sent',
    'Eb.stale_stream_sent_only_if_no_body': 'the stream attached before the raise is sent only if the resulting response has no text / data / media at all and the handler left resp.stream alone',
    'Eb.stale_sse_discarded': 'the result of _handle_exception does not depend on a server-sent events emitter set before the raise (ASGI, fix 4582e3b); with handlers that assign none, nothing is pending afterwards and what is '
                              'sent is the rendered body, else the stream (Eb.no_sse_after; Eb.sse_pinned_witness: before the fix the events were sent in place of the serialized error)',
    'Eb.handler_raised_discards_its_sse': 'if the chosen handler ends by raising an HTTPError / HTTPStatus, no emitter is pending afterwards - not even one the handler assigned - and the serialized error / the status text is '
                                          'what is sent (fix 53e3725; Eb.handler_sse_pinned_witness: before it the handler\'s events were sent)',
    'Eb.handler_sse_is_sent': 'a handler that assigns its own emitter and returns normally: its events are the response',
    'Eb.stream_first_witness': 'witness: with the stream consulted first (seeded change C04_11) an HTTPError raised after a stream was attached is answered with the stream; with the real order with the serialized error',
    'Eh.escape_iff': 'an exception leaves _handle_exception iff no class of the MRO is registered or the chosen handler raises something other than HTTPError/HTTPStatus',
    'Eh.default_exception_is_500_and_never_escapes': 'with the three default registrations in the history and no later registration for a class of the MRO, an Exception-derived (non-HTTPError, non-HTTPStatus) error is handled (never escapes) and yields status 500',
    'Eh.default_httperror_keeps_status': 'with the default registrations and no later registration for a class of the MRO, an HTTPError-derived error yields its own status and serialized body',
    'Es.serialize_json_on_tie': 'for every configuration and ASCII Accept header: if JSON has a positive quality that no offered type exceeds, default_serialize_error renders JSON',
    'Es.negotiated_tie_is_json': 'a negotiated type whose quality equals that of JSON is JSON (first maximum of best_match, JSON first in the offered list)',
    'Es.serialize_xml_only_if_preferred_and_enabled': 'the built-in XML body is produced only if xml_error_serialization is on, no handler resolves the type, and either the negotiated type is strictly better than JSON or nothing was negotiated, the header has no "+json" and has "+xml"',
    'Es.serialize_xml_type': 'with real (truthy) handlers and no handler keyed "*/*", a built-in XML body is always labelled text/xml or application/xml',
    'Es.serialize_never_form_types': 'whatever Content-Type the default serializer sets, it is neither multipart/form-data nor application/x-www-form-urlencoded, for every Accept header and configuration (F31)',
    'Es.serialize_ctype_negotiated': 'the Content-Type set is an offered type with positive quality that is maximal among the offered types, or (only when nothing is negotiated) the type chosen by the +json/+xml heuristic',
    'Es.serialize_none_iff': 'nothing is rendered iff best_match over the offered types yields nothing (all qualities 0, or a ValueError) and neither "+json" nor "+xml" occurs in the lower-cased Accept header',
    'Es.serialize_none_accepts_nothing': 'if nothing is rendered for a well-formed header, every offered type has quality 0 for the client',
    'Es.serialize_some_if_accepted': 'if some offered type has positive quality (all offered types well formed), something is rendered',
    'Es.serialize_typeOnly_only': 'a Content-Type without a body arises only when XML is disabled and the preferred non-JSON type has no handler; with real handlers only through the "+xml" heuristic',
    'Es.serialize_media_only_if_handler': 'resp.media = to_dict() is used only for a preferred non-JSON type that a configured handler resolves',
    'Es.to_dict_fields_exact': 'to_dict() is exactly [title] + [description if not None] + [code if not None] + [link if not None], in this order, with the attribute values',
    'Ek.link_href_faithful': 'for EVERY non-empty href (a str of Unicode scalar values) and all other constructor arguments the stored link href is uri.encode(href), consists of ASCII RFC 3986 unreserved/reserved characters, "%" and upper-case hex digits only, and uri.decode(link.href, unquote_plus=False) is exactly the href given - a well-formed %XX in the href is NOT taken for an escape',
    'Ek.encHref_injective': 'two different hrefs never produce the same link href',
    'Ek.toCp_encHref': 'the link href read as code points is Us.encode (the C10 str-level model of uri.encode) of the href\'s code points',
    'Us.decode_encode_uri_str': 'decode(encode(s), unquote_plus=False) = s for every str s of Unicode scalar values (C10 model, used by Ek.link_href_faithful)',
    'Es.mk_error_fields': 'HTTPError.__init__: title falls back to the status line iff missing/empty; link exists iff href is non-empty and carries encode(href), rel=help and the given or default text',
    'Es.vary_accept_always_appended': 'after _compose_error_response the Vary header exists, is "Accept" or "<previous value>, Accept", and Accept is one of its comma-separated members',
    'Es.httperror_status_headers_kept': 'the response status is the error\'s; the last item per case-insensitive name of error.headers is on the response (Vary with ", Accept" appended, Content-Type unless a rendering replaces it); other headers keep their value',
    'Es.httpstatus_text_headers_kept': '_compose_status_response sets the HTTPStatus\'s status, text and headers (last item per name) and changes no other header (no Vary, no Content-Type)',
    'Es.composeError_header_not_supported_iff': '_compose_error_response raises (HeaderNotSupported) iff error.headers contains a Set-Cookie item',
}
TRUSTED = [
    'json.loads / xml.etree.ElementTree.fromstring as the decoders that define "faithful encoding" of the emitted body',
    'the harness\'s recognition of which default handler ran from the response it produced (500 + title / the error\'s status / the HTTPStatus text)',
]
ASSUMPTIONS = [
    'raised objects derive from Exception (falcon does not catch BaseException-only raises, by design)',
    'the exception OBJECT may be hostile in what it DOES when looked at (harness/lib_hostileexc.py: __str__/__repr__/__format__ raising or returning non-str, args / __traceback__ / __cause__ / '
    '__context__ / __notes__ properties raising, __eq__/__hash__/__bool__ raising, unhashable or falsy objects, __getattr__ raising a non-AttributeError, hostile __notes__ / __dir__, a metaclass whose '
    '__name__ / __qualname__ / __module__ lookup raises or gives a non-str / odd string or whose __repr__/__eq__/__getattr__ raise; raised with hostile or cyclic cause/context, a 1200-long context chain, '
    'with_traceback(None) / a foreign traceback, a re-raised instance, `raise Cls`, inside an ExceptionGroup, from a released frame); what the object IS (its class, __mro__, __class__) is always honest, '
    'and its class can be used as a dict key (a metaclass __eq__ that raises keeps the identity hash)',
    'title/description/href strings are sequences of Unicode scalar values (a lone surrogate cannot be encoded as UTF-8 JSON: falcon raises UnicodeEncodeError to the server); '
    'when the client prefers XML they are additionally XML-1.0 characters without carriage return (other characters are not representable in XML 1.0 at all)',
    'header values of HTTPError/HTTPStatus are ASCII and header names are not repeated (set_headers semantics; header well-formedness is C05)',
    'part (e): HTTPStatus and the redirects take headers as a dict (as documented), HTTPError classes as a dict or a list of pairs; an explicit Location item in the headers of a redirect is not generated',
    'an error handler that itself raises something other than HTTPError/HTTPStatus is outside the statement: the oracle accepts both "propagates to the server" and "500"',
    'the Accept header is ASCII and its q values have at most four decimals and no exponent (the fragment of the negotiation MODEL only; the oracles also judge headers with obs-text octets 0x80-0xFF: '
    'never escapes, status, headers, Vary, faithful body; which type is chosen is judged when the octets sit in members that cannot change what the client accepts)',
    'a stream (resp.stream / set_stream) attached before the raise is not among the things the statement says are discarded (text, data, media): a body the handler / the default rendering defines must be '
    'sent, never the stale stream (judged); when the handler defines NO body at all (custom handler setting nothing, HTTPStatus without text, HTTPError / 500 when the client accepts nothing that can be '
    'produced) what is sent is not fixed by the statement - both stacks send the stream that is still attached; these cases are generated, counted (*_stale_stream_sent_*_(not_judged)) and covered by the '
    'correspondence with Eb.handleS, but not judged by the oracle (coordinator decision)',
    'a server-sent events emitter (resp.sse, ASGI) is judged strictly: one set BEFORE the raise never shows in the error response, one that an error handler assigns before RAISING an HTTPError / HTTPStatus '
    'is a draft like text / data / media (both repaired in /repo, 4582e3b and 53e3725, found by this dimension); one that a handler assigns before returning is the response it defines',
    'media handler objects are truthy and none is registered under the literal key "*/*" (needed only by Es.serialize_xml_type and the second half of Es.serialize_typeOnly_only)',
    'Accept headers come from a well-formed grammar of up to 3 media ranges with q in {absent, 0, 0.1, 0.5, 0.9, 1}, in any letter case (see above)',
]
RULE = ('[dimension added after seed C04_16 - THE CONTENT OF href / href_text: parts (c), (d) and the pools of (e) draw the href from token pools so that every role of "%" occurs ALONE as well as mixed: '
        'well-formed %XX (upper / lower / mixed-case hex, %25, %2525, %00, %FF, UTF-8 sequences) in a string with nothing else to escape (the one class in which an "already escaped?" heuristic differs '
        'from plain percent-encoding), malformed ones (%, %%, %z, %zz, %2, %2G, %u00e9, "% 20", % + non-ASCII / full-width digits), a trailing % / %2 / %a, percent signs next to characters that need '
        'escaping (space, quotes, <>, backslash, non-ASCII incl. astral and combining, controls), reserved characters incl. "+", on absolute / relative / scheme-less / empty bases, as the whole href; '
        'href_text = the same string, another such string, arbitrary text or None; all combined with the other constructor arguments, Accept headers, raise sites and both stacks as before. Judged by a new '
        'oracle in addition to the exact comparison with the reference encoder: the href found in the emitted JSON / XML / media-handler document (stdlib parsers) and in to_dict() consists of RFC 3986 '
        'characters only (every % starts a %XX triplet) and urllib.parse.unquote (strict UTF-8) of it is exactly the href the application passed; href_text is emitted verbatim. Correspondence: the href '
        'content goes to the model (esdriver op `link`: Ek.mkError = __init__ with Us.encode, the C10 model of uri.encode) and the stored / emitted link href must be equal code point by code point. '
        'Counters c_href_* / d_href_* show the classes (every_percent_wellformed_nothing_else_to_escape etc.).] '
        '[dimension added after seed C04_15 - part (e): THE SAME CLASS RAISED MORE THAN ONCE IN ONE PROCESS. Inventory: every public class of falcon.errors / falcon.redirects / falcon.http_status / falcon.http_error that is '
        'rendered as a response (47 on the unchanged tree: HTTPError + 41 subclasses incl. the Media* / Multipart errors and the deprecated alias HTTPPayloadTooLarge, HTTPStatus, the five redirects), its constructor parameters read from the signature. '
        'Per class sequences of 3-7 constructor calls (even rounds: bare, bare, full, bare, random, random, the first call again; odd rounds: random): `bare` = required arguments only - every optional one LEFT OUT -, `full` = every optional one given, '
        'required arguments (location, allowed_methods, resource_length, msg, header_name, param_name, media_type, status) always other than in the previous call, optional ones (title, description, headers as a fresh dict / list, challenges, retry_after, code, href, '
        'href_text, text) from pools of 3-6 values; positional or by keyword. Judged per call: (1) the OBJECT (status_code, headers incl. the header the documentation derives from an argument - Location, Allow, WWW-Authenticate, Retry-After, Content-Range -, title, '
        'description, code, link, text, to_dict()) equals what the arguments of this very call say (class -> status table written from the HTTP registry); (2) instances made earlier are unchanged; (3) a fresh instance raised through an app (WSGI / ASGI; responder, '
        'process_request, process_resource, sink, before / after hook, process_response, or raised BY AN ERROR HANDLER): status, every header of this raise and none of an earlier one (Location / Allow / Retry-After / WWW-Authenticate / Content-Range / X-*), JSON body fields '
        'or text; the response is also put to Es.composeStatus / Es.composeError with the arguments of THIS call as the model input. A headers dict OF THE APPLICATION passed to 2-4 constructions (same class with other arguments, another class in between) is judged strictly: every object carries the headers of its own call only and the dict is left as the application made it (this found that the constructors wrote Location / Allow / Retry-After / WWW-Authenticate / Content-Range into the dict of the caller, so a reused dict carried the first Location into every later redirect; repaired in /repo 085c52d, F49)] '
        '[three dimensions added after seeds C04_10 / C04_11 / C04_12 - the state of the RESPONSE before the raise and the OCTETS of the request headers: '
        '(i) a Vary value that looks like the one the serializer manages, in parts (c) and (d): 22 member lists (Accept-Encoding / -Language / -Charset / -CH / -Datetime, X-Accept-Version, '
        'Not-Acceptable, Acceptx, xAccept, other case, Accept itself in three cases, lists mixing them with Origin / Cookie) put on the response by a process_request middleware, by the code at the raise '
        'site right before raising, or carried by the raised HTTPError / HTTPStatus itself, through set_header / resp.vary / append_header; raise site `noroute` (the framework\'s own 404 behind a '
        'middleware) added; the oracle parses Vary as a comma list: Accept must be a MEMBER and every member listed before must still be one; '
        '(ii) a STREAM attached before the raise (resp.stream = obj / resp.set_stream(obj, n); iterable, generator, file-like, falsy iterable; alone or next to text / data / media) at every raise site '
        'of parts (a), (b), (c), both stacks, plus handlers that attach / clear a stream themselves: the body sent must be the one the handler / the default rendering defines, never the stale stream '
        '(new model Eb.handleS / Eb.sent in the correspondence of (b): ehdriver op `handles`); on ASGI also a server-sent events emitter (resp.sse = emitter()) set before the raise, alone or next to a '
        'stream / text / data / media, parts (a), (b), (c): it takes precedence over every body, so it must never show in the error response - this found that the ASGI _handle_exception did not discard '
        'it (every error response consisted of the events), repaired in /repo 4582e3b; handler outcomes extended: the handler attaches / clears a stream, assigns its own emitter and returns (its events are the '
        'response), or assigns an emitter (alone or with text / data / media drafts) and then raises HTTPError / HTTPStatus (the raised object must be rendered - found the same leak in the handler-raised branches, '
        'repaired in /repo 53e3725); '
        '(iii) header octets: Accept headers with obs-text (latin-1 text, well-formed and ill-formed UTF-8, NBSP / NEL, 0xFF) in unknown members and parameters (type choice still judged), or as stray '
        'octets anywhere / inside q values / as the whole value (never escapes, status, headers, Vary, faithful body judged), and such octets in up to 3 other request headers (User-Agent, Content-Type, '
        'Cookie, Accept-Language ...), WSGI (native latin-1 strings) and ASGI (bytes), parts (c) and (d)] '
        '[two dimensions added after seeds C04_8 / C04_9: (i) the raised exception OBJECT is an input in parts (a), (b), (c): with probability 0.2-0.75 per case its class is built by '
        'lib_hostileexc.build with one of 33 hostile behaviours (dunder methods that raise or return the wrong type, falsy objects, hostile __notes__, metaclasses whose __name__ / __qualname__ / '
        '__module__ / __repr__ / __eq__ / __getattr__ misbehave) and/or it is raised by lib_hostileexc.throw in one of 16 unusual ways (hostile / cyclic cause and context, 1200-long chain, traceback '
        'manipulations, re-raised instance, `raise Cls`, ExceptionGroup, generator, released frame); HTTPError / HTTPStatus subclasses and the errors a handler raises get the same treatment; every '
        'raise site, both stacks; for these cases the `falcon` logger gets a real formatting handler (as in a deployment); the statement decides: the nearest handler runs, the default is a 500 and '
        'nothing escapes; (ii) letter case of every token the negotiation reads in part (c) (half of the headers: type, subtype, +suffix, q name re-cased independently - as is / UPPER / Title / random '
        'per letter -, separators with optional whitespace; four more vendor +json / +xml types in the pool) and more +suffix / wildcard / well-known types in other case in part (d); the RFC evaluator '
        'of (c) and (d) is case-insensitive and (d) now also judges the documented +json / +xml fallback. Both dimensions found defects of the unchanged tree, repaired in /repo: hostile objects '
        'whose attribute reads raise made the built-in handler itself raise (703a4a2), media types were compared case-sensitively (a19fe30)] '
        '(a) resolution: random exception class DAGs (1..6 generated classes with 1..3 bases under Exception / LookupError / KeyError / ValueError / HTTPError / HTTPNotFound / '
        'HTTPBadRequest / HTTPStatus, cross-family multiple inheritance included) x 0..6 registrations (single class, tuple of classes, static `handle` attribute; '
        'generated and built-in classes incl. Exception, HTTPError, HTTPStatus, BaseException) x raise site in {process_request, process_resource, responder, before hook, after hook, '
        'process_response, body rendering (media handler raising)} x WSGI+ASGI; '
        '(b) raise sites x {HTTPError, HTTPStatus, plain exception, app exception with a custom handler that sets text/data/media/nothing or raises HTTPError/HTTPStatus/plain} '
        'x text/data/media set before the raise, incl. the 415 raised by rendering media with an unsupported content type; '
        '(c) default rendering: HTTPError with random status / title / description / code / href / href_text / headers over arbitrary Unicode x Accept headers x xml_error_serialization on/off x '
        'extra configured response media handlers (a YAML-like one, one keyed application/xml, one with a +json suffix; JSON / form handlers sometimes removed) x a header set before the raise; '
        'HTTPStatus with random status/headers/text; plain exceptions; '
        '(d) default_serialize_error, HTTPError.to_dict and _compose_error_response/_compose_status_response called directly on WSGI and ASGI request/response objects: handler mappings of 0..5 keys '
        'incl. wildcards, parameters, other case, unparsable and falsy handlers x Accept headers of 1..4 members incl. malformed ones, upper case, "+json"/"+xml" suffixes, invalid q values x '
        'title/description/code/href/href_text in {None, empty, given} x response headers set before x error headers with repeated names in different case and Set-Cookie. '
        'non-trivial = an exception was raised and a handler (custom or default) produced the response; distinct = distinct (part, stack, configuration)')
PARTIAL = ('Proved in Lean: handler resolution (nearest class in the MRO, latest registration per class); the _handle_exception step (body reset, handler-raised HTTPError/HTTPStatus '
           'rendered in turn, escape iff unhandled or the handler raises something else, defaults => 500 / own status); the content negotiation of default_serialize_error on top of the proved '
           'model of mediatypes.best_match (JSON wins every tie, XML only if preferred and enabled, form types never, nothing iff nothing accepted and no +json/+xml suffix, Vary: Accept always '
           'appended); the field set of HTTPError.to_dict; status and headers kept by _compose_error_response / _compose_status_response; the body sent when a stream was attached before the raise (rendered body before stream: a body the handler '
           'defines is sent whatever the stale stream, an emitter set before the raise or assigned by a handler that then raises is discarded, Eb). NOT proved: that every raise window of App.__call__ is '
           'wrapped (checked by the raise-site generator + oracle, and by C03\'s pipeline correspondence); the faithfulness of the JSON/XML/media-handler encoders and of uri.encode for the link '
           '(checked by parsing the emitted body with the standard library and comparing every field); Response header emission after composition (C05); the negotiation model is restricted to '
           'ASCII Accept headers with q values of at most four decimals (other inputs answer "unsupported"). The constructors of the individual error / redirect classes (which arguments become which '
           'header, that no state is carried between instances) are not modelled: part (e) judges every public class with an oracle written from the documentation and puts the composed response to Es.composeStatus / Es.composeError.')
JOBS = {'quick': 12, 'thorough': 16}

D_EXC, D_HTTP, D_STATUS = 9001, 9002, 9003


def run(ctx):
    if ctx.shard[0] == 0:
        # harness self-check: every generated behaviour of lib_hostileexc is really observable on the class it builds
        import lib_hostileexc as X
        for k in X.kinds():
            for base in (Exception, KeyError, OSError):
                w = X.effective(k, X.build(k, 'Probe', (base,)))
                ctx.oracle('harness self-check: the hostile exception classes behave as named', w is None, w, {'behaviour': k, 'base': base.__name__})
    _resolution(ctx)
    _sites(ctx)
    _serialization(ctx)
    _direct(ctx)
    _repeated(ctx)


# ------------------------------------------------------------------ helpers shared by the three parts

def _call(app, stack, via_testing=False, headers=None, path='/'):
    from lib_appcall import call_wsgi, call_asgi, call_via_testing
    if via_testing:
        return call_via_testing(app, headers=headers, path=path)
    return (call_asgi if stack == 'asgi' else call_wsgi)(app, headers=headers, path=path)


def _members(values):
    """the members of a comma-separated list header given as one or more field values (RFC 9110 5.6.1), lower-cased"""
    return [x.strip().lower() for v in values for x in v.split(',') if x.strip()]


def _vary_has_accept(r):
    """`Accept` is one of the field names LISTED in Vary - a member of the list, not a substring of the field value"""
    return 'accept' in _members(r.header('vary'))


# Vary values a response may already carry when an error is rendered: every relative of `Accept` (a prefix / substring / other case of
# the name), Accept itself, lists, and unrelated names.  (first element: the members, second: how many of them contain "accept")
VARY_POOL = [['Accept-Encoding'], ['Accept-Language'], ['Accept-Charset'], ['Accept-CH'], ['Accept-Datetime'], ['X-Accept-Version'], ['Not-Acceptable'],
             ['accept-encoding'], ['ACCEPT-LANGUAGE'], ['Accept'], ['accept'], ['ACCEPT'], ['Accept-Encoding', 'Accept-Language'],
             ['Origin', 'Accept-Encoding'], ['Accept-Language', 'Cookie'], ['Accept-Encoding', 'Accept'], ['Accept', 'Origin'], ['Origin'], ['Cookie', 'User-Agent'],
             ['Acceptx'], ['xAccept'], ['Accept-Encoding', 'Origin', 'X-Accept-Version']]

STALE_STREAM = b'PRESET-stream-' + b'0123456789' * 3


def _mk_stream(asgi, kind, payload):
    """a fresh response stream object of the given kind for the stack: iterable / generator / file-like (read) / an iterable that is falsy"""
    import io
    chunks = [payload[:7], payload[7:]] if len(payload) > 7 else [payload]
    if not asgi:
        if kind == 'file':
            return io.BytesIO(payload)
        if kind == 'gen':
            return (c for c in chunks)
        if kind == 'falsy_iter':
            class FalsyIter:
                def __len__(self): return 0
                def __iter__(self): return iter(chunks)
            return FalsyIter()
        return list(chunks)

    class AIter:
        def __init__(self): self.c = list(chunks)
        def __aiter__(self): return self
        async def __anext__(self):
            if not self.c:
                raise StopAsyncIteration
            return self.c.pop(0)
    if kind == 'file':
        class AFile:
            def __init__(self): self.b = io.BytesIO(payload)
            async def read(self, n=-1): return self.b.read(n)
            async def close(self): pass
        return AFile()
    if kind == 'gen':
        async def agen():
            for c in chunks:
                yield c
        return agen()
    if kind == 'falsy_iter':
        class AFalsy(AIter):
            def __len__(self): return 0
        return AFalsy()
    return AIter()


STREAM_KINDS = ['iter', 'gen', 'file', 'falsy_iter']
STALE_SSE = b'PRESET-sse-event'


def _attach_sse(resp):
    """`resp.sse = emitter()` (ASGI): server-sent events take precedence over every other body"""
    import falcon.asgi

    async def emitter():
        yield falcon.asgi.SSEvent(data=STALE_SSE)
        yield falcon.asgi.SSEvent(data=STALE_SSE, event='second')
    resp.sse = emitter()


def _is_stale_sse(body):
    return body.startswith(b'data: PRESET-sse') or b'PRESET-sse-event' in body


def _attach_stream(resp, asgi, kind, how, payload):
    """`resp.stream = obj` or `resp.set_stream(obj, length)` (which also sets Content-Length)"""
    obj = _mk_stream(asgi, kind, payload)
    if how == 'set_stream':
        resp.set_stream(obj, len(payload))
    else:
        resp.stream = obj


def _json_or_none(b):
    import json
    try:
        return json.loads(b.decode('utf-8'))
    except Exception:  # noqa
        return None



def _render_now(resp):
    """resp.render_body() from synchronous test code: the ASGI Response's coroutine is driven to completion by hand (the stock media
    handlers never suspend)."""
    c = resp.render_body()
    if hasattr(c, 'send'):
        try:
            c.send(None)
        except StopIteration:
            return
        c.close()

def _install(app, asgi, site, raiser, preset=None, extra_mw=None):
    """Put `raiser(resp)` (a plain function that raises) at the given site of a fresh app; `preset(resp)` runs in an earlier phase
    (or, if there is none, right before the raise)."""
    import falcon

    def pre(resp):
        if preset:
            preset(resp)

    early = site in ('req',)                  # nothing runs before process_request: preset in the same call
    mw = {}

    def add(name, fn):
        if asgi:
            async def m(self, *a, _fn=fn):
                _fn(*a)
            # fixed signatures (falcon inspects the arity)
            if name == 'process_request':
                async def m(self, req, resp, _fn=fn): _fn(req, resp)
            elif name == 'process_resource':
                async def m(self, req, resp, resource, params, _fn=fn): _fn(req, resp)
            else:
                async def m(self, req, resp, resource, req_succeeded, _fn=fn): _fn(req, resp)
        else:
            if name == 'process_request':
                def m(self, req, resp, _fn=fn): _fn(req, resp)
            elif name == 'process_resource':
                def m(self, req, resp, resource, params, _fn=fn): _fn(req, resp)
            else:
                def m(self, req, resp, resource, req_succeeded, _fn=fn): _fn(req, resp)
        mw[name] = m

    if site == 'req':
        add('process_request', lambda req, resp: (pre(resp), raiser(resp)))
    else:
        add('process_request', lambda req, resp: pre(resp))
    if site == 'rsrc':
        add('process_resource', lambda req, resp: raiser(resp))
    if site == 'resp':
        add('process_response', lambda req, resp: raiser(resp))
    comps = [type('Mw', (), mw)()] + list(extra_mw or [])
    app_obj = app(middleware=comps)

    def body(resp):
        if site in ('responder', 'sink'):
            raiser(resp)
        elif site in ('render', 'render415'):
            raiser(resp)            # for render sites the "raiser" arranges for rendering to fail

    if site == 'sink':
        if asgi:
            async def sink(req, resp, **kw): body(resp)
        else:
            def sink(req, resp, **kw): body(resp)
        app_obj.add_sink(sink, '/')
        return app_obj
    if asgi:
        async def on_get(self, req, resp): body(resp)
        async def hb(req, resp, resource, params): raiser(resp)
        async def ha(req, resp, resource): raiser(resp)
    else:
        def on_get(self, req, resp): body(resp)
        def hb(req, resp, resource, params): raiser(resp)
        def ha(req, resp, resource): raiser(resp)
    if site == 'before':
        on_get = falcon.before(hb)(on_get)
    elif site == 'after':
        on_get = falcon.after(ha)(on_get)
    app_obj.add_route('/', type('Res', (), {'on_get': on_get})())
    return app_obj


SITES = ['req', 'rsrc', 'responder', 'before', 'after', 'resp', 'sink', 'render']


def _raising_media_handler(make_exc, how='plain'):
    import falcon.media
    import lib_hostileexc as X

    class RaisingHandler(falcon.media.BaseHandler):
        def serialize(self, media, content_type):
            X.throw(how, make_exc)

        def deserialize(self, stream, content_type, content_length):
            X.throw(how, make_exc)
    return RaisingHandler()


def _nm(c):
    """the real name of a class, whatever its metaclass answers"""
    return type.__getattribute__(c, '__name__')


def _pick_hostile(rnd, p, throw_ok=None):
    """(class-level behaviour, way of raising) of the exception OBJECT of one case: with probability p one of the two is hostile.
    `throw_ok`: predicate on the ways of raising that the case can use."""
    import lib_hostileexc as X
    if rnd.random() >= p:
        return 'plain', 'plain'
    ks = X.kinds()
    cks = [k for k in ks if k in X.CLASS_KINDS]
    tks = [k for k in ks if k in X.THROW_KINDS and (throw_ok is None or throw_ok(k))]
    r = rnd.random()
    if r < 0.6 or not tks:
        return rnd.choice(cks), 'plain'
    if r < 0.85:
        return 'plain', rnd.choice(tks)
    return rnd.choice(cks), rnd.choice(tks)


class _LiveLogging:
    """Inside the runner logging is disabled altogether, so `falcon._logger.error(..., exc_info=ex)` of the ASGI app would never look at
    the exception object.  A deployment has logging on: for the cases whose exception object is hostile the `falcon` logger gets a real
    formatting handler (writing into a sink), as `logging.basicConfig()` would give it."""

    def __enter__(self):
        import io
        import logging
        self.lg = logging.getLogger('falcon')
        self.prev = (logging.root.manager.disable, self.lg.propagate, logging.raiseExceptions)
        self.h = logging.StreamHandler(io.StringIO())
        self.h.setFormatter(logging.Formatter('%(asctime)s %(levelname)s %(message)s'))
        self.lg.addHandler(self.h)
        self.lg.propagate = False
        logging.raiseExceptions = False          # (the recommended production setting; True would only add stderr noise)
        logging.disable(logging.NOTSET)
        return self

    def __exit__(self, *a):
        import logging
        self.lg.removeHandler(self.h)
        self.lg.propagate = self.prev[1]
        logging.raiseExceptions = self.prev[2]
        logging.disable(self.prev[0])
        return False


def _call_obj(app, stack, hostile, **kw):
    """_call; when the exception object of the case is hostile, with logging live (see _LiveLogging)"""
    if hostile:
        with _LiveLogging():
            return _call(app, stack, **kw)
    return _call(app, stack, **kw)


# ------------------------------------------------------------------ (a) handler resolution

def _resolution(ctx):
    import falcon
    import falcon.asgi
    import lib_hostileexc as X
    rnd = ctx.rng
    sess = ctx.session('handler chosen by the app (WSGI+ASGI, every raise site) = Eh.find over type(ex).__mro__[:-1] and the registration history', 'ehdriver')
    name = 'the handler of the nearest registered class in the MRO runs (latest registration per class), exactly once, and the body is what it set'
    for ci in range(ctx.n(12000, 150000)):
        stack = rnd.choice(['wsgi', 'asgi'])
        asgi = stack == 'asgi'
        called = []

        def mkhandler(k, sets):
            def bodyf(resp):
                called.append(k)
                resp.status = 200
                if sets:
                    resp.text = f'h{k}'
            if asgi:
                async def h(req, resp, ex, params): bodyf(resp)
            else:
                def h(req, resp, ex, params): bodyf(resp)
            return h
        plain = [Exception, LookupError, KeyError, ValueError]
        http = [falcon.HTTPError, falcon.HTTPNotFound, falcon.HTTPBadRequest]
        status = [falcon.HTTPStatus]
        gen = []
        static_ids = {}
        static_sets = {}
        behaviours = {}
        for i in range(rnd.randint(1, 6)):
            fam = rnd.choice(['plain', 'plain', 'http', 'http', 'status', 'mixed'])
            pool = {'plain': plain, 'http': http, 'status': status, 'mixed': plain + http + status}[fam] + [g for g, f in gen if f == fam or fam == 'mixed']
            bases = rnd.sample(pool, rnd.randint(1, min(3, len(pool))))
            ns = {}
            if rnd.random() < 0.3:
                hid = 500 + i
                static_sets[hid] = rnd.random() < 0.7
                ns['handle'] = staticmethod(mkhandler(hid, static_sets[hid]))
            # what the OBJECTS of the class do when looked at (str / repr / ==, hash, truth, attribute reads, a metaclass ...): inherited by subclasses
            ckind = _pick_hostile(rnd, 0.22, throw_ok=lambda k: False)[0]
            try:
                c = X.build(ckind, f'E{i}', tuple(bases), ns)
            except (TypeError, X.Hostile):
                continue            # inconsistent MRO / layout or metaclass conflict / a hostile metaclass that does not let itself be subclassed: not a class
            if ckind != 'plain':
                behaviours[_nm(c)] = ckind
            gen.append((c, fam))
            if 'handle' in ns:
                static_ids[c] = 500 + i
        if not gen:
            continue
        classes = [g for g, _ in gen]
        ids = {}

        def cid(c):
            return ids.setdefault(c, len(ids) + 1)
        history = [(Exception, D_EXC), (falcon.HTTPError, D_HTTP), (falcon.HTTPStatus, D_STATUS)]   # App.__init__, in this order
        app_cls = falcon.asgi.App if asgi else falcon.App
        exc_cls = rnd.choice(classes)

        def make():
            o = exc_cls.__new__(exc_cls)
            if issubclass(exc_cls, falcon.HTTPStatus):
                falcon.HTTPStatus.__init__(o, 299, text='st')
            elif issubclass(exc_cls, falcon.HTTPError):
                falcon.HTTPError.__init__(o, 418)
            else:
                Exception.__init__(o, 'x')
            return o
        site = rnd.choice(SITES)
        marker = {}
        # how the instance is raised (cause / context chains and cycles, traceback manipulations, a used instance, notes ...); the ways that
        # raise a different object (a group around it, a fresh instance of the class) do not fit the MRO bookkeeping of this part: see (b), (c)
        tkind = _pick_hostile(rnd, 0.2, throw_ok=lambda k: k not in ('group', 'group_hostile', 'raised_class_not_instance'))[1]
        inherited = [behaviours[_nm(b)] for b in exc_cls.__mro__ if any(b is g for g in classes) and _nm(b) in behaviours]
        hostile = bool(inherited) or tkind != 'plain'

        # a STREAM attached to the response before the raise (resp.stream = ... / resp.set_stream(...)), with or without text / media
        stale_stream = (rnd.choice(STREAM_KINDS), rnd.choice(['stream', 'set_stream'])) if rnd.random() < 0.15 else None
        # ... or a server-sent events emitter (ASGI): it takes precedence over every other body, so it must be discarded like them
        stale_sse = asgi and rnd.random() < 0.1

        def preset(resp):
            if stale_sse:
                _attach_sse(resp)
            if stale_stream:
                _attach_stream(resp, asgi, stale_stream[0], stale_stream[1], STALE_STREAM)
            if site == 'render':
                return
            if stale_stream and rnd.random() < 0.4:
                return
            resp.text = 'PRESET'
            if rnd.random() < 0.5:
                resp.media = {'PRESET': 1}

        def raiser(resp):
            if site == 'render':
                resp.media = {'PRESET': 1}
                resp.content_type = 'application/x-raise'
                return
            if stale_stream:
                _attach_stream(resp, asgi, stale_stream[0], stale_stream[1], STALE_STREAM)
            if stale_sse:
                _attach_sse(resp)
            if rnd.random() < 0.5:
                resp.data = b'PRESET'
            X.throw(tkind, make)
        app = _install(app_cls, asgi, site, raiser, preset)
        if site == 'render':
            app.resp_options.media_handlers['application/x-raise'] = _raising_media_handler(make, tkind)
        regs = []

        def do_regs(k0, n):
            for k in range(k0, k0 + n):
                style = rnd.choice(['single', 'single', 'single', 'tuple', 'static'])
                cands = classes + [Exception, falcon.HTTPError, falcon.HTTPStatus, LookupError, falcon.HTTPNotFound, BaseException]
                if style == 'static':
                    havers = [c for c in classes if any('handle' in b.__dict__ for b in c.__mro__)]      # (no getattr: a metaclass may answer misses)
                    if not havers:
                        style = 'single'
                    else:
                        c = rnd.choice(havers)
                        app.add_error_handler(c)
                        hid = next(static_ids[b] for b in c.__mro__ if b in static_ids and 'handle' in b.__dict__)
                        history.append((c, hid)); regs.append(('static', _nm(c), hid))
                        continue
                if style == 'tuple':
                    cs = tuple(rnd.sample(cands, 2))
                    app.add_error_handler(cs, mkhandler(k, sets := rnd.random() < 0.7))
                    for c in cs:
                        history.append((c, k))
                    regs.append(('tuple', [_nm(c) for c in cs], k, sets))
                else:
                    c = rnd.choice(cands)
                    app.add_error_handler(c, mkhandler(k, sets := rnd.random() < 0.7))
                    history.append((c, k)); regs.append(('single', _nm(c), k, sets))

        n1 = rnd.randint(0, 5)
        do_regs(0, n1)
        warmed = rnd.random() < 0.45
        if warmed:
            # a request is served BEFORE further handlers are registered: a later registration of a nearer class must still win
            _call(app, stack, via_testing=False)
            del called[:]
        do_regs(n1, rnd.randint(0, 3) if warmed else rnd.randint(0, 1))
        r = _call_obj(app, stack, hostile, via_testing=(ci % 16 == 0))
        mro = exc_cls.__mro__[:-1]
        # ---- oracle: independent argmin over the MRO; the three default registrations are part of the history
        exp = None
        for c in mro:
            ks = [h for (rc, h) in history if rc is c]
            if ks:
                exp = ks[-1]
                break
        # ---- which handler ran
        if called:
            got = called[0] if len(called) == 1 else 'several:' + ','.join(map(str, called))
        elif r.escaped is not None:
            got = 'none'
        else:
            j = _json_or_none(r.body)
            streamed = (stale_stream is not None and r.body == STALE_STREAM) or (stale_sse and _is_stale_sse(r.body))     # (judged below; the status still tells which default handler ran)
            if r.status == 500 and (streamed or isinstance(j, dict) and j.get('title') == '500 Internal Server Error'):
                got = D_EXC
            elif r.status == 418 and (streamed or isinstance(j, dict) and 'title' in j):
                got = D_HTTP
            elif r.status == 299 and (streamed or r.body == b'st'):
                got = D_STATUS
            else:
                got = f'unknown:{r.status}'
        what = None
        if r.escaped is not None and exp is not None:
            what = f'exception escaped to the server: {r.escaped!r} (handler {exp} is registered for the nearest class of the MRO; ran: {got})'
        elif got != exp:
            what = f'handler {got} ran, expected {exp}'
        else:
            sets = None
            if isinstance(exp, int) and exp < 9000:
                for reg in regs:
                    if reg[2] == exp and reg[0] != 'static':
                        sets = reg[3]
                if sets is None and stale_stream:
                    sets = static_sets.get(exp)
            if stale_stream and sets is False and r.body == STALE_STREAM:
                # the handler defines no body at all and did not touch resp.stream: what is sent then is not fixed by the statement
                # (it lists text, data and media as discarded); both stacks send the stream - recorded, not judged
                ctx.count('a_stale_stream_sent_handler_defines_no_body_(not_judged)')
            elif b'PRESET' in r.body:
                what = f'content set before the raise was sent: {r.body[:60]!r}' + (' (the stream attached before the raise)' if r.body == STALE_STREAM else
                                                                                     ' (the server-sent events emitter set before the raise)' if _is_stale_sse(r.body) else '')
            elif sets is True and r.body != f'h{exp}'.encode():
                what = f'custom handler set text h{exp} but the body sent is {r.body[:60]!r}'
            elif sets is False and r.body != b'':
                what = f'custom handler set no body but {r.body[:60]!r} was sent'
        case = {'stack': stack, 'site': site, 'raised': _nm(exc_cls), 'mro': [_nm(c) for c in mro],
                'classes': {_nm(c): [_nm(b) for b in c.__bases__] for c in classes},
                'object_behaviour_by_class (lib_hostileexc)': behaviours, 'raised_how (lib_hostileexc.throw)': tkind,
                'registrations_after_defaults': regs, 'registrations_before_first_request': n1 if warmed else None, 'via_testing': ci % 16 == 0,
                'stream_attached_before_the_raise (kind, api)': stale_stream, 'sse_emitter_set_before_the_raise': stale_sse}
        ctx.oracle(name, what is None, what, case)
        sess.case(case)
        sess.op('new', 'ok')
        for c, h in history:
            sess.op(f'reg {cid(c)} {h}', 'ok')
        sess.op('find ' + ','.join(str(cid(c)) for c in mro), str(got))
        ctx.seen(('a', stack, site, str(case['classes']), str(regs), _nm(exc_cls), str(behaviours), tkind), True)
        ctx.count('a_site_' + site)
        if stale_stream:
            ctx.count('a_stale_stream_' + stack)
        if stale_sse:
            ctx.count('a_stale_sse_emitter')
        for hk in set(inherited):
            ctx.count('a_object_' + hk)
        ctx.count('a_raised_how_' + tkind)
        ctx.count('a_object_' + ('hostile' if hostile else 'ordinary'))
        ctx.count('a_stack_' + stack)
        ctx.count('a_chosen_' + ('custom' if isinstance(exp, int) and exp < 9000 else {D_EXC: 'default_exception', D_HTTP: 'default_httperror', D_STATUS: 'default_httpstatus'}.get(exp, 'none')))
    sess.finish()


# ------------------------------------------------------------------ (b) raise sites x handler outcomes x body reset

def _sites(ctx):
    import json
    import falcon
    import falcon.asgi
    import lib_hostileexc as X
    rnd = ctx.rng
    sess = ctx.session('_handle_exception outcome (WSGI+ASGI, every raise site) = Eh.handle', 'ehdriver')
    name = 'raise sites: body set before the raise is discarded; the response is what the handler defines; handler-raised HTTPError/HTTPStatus is rendered; default 500 never escapes; body of a render-time error is sent'
    sites = SITES + ['render415']
    outcomes = ['set_text', 'set_data', 'set_media', 'nothing', 'raise_http', 'raise_status', 'raise_plain',
                'draft_raise_http', 'draft_raise_status', 'draft_raise_status_notext', 'set_stream', 'clear_stream', 'set_sse']
    HANDLER_STREAM = b'HANDLER-stream-' + b'abcdefghij' * 2
    HANDLER_SSE = b'HANDLER-sse-event'
    combos = [(st, site, exc, out) for st in ('wsgi', 'asgi') for site in sites for exc in ('http', 'status', 'plain', 'custom')
              for out in (outcomes if exc == 'custom' else [None]) if not (out == 'set_sse' and st == 'wsgi')]      # (resp.sse exists on ASGI only)
    i, k = ctx.shard
    todo = [c for j, c in enumerate(combos) if j % k == i] if not ctx.searching else []
    todo = todo * (1 if ctx.quick else 4)
    for _ in range(ctx.n(4000, 50000)):
        todo.append(rnd.choice(combos))
    for ci, (stack, site, exc, out) in enumerate(todo):
        asgi = stack == 'asgi'
        # the response state before the raise: text / data / media and / or a STREAM (resp.stream = ... / resp.set_stream(obj, length); an
        # iterable, a generator, a file-like object, a falsy iterable), at every raise site, on both stacks
        pstream = (rnd.choice(STREAM_KINDS), rnd.choice(['stream', 'set_stream'])) if rnd.random() < (0.4 if out not in ('set_stream', 'clear_stream') else 0.7) else None
        psse = asgi and site != 'render415' and rnd.random() < 0.2
        presets = [p for p in ('text', 'data', 'media') if rnd.random() < 0.6] or ([] if pstream and rnd.random() < 0.6 else ['text'])
        if site in ('render', 'render415'):
            presets = ['media']
        primed = site not in ('render', 'render415') and rnd.random() < 0.4

        # the exception OBJECT: what it does when it is looked at (class level) and how it is raised (instance level); the HTTPError /
        # HTTPStatus a handler raises is of the same kind.  The ways of raising that produce another object need a class that can be
        # instantiated without arguments / end at the default handler of Exception
        if site == 'render415':
            ckind = tkind = 'plain'
        else:
            ckind, tkind = _pick_hostile(rnd, 0.75 if exc == 'plain' else 0.3, throw_ok=lambda k: (
                exc == 'plain' if k in ('group', 'group_hostile') else exc in ('plain', 'custom') if k == 'raised_class_not_instance' else True))
        hostile = (ckind, tkind) != ('plain', 'plain')
        AppErr = X.build(ckind, 'AppErr', (Exception,))
        PlainErr = X.build(ckind, 'PlainErr', (RuntimeError,)) if hostile else RuntimeError
        Conflict = X.build(ckind, 'Conflict', (falcon.HTTPConflict,)) if hostile else falcon.HTTPConflict
        Gone = X.build(ckind, 'Gone', (falcon.HTTPGone,)) if hostile else falcon.HTTPGone
        Status = X.build(ckind, 'Status', (falcon.HTTPStatus,)) if hostile else falcon.HTTPStatus
        called = []
        drafts = [p for p in ('text', 'data', 'media') if rnd.random() < 0.6] or [rnd.choice(['text', 'data', 'media'])]
        # the handler assigns its own server-sent events emitter (ASGI): if it then RAISES an HTTPError / HTTPStatus, that is what must be
        # rendered (the emitter is a draft like text / data / media); if it returns, the events are the response it defines
        hsse = asgi and (out == 'set_sse' or (out is not None and out.startswith('draft_') and rnd.random() < 0.4))
        if hsse and out != 'set_sse':
            drafts = drafts + ['sse'] if rnd.random() < 0.7 else ['sse']

        def make():
            if site == 'render415':
                raise AssertionError('render415 raises by itself')
            if exc == 'http':
                return Conflict(title='T-conflict', description='D-conflict', headers={'X-Err': 'e1'})
            if exc == 'status':
                return Status(299, headers={'X-St': 's1'}, text='status-text')
            if exc == 'plain':
                return PlainErr('plain')
            return AppErr('custom')

        def preset(resp):
            if pstream:
                _attach_stream(resp, asgi, pstream[0], pstream[1], STALE_STREAM)
            if psse:
                _attach_sse(resp)
            if site in ('render', 'render415'):
                return
            if 'text' in presets: resp.text = 'PRESET-text'
            if 'data' in presets: resp.data = b'PRESET-data'
            if 'media' in presets: resp.media = {'PRESET': 'media'}
            if primed and presets:           # an earlier phase already rendered the body once (render cache filled)
                _render_now(resp)

        def raiser(resp):
            if site in ('render', 'render415') and pstream:
                _attach_stream(resp, asgi, pstream[0], pstream[1], STALE_STREAM)
            if site in ('render', 'render415') and psse:
                _attach_sse(resp)
            if site == 'render':
                resp.media = {'PRESET': 'media'}
                resp.content_type = 'application/x-raise'
                return
            if site == 'render415':
                resp.media = {'PRESET': 'media'}
                resp.content_type = 'application/x-nobody-handles-this'
                return
            preset(resp)
            X.throw(tkind, make)

        def handler_emitter(resp):
            async def emitter():
                yield falcon.asgi.SSEvent(data=HANDLER_SSE)
            resp.sse = emitter()

        def hbody(resp):
            called.append(out)
            resp.status = 233
            if out == 'set_text': resp.text = 'handler-text'
            elif out == 'set_data': resp.data = b'handler-data'
            elif out == 'set_media':
                resp.media = {'handler': 'media'}
                resp.content_type = falcon.MEDIA_JSON        # (at the render sites the content type is what made rendering fail)
            elif out == 'raise_http': raise Gone(title='T-gone', headers={'X-Err': 'e2'})
            elif out == 'raise_status': raise Status(298, headers={'X-St': 's2'}, text='handler-status-text')
            elif out.startswith('draft_'):
                # the handler assigns a body and THEN raises: the raised error / status is what must be rendered
                if 'text' in drafts: resp.text = 'DRAFT-text'
                if 'data' in drafts: resp.data = b'DRAFT-data'
                if 'media' in drafts:
                    resp.media = {'DRAFT': 'media'}
                    if site not in ('render', 'render415'): resp.content_type = falcon.MEDIA_JSON
                if 'sse' in drafts: handler_emitter(resp)
                if out == 'draft_raise_http': raise Gone(title='T-gone', headers={'X-Err': 'e2'})
                if out == 'draft_raise_status': raise Status(298, headers={'X-St': 's2'}, text='handler-status-text')
                raise Status(297, headers={'X-St': 's3'})
            elif out == 'set_sse': handler_emitter(resp)
            elif out == 'raise_plain': raise KeyError('raised inside the handler')
            elif out == 'set_stream': _attach_stream(resp, asgi, rnd.choice(STREAM_KINDS), rnd.choice(['stream', 'set_stream']), HANDLER_STREAM)
            elif out == 'clear_stream': resp.stream = None
        if asgi:
            async def h(req, resp, ex, params): hbody(resp)
        else:
            def h(req, resp, ex, params): hbody(resp)
        app = _install(falcon.asgi.App if asgi else falcon.App, asgi, site, raiser, preset)
        if site == 'render':
            app.resp_options.media_handlers['application/x-raise'] = _raising_media_handler(make, tkind)
        # what is raised, for the oracle
        if site == 'render415':
            raised = 'custom' if exc == 'custom' else 'http415'
            if exc == 'custom':
                app.add_error_handler(falcon.HTTPUnsupportedMediaType, h)
        else:
            raised = exc
            if exc == 'custom':
                app.add_error_handler(AppErr, h)
        r = _call_obj(app, stack, hostile, via_testing=(ci % 16 == 5))
        j = _json_or_none(r.body)
        what = None

        stale_open = bool(pstream) and out in ('nothing', 'draft_raise_status_notext')

        def expect(status, body=None, jtitle=None, hdr=None, vary=False):
            if r.escaped is not None:
                return f'exception escaped to the server: {r.escaped!r}'
            if r.status != status:
                return f'status {r.status}, expected {status}'
            if body == b'' and stale_open and r.body == STALE_STREAM:
                # the handler defines no body at all and did not touch resp.stream: what is sent then is not fixed by the statement (it
                # lists text, data and media as discarded); both stacks send the stream - recorded, not judged
                ctx.count('b_stale_stream_sent_handler_defines_no_body_(not_judged)')
            elif body is not None and r.body != body:
                return f'body {r.body[:80]!r}, expected {body!r}' + (' (the handler\'s body was discarded)' if r.body == b'' else '') + (
                    ' (the stream attached before the raise)' if r.body == STALE_STREAM else '')
            if jtitle is not None and not (isinstance(j, dict) and j.get('title') == jtitle):
                return f'body {r.body[:80]!r} is not the JSON rendering of the error titled {jtitle!r}' + (' (the handler\'s body was discarded)' if r.body == b'' else '')
            if hdr and r.header(hdr[0]) != [hdr[1]]:
                return f'header {hdr[0]}: {r.header(hdr[0])}, expected [{hdr[1]!r}]'
            if vary and not _vary_has_accept(r):
                return f'Vary does not list Accept: {r.header("vary")}'
            return None
        if raised == 'http':
            what = expect(409, jtitle='T-conflict', hdr=('x-err', 'e1'), vary=True)
            if what is None and j.get('description') != 'D-conflict': what = 'description lost'
        elif raised == 'http415':
            what = expect(415, jtitle='415 Unsupported Media Type', vary=True)
        elif raised == 'status':
            what = expect(299, body=b'status-text', hdr=('x-st', 's1'))
        elif raised == 'plain':
            what = expect(500, jtitle='500 Internal Server Error', vary=True)
        else:
            if called != [out]:
                what = f'the custom handler ran {len(called)} times'
            elif out == 'set_text': what = expect(233, body=b'handler-text')
            elif out == 'set_data': what = expect(233, body=b'handler-data')
            elif out == 'set_media': what = expect(233, body=json.dumps({'handler': 'media'}).encode())
            elif out == 'nothing': what = expect(233, body=b'')
            elif out == 'raise_http': what = expect(410, jtitle='T-gone', hdr=('x-err', 'e2'), vary=True)
            elif out == 'raise_status': what = expect(298, body=b'handler-status-text', hdr=('x-st', 's2'))
            elif out == 'draft_raise_http': what = expect(410, jtitle='T-gone', hdr=('x-err', 'e2'), vary=True)
            elif out == 'draft_raise_status': what = expect(298, body=b'handler-status-text', hdr=('x-st', 's2'))
            elif out == 'draft_raise_status_notext': what = expect(297, body=b'', hdr=('x-st', 's3'))
            elif out == 'set_stream': what = expect(233, body=HANDLER_STREAM)
            elif out == 'set_sse': what = expect(233, body=b'data: ' + HANDLER_SSE + b'\n\n')
            elif out == 'clear_stream': what = expect(233, body=b'')
            elif out == 'raise_plain':
                if r.escaped is None and r.status != 500:
                    what = f'handler raised a plain exception: neither propagated nor 500 (status {r.status})'
        if what is None and b'PRESET' in r.body and not (stale_open and r.body == STALE_STREAM):
            what = f'content set before the raise was sent: {r.body[:80]!r}' + (' (the stream attached before the raise)' if r.body == STALE_STREAM else '')
        if psse and r.escaped is None and _is_stale_sse(r.body):
            what = f'the server-sent events emitter set before the raise was used for the response instead of what the handler defines: status {r.status}, body {r.body[:80]!r}'
        if hsse and out != 'set_sse' and r.escaped is None and HANDLER_SSE in r.body:
            what = f'the server-sent events emitter the handler assigned before raising was used instead of the raised error/status: status {r.status}, body {r.body[:80]!r}'
        if what is None and b'DRAFT' in r.body:
            what = f'content the handler set before raising was sent instead of the raised error/status: {r.body[:80]!r}'
        case = {'stack': stack, 'site': site, 'raised': raised, 'handler_outcome': out, 'preset': presets, 'preset_rendered_once': primed, 'via_testing': ci % 16 == 5,
                'stream_attached_before_the_raise (kind, api)': pstream, 'sse_emitter_set_before_the_raise': psse,
                'object_behaviour (lib_hostileexc.build)': ckind, 'raised_how (lib_hostileexc.throw)': tkind}
        if out and out.startswith('draft_'):
            case['handler_drafts'] = drafts
        ctx.oracle(name, what is None, what, case)
        # ---- model: Eh.handle on (mro ids, registry, behaviour of the chosen handler, preset body)
        # classes: 1 = raised class, 2 = HTTPError, 3 = HTTPStatus, 4 = Exception, 5 = BaseException
        mro = {'http': '1,2,4,5', 'http415': '1,2,4,5', 'status': '1,3,5', 'plain': '1,4,5', 'custom': '1,4,5' if site != 'render415' else '1,2,4,5'}[raised]
        st_raised = {'http': 409, 'http415': 415, 'status': 299}.get(raised, 0)
        sess.case(case)
        sess.op('new', 'ok')
        sess.op(f'reg 4 {D_EXC}', 'ok'); sess.op(f'reg 2 {D_HTTP}', 'ok'); sess.op(f'reg 3 {D_STATUS}', 'ok')
        if raised == 'custom':
            sess.op('reg 1 7', 'ok')
            dl = ''.join(p[0] for p in drafts if p != 'sse') or '-'
            beh = {'set_text': 'sets:233:1', 'set_data': 'sets:233:2', 'set_media': 'sets:233:3', 'nothing': 'sets:233:0', 'set_stream': 'sets:233:0', 'clear_stream': 'sets:233:0',
                   'set_sse': 'sets:233:0',
                   'raise_http': 'http:410', 'raise_status': 'status:298', 'raise_plain': 'other',
                   'draft_raise_http': 'drafthttp:410:' + dl, 'draft_raise_status': 'draftstatus:298:' + dl,
                   'draft_raise_status_notext': 'draftstatus:297:' + dl}[out]
            sess.op(f'behave 7 {beh}', 'ok')
        pre = ''.join(c for c, p in (('t', 'text'), ('d', 'data'), ('m', 'media')) if p in presets) or '-'
        if r.escaped is not None:
            obs = 'escape'
        else:
            # body source: 0 none, 1 text, 2 data, 3 media (handler), 4 serialized error, 5 status text, 9 preset leaked
            # 6 the stream attached before the raise, 7 the stream attached by the handler
            # 8 the server-sent events of the emitter set before the raise, 10 those of the emitter the handler assigned; 99 anything else
            if r.body == STALE_STREAM: src = 6
            elif r.body == HANDLER_STREAM: src = 7
            elif _is_stale_sse(r.body): src = 8
            elif HANDLER_SSE in r.body: src = 10
            elif b'PRESET' in r.body: src = 9
            elif r.body == b'DRAFT-text': src = 1
            elif r.body == b'DRAFT-data': src = 2
            elif j == {'DRAFT': 'media'}: src = 3
            elif r.body == b'': src = 0
            elif r.body == b'handler-text': src = 1
            elif r.body == b'handler-data': src = 2
            elif j == {'handler': 'media'}: src = 3
            elif isinstance(j, dict) and 'title' in j: src = 4
            elif r.body in (b'status-text', b'handler-status-text'): src = 5
            else: src = 99
            obs = f'status={r.status} body={src}'
        if out != 'draft_raise_status_notext':       # (Eh.composeStatus always carries a text; the text-less HTTPStatus is judged by the oracle only)
            if pstream or psse or hsse or out in ('set_stream', 'clear_stream'):
                # Eb.handleS + Eb.sent: _handle_exception leaves resp.stream alone, the rendered body is sent before any stream
                act = {'set_stream': 's', 'clear_stream': 'c'}.get(out, 'k') + ('e' if hsse else '')
                sess.op(f'handles {mro} {st_raised} {pre.replace("-", "") + ("s" if pstream else "") + ("e" if psse else "") or "-"} {act}', obs)
            else:
                sess.op(f'handle {mro} {st_raised} {pre}', obs)
        ctx.seen(('b', stack, site, raised, out, tuple(presets), ckind, tkind, pstream, psse, hsse), True)
        ctx.count('b_site_' + site)
        if pstream:
            ctx.count(f'b_stale_stream_{stack}_{pstream[0]}_{pstream[1]}' + ('' if presets else '_alone'))
            ctx.count('b_stale_stream_site_' + site)
        if psse:
            ctx.count('b_stale_sse_site_' + site + ('_with_stream' if pstream else ''))
        if hsse:
            ctx.count('b_handler_assigns_sse_then_' + ('returns' if out == 'set_sse' else out[6:]))
        ctx.count('b_object_' + ckind)
        ctx.count('b_raised_how_' + tkind)
        if hostile:
            ctx.count(f'b_hostile_object_{raised}_{stack}')
        ctx.count('b_raised_' + raised + ('' if out is None else ':' + out))
    sess.finish()


# ------------------------------------------------------------------ (c) default rendering of HTTPError / HTTPStatus / other exceptions

JSON, XML_T, XML_A = 'application/json', 'text/xml', 'application/xml'
# members of an Accept header that carry obs-text octets (as the latin-1 decoded native string) without changing what the client accepts:
# unknown types and parameters of types falcon never offers
NONASCII_MEMBERS = ['text/html;profile="caf\xe9"', 'text/html;x=\xc3\xa9', 'text/x-caf\xe9', 'application/vnd.\xe9+json', 'application/vnd.\xff+xml', 'image/\xff',
                    '\xe9/\xff', 'text/x-\x80;q=0.5', 'image/png;title="\xfe\xff"', 'application/x-\xb5;q=0.3', 'image/x-\xc3\x28', 'text/x-\xa0y', 'x-\x85/y;q=0.9']
# ... and members whose reading is not defined (octets inside a q value / appended to a known type): judged leniently
NONASCII_LENIENT = ['application/json;q=\xb9', 'application/xml;q=0.\xb2', '*/*;q=\xbd', 'application/json\xe9', 'application/xml;q=0.5\xe9', '\xe9', '*/*\xff',
                    'text/xml;q=\xb3', 'application/\xe9son', '\xa0', 'application/json;q=1\xa0']
OCTETS = [0x80, 0x85, 0xa0, 0xad, 0xb2, 0xb9, 0xbd, 0xc3, 0xa9, 0xe9, 0xfe, 0xff, 0xc0, 0xdf, 0xb5]
FORM, MULTI, YAML = 'application/x-www-form-urlencoded', 'multipart/form-data', 'application/x-yamlish'


def _quality(mt, ranges):
    """RFC 7231 5.3.2: the most specific matching range decides the quality of a media type."""
    t, s = mt.split('/')
    best = None
    for rt, rs, q in ranges:
        if (rt, rs) == ('*', '*'): spec = 0
        elif rt == t and rs == '*': spec = 1
        elif (rt, rs) == (t, s): spec = 2
        else: continue
        if best is None or spec > best[0]:
            best = (spec, q)
    return best[1] if best else 0.0


def _rfc3986_encode(s):
    """percent-encode everything outside unreserved + reserved (so '%', space, quotes, non-ASCII ... are escaped)"""
    keep = set('ABCDEFGHIJKLMNOPQRSTUVWXYZabcdefghijklmnopqrstuvwxyz0123456789-._~' + ":/?#[]@!$&'()*+,;=")
    return ''.join(c if c in keep else ''.join('%%%02X' % b for b in c.encode('utf-8')) for c in s)


def _rand_text(rnd, xml_safe, maxlen=12):
    pools = [
        'abcXYZ 019', '<>&"\'/\\', 'éßñ中文日本', '\U0001f600\U00010348', '́‏‮', '  ﻿', '\t\n', ']]>&amp;&#10;<!--', '%20%zz+',
    ]
    if not xml_safe:
        pools += ['\x00\x01\x0b\x1f\x7f', '\r', '￾￿']
    n = rnd.choice([0, 1, 1, 2, 5, maxlen])
    return ''.join(rnd.choice(rnd.choice(pools)) for _ in range(n))


_URI_KEEP = frozenset('ABCDEFGHIJKLMNOPQRSTUVWXYZabcdefghijklmnopqrstuvwxyz0123456789-._~' + ":/?#[]@!$&'()*+,;=")
_HREF_BASE = ['https://docs.example.com/errors/quota', 'http://example.com/a/b', '/rel/doc', 'doc', '', '', '//host:8080/p', 'urn:x:y', "https://[::1]:8/p;v=1", 'http://example.com/wiki/']
_HREF_PCT_OK = ['%25', '%20', '%2F', '%2f', '%C3%A9', '%c3%a9', '%e2%82%AC', '%41', '%7e', '%00', '%FF', '%ff', '%2525', '%aB', '%0a', '%3C%3e']
_HREF_PCT_BAD = ['%', '%%', '%z', '%zz', '%2', '%2G', '%g1', '%u00e9', '%-1', '%+5', '% 20', '%\xe9\xe9', '%\uff12\uff15']
_HREF_SAFE = ['?used=100', '&q=50', 'off', '#frag', '+', 'a+b', '=', ':', '@', "!$&'()*,;", '[]', '~', '-._', '/', '?', '0', 'A', 'z9']
_HREF_OTHER = [' ', '  ', '\xe9', '\u4e2d\u6587', '\U0001f600', '"', '<', '>', '\\', '^', '`', '{|}', 'e\u0301', '\u202e', '\t', '\n', '&amp;', ']]>', '\x7f', '\xa0', '\uff05']
_HREF_OTHER_NOXML = ['\x00', '\x01', '\r', '\x1f', '\ufffe']
_HREF_SHAPES = ['wellformed_pct_only', 'wellformed_pct_only', 'wellformed_pct_only', 'malformed_pct', 'trailing_pct', 'pct_and_other', 'other_only', 'safe_only', 'mix', 'only_a_percent_token']


def _rand_href(rnd, xml_safe):
    """(shape, href): the CONTENT of an error link. Built from tokens so that every role of '%' occurs on its own: a well-formed %XX (upper / lower /
    mixed case hex, %25 itself, %2525) in a string with NOTHING else to escape, a malformed one (`%`, `%%`, `%zz`, `%2`, `%u00e9`, full-width digits),
    a trailing `%` / `%2`, percent signs next to characters that need escaping (space, quotes, <>, non-ASCII, controls), reserved characters incl. '+',
    at the start (empty base), in the middle and at the end of absolute / relative / scheme-less references."""
    other = _HREF_OTHER + ([] if xml_safe else _HREF_OTHER_NOXML)
    shape = rnd.choice(_HREF_SHAPES)
    n = rnd.choice([1, 1, 2, 3, 5])
    if shape == 'only_a_percent_token':
        return shape, rnd.choice(_HREF_PCT_OK + _HREF_PCT_BAD)
    pools = {'wellformed_pct_only': [_HREF_PCT_OK, _HREF_PCT_OK, _HREF_SAFE], 'malformed_pct': [_HREF_PCT_BAD, _HREF_PCT_OK, _HREF_SAFE],
             'trailing_pct': [_HREF_PCT_OK, _HREF_SAFE], 'pct_and_other': [_HREF_PCT_OK, _HREF_PCT_BAD, other, _HREF_SAFE], 'other_only': [other, _HREF_SAFE],
             'safe_only': [_HREF_SAFE], 'mix': [_HREF_PCT_OK, _HREF_PCT_BAD, other, _HREF_SAFE]}[shape]
    toks = [rnd.choice(rnd.choice(pools)) for _ in range(n)]
    must = {'wellformed_pct_only': _HREF_PCT_OK, 'malformed_pct': _HREF_PCT_BAD, 'pct_and_other': _HREF_PCT_OK}.get(shape)
    if must and not any(t in must for t in toks):
        toks[rnd.randrange(len(toks))] = rnd.choice(must)
    if shape == 'pct_and_other' and not any(t in other for t in toks):
        toks.insert(rnd.randrange(len(toks) + 1), rnd.choice(other))
    if shape == 'trailing_pct':
        toks.append(rnd.choice(['%', '%2', '%a', '%%']))
    return shape, rnd.choice(_HREF_BASE) + ''.join(toks)


def _href_class(href):
    """which of the classes of the href dimension a string is in (for the input-distribution table)"""
    import re
    if '%' not in href:
        return 'no_percent' + ('' if set(href) <= _URI_KEEP else '_needs_escaping')
    wf = all(re.match('[0-9A-Fa-f]{2}', t) for t in href.split('%')[1:])
    rest = set(href) <= _URI_KEEP | {'%'}
    return ('every_percent_wellformed' if wf else 'some_percent_malformed') + ('_nothing_else_to_escape' if rest else '_and_other_characters_to_escape')


def _href_faithful(emitted, href):
    """the faithful-encoding reading of the statement for the link: what the document carries is a URI reference in RFC 3986 characters only (every '%'
    starts a %XX triplet) and percent-DECODING it (urllib, strict UTF-8 - not falcon code) gives back exactly the href the application passed"""
    import re
    import urllib.parse
    if not isinstance(emitted, str):
        return f'link href is not a string: {emitted!r}'
    bad = sorted(set(emitted) - _URI_KEEP - {'%'})
    if bad:
        return f'link href {emitted!r} contains {bad!r}, which are not RFC 3986 unreserved / reserved characters'
    if re.search('%(?![0-9A-Fa-f]{2})', emitted):
        return f'link href {emitted!r} contains a % that does not start a %XX triplet'
    try:
        back = urllib.parse.unquote(emitted, encoding='utf-8', errors='strict')
    except UnicodeDecodeError as e:
        return f'link href {emitted!r} does not percent-decode to UTF-8: {e}'
    if back != href:
        return f'link href {emitted!r} percent-decodes to {back!r}, the application gave {href!r}'
    return None


VND_JSON = 'application/vnd.acme+json'


def _recase(rnd, tok):
    """a case variant of a token that HTTP compares case-insensitively (media type / subtype / structured-syntax suffix / parameter name;
    RFC 9110 8.3.1, 5.6.6): as is, UPPER, Title, or every letter at random"""
    r = rnd.random()
    if r < 0.45:
        return tok
    if r < 0.65:
        return tok.upper()
    if r < 0.8:
        return tok.title()
    return ''.join(c.upper() if rnd.random() < 0.5 else c.lower() for c in tok)


def _recase_range(rnd, mt):
    """the media range with type, subtype and +suffix re-cased independently (so that `+JSON` occurs with a lower-case type and vice versa)"""
    t, _, sub = mt.partition('/')
    if '+' in sub:
        stem, _, suffix = sub.rpartition('+')
        sub = _recase(rnd, stem) + '+' + _recase(rnd, suffix)
    else:
        sub = _recase(rnd, sub)
    return _recase(rnd, t) + '/' + sub
_SIMPLE_RANGE = __import__('re').compile(r'^\s*(\*|\*/\*|[A-Za-z0-9.+-]+/(?:[A-Za-z0-9.+-]+|\*))\s*(;\s*[qQ]=\s*([0-9]*\.?[0-9]+))?\s*$')
LINK_DEFAULT = 'Documentation related to this error'
NAME_LINK = ('the link of the emitted error document is a faithful encoding of the href: RFC 3986 characters only, and percent-decoding it (urllib) gives back '
             'exactly the href the application passed; href_text verbatim')


def _hx(t):
    """hex of a latin-1 string, '-' for the empty string (esdriver's string format)"""
    return t.encode('latin-1').hex() or '-'


def _flag(v):
    """how the Es driver is told about an optional string argument: None / empty / given (the content is irrelevant to the model)"""
    return 'none' if v is None else ('-' if v == '' else '41')


def _cps(v):
    """a str argument whose CONTENT matters to the model (esdriver op `link`): none / - / dot-separated hex code points"""
    return 'none' if v is None else ('-' if v == '' else '.'.join('%x' % ord(c) for c in v))


def _link_reply(doc):
    """`link` reply of the driver for the link found in a decoded error document / to_dict()"""
    l = doc.get('link')
    if not isinstance(l, dict):
        return 'nolink'
    return f"href={_cps(l.get('href')) if isinstance(l.get('href'), str) else '?'} text={'default' if l.get('text') == LINK_DEFAULT else 'given'}"


def _doc_fields(doc, status_line):
    """`todict` reply of the driver for a decoded error document (document order)"""
    parts = []
    for k, v in doc.items():
        if k == 'title':
            parts.append('title:' + ('status' if v == status_line else 'given'))
        elif k == 'link':
            parts.append('link:' + ('default' if isinstance(v, dict) and v.get('text') == LINK_DEFAULT else 'given'))
        else:
            parts.append(k)
    return ' '.join(parts)


def _serialization(ctx):
    import http
    import json
    import xml.etree.ElementTree as ET
    import falcon
    import falcon.asgi
    import falcon.media
    import lib_hostileexc as X
    rnd = ctx.rng
    name_http = 'default HTTPError response: own status and headers, Vary: Accept, body = faithful encoding (JSON unless the client prefers XML / a configured type) of title/description/code/link'
    name_status = 'default HTTPStatus response: its status, headers and text'
    name_plain = 'any other Exception: 500 with the JSON error body, never escapes'
    name_link = NAME_LINK
    sess = ctx.session('default rendering by the app (WSGI+ASGI): Content-Type chosen / body presence / field set / status and headers = '
                       'Es.serializeChoice, Es.toDict, Es.composeError, Es.composeStatus', 'esdriver')

    class YamlishHandler(falcon.media.BaseHandler):
        """a configured response media handler; its output is recognisable (marker) and keeps the order of the document"""
        def serialize(self, media, content_type):
            return b'YAMLISH:' + json.dumps(media).encode('utf-8')

        def deserialize(self, stream, content_type, content_length):
            return json.loads(stream.read()[8:])

    ranges_pool = [JSON, XML_A, XML_T, 'text/html', '*/*', 'application/*', 'text/*', VND_JSON, 'application/vnd.acme+xml', YAML, 'image/png',
                   'application/problem+json', 'application/atom+xml', 'application/vnd.acme.thing.v2+json', 'image/svg+xml']
    for ci in range(ctx.n(12000, 150000)):
        stack = rnd.choice(['wsgi', 'asgi'])
        asgi = stack == 'asgi'
        kind = rnd.choice(['http'] * 6 + ['status', 'status', 'plain'])
        site = rnd.choice(['responder', 'responder', 'req', 'rsrc', 'resp', 'before', 'after', 'sink', 'noroute'])
        if site == 'noroute':
            kind = 'http'                  # the 404 the framework itself raises for a path without a route (middleware still runs)
        xml_on = rnd.random() < 0.7
        yaml_on = rnd.random() < 0.3
        # further configured response handlers: one keyed application/xml (predefined when XML is on), one with a +json suffix;
        # sometimes the JSON handler / the two form handlers are removed
        extra = ([YAML] if yaml_on else []) + ([XML_A] if rnd.random() < 0.1 else []) + ([VND_JSON] if rnd.random() < 0.1 else [])
        rnd.shuffle(extra)
        drop_json = rnd.random() < 0.05
        drop_forms = rnd.random() < 0.1
        # what falcon may render an error as: JSON, XML if enabled, and the configured response media handlers other than the
        # request-only form types (multipart cannot serialize at all, a URL-encoded form cannot hold the error document)
        offered = [JSON] + ([XML_T, XML_A] if xml_on else []) + [e for e in extra if not (xml_on and e == XML_A)]
        # Accept header
        accept = None
        ranges = [('*', '*', 1.0)]          # falcon's (and HTTP's) default when the header is absent
        if rnd.random() < 0.8:
            picks = rnd.sample(ranges_pool, rnd.randint(1, 3))
            if rnd.random() < 0.08:
                picks = rnd.sample([FORM, MULTI], 1) + picks[:1]
            parts, ranges = [], []
            # every token the negotiation reads is compared case-insensitively by HTTP: with probability 0.5 the header is written in
            # another case (type, subtype, +suffix and the name of the q parameter re-cased independently)
            # (this found that falcon.util.mediatypes compared type / subtype case-sensitively - `Accept: Application/xml` got no error
            #  body -, repaired in /repo a19fe30)
            cased = rnd.random() < 0.5
            for mt in picks:
                q = rnd.choice([None, None, None, 0, 0.1, 0.5, 0.9, 1])
                shown = _recase_range(rnd, mt) if cased else mt
                if cased and shown != mt and any(_quality(o, [tuple(mt.split('/')) + (1.0,)]) > 0 for o in offered):
                    ctx.count('c_accept_range_matching_an_offered_type_in_other_case')
                qn = rnd.choice(['q', 'Q']) if cased else 'q'
                parts.append(shown if q is None else f'{shown}{rnd.choice([";", "; ", " ;", " ; "]) if cased else ";"}{qn}={q}')
                t, s = mt.split('/')
                ranges.append((t, s, 1.0 if q is None else float(q)))     # (the RFC evaluator below works on the canonical lower-case spelling)
            accept = rnd.choice([', ', ',']).join(parts)
            ctx.count('c_accept_case_' + ('as_is' if accept == accept.lower() else 'other_case'))
            if any('+' in p and p.split(';')[0] != p.split(';')[0].lower() for p in parts):
                ctx.count('c_accept_suffix_type_in_other_case')
        # header OCTETS: a field value is a sequence of octets; obs-text (0x80-0xFF) reaches the app as a latin-1 decoded native string on
        # WSGI and as bytes on ASGI.  (i) extra members that are unknown types / carry a parameter with such octets (latin-1 text, well-formed
        # UTF-8, ill-formed UTF-8, NBSP, 0xFF ...): they do not change what the client accepts, so the evaluator below still decides the body;
        # (ii) stray octets anywhere in the value / in a q value: only "never escapes", status, headers, Vary and faithfulness are judged
        octets = None
        if accept is not None and rnd.random() < 0.2:
            octets = rnd.choice(['member', 'member', 'stray'])
            if octets == 'member':
                for _ in range(rnd.randint(1, 2)):
                    parts.insert(rnd.randint(0, len(parts)), rnd.choice(NONASCII_MEMBERS))
                accept = rnd.choice([', ', ',']).join(parts)
            else:
                r_ = rnd.random()
                if r_ < 0.5:
                    pos = rnd.randint(0, len(accept))
                    accept = accept[:pos] + ''.join(chr(rnd.choice(OCTETS)) for _ in range(rnd.randint(1, 3))) + accept[pos:]
                elif r_ < 0.8:
                    parts.insert(rnd.randint(0, len(parts)), rnd.choice(NONASCII_LENIENT))
                    accept = ', '.join(parts)
                else:
                    accept = ''.join(chr(rnd.choice(OCTETS)) for _ in range(rnd.randint(1, 6)))
                accept = accept.strip(' \t') or '\xe9'          # (servers strip optional whitespace around the field value)
            ctx.count('c_accept_octets_' + octets + '_' + stack)
        other_hdrs = {}
        if rnd.random() < 0.12:
            for hn_ in rnd.sample(['User-Agent', 'Content-Type', 'Cookie', 'X-Forwarded-For', 'Referer', 'Accept-Language', 'Accept-Encoding', 'Accept-Charset',
                                   'X-Request-Id', 'Forwarded', 'Authorization', 'If-None-Match'], rnd.randint(1, 3)):
                other_hdrs[hn_] = rnd.choice(['caf\xe9', '\xff', 'a=\xe9; b="\xc3\xa9"', 'text/\xb5; charset=\xfe', '\x80\x81', 'de-\xe0, en;q=0.\xb2'])
            ctx.count('c_other_request_headers_with_octets_' + stack)
        lenient = octets == 'stray'
        qs = {mt: _quality(mt, ranges) for mt in offered}
        top = max(qs.values())
        best = [mt for mt in offered if qs[mt] == top and top > 0]
        acc_l = (accept or '*/*').lower()
        if best:
            allowed = [JSON] if JSON in best else best
        elif '+json' in acc_l:
            allowed = [JSON]
        elif '+xml' in acc_l:
            allowed = [XML_A] if (xml_on or XML_A in extra) else [None]
        else:
            allowed = [None]                         # the client accepts nothing falcon can produce: status and headers only
        xml_possible = any(a in (XML_A, XML_T) for a in allowed) or (lenient and (xml_on or XML_A in extra))
        # the error
        hdrs = None
        if rnd.random() < 0.5:
            hdrs = {rnd.choice(['X-Request-Id', 'Retry-After', 'X-Err', 'WWW-Authenticate', 'Vary']): ''.join(rnd.choice('abc123 =;/"') for _ in range(rnd.randint(1, 8))).strip() or 'v'
                    for _ in range(rnd.randint(1, 2))}
            if rnd.random() < 0.3:
                hdrs = list(hdrs.items())
        # a header the response already carries when the error is raised (set by an earlier phase)
        pre_hdr = rnd.choice([None, None, None, ('Vary', 'Origin'), ('X-Pre', 'p1'), ('X-Err', 'pre'), ('Retry-After', '7')])
        # ... in particular a Vary value that LOOKS like the one the serializer manages: every relative of `Accept` (Accept-Encoding,
        # Accept-Language, X-Accept-Version, other case, Accept itself, lists), put there by a middleware (process_request), by the code
        # at the raise site right before raising, or carried by the raised object's own headers; through set_header / resp.vary / append_header
        vary_pre = None
        pre_when = 'middleware'
        if rnd.random() < 0.4:
            vary_pre = (rnd.choice(VARY_POOL), rnd.choice(['middleware', 'raise_site', 'error']), rnd.choice(['set_header', 'vary', 'append_header']))
            if vary_pre[1] == 'error' and (kind == 'plain' or site == 'noroute'):
                vary_pre = (vary_pre[0], 'middleware', vary_pre[2])
            if vary_pre[1] == 'raise_site' and site == 'noroute':
                vary_pre = (vary_pre[0], 'middleware', vary_pre[2])
            if vary_pre[1] == 'error':
                hdrs = dict(hdrs or {})
                hdrs = {k: v for k, v in hdrs.items() if k.lower() != 'vary'}
                hdrs[rnd.choice(['Vary', 'vary', 'VARY'])] = ', '.join(vary_pre[0])
                if rnd.random() < 0.3:
                    hdrs = list(hdrs.items())
            else:
                pre_hdr = ('Vary', ', '.join(vary_pre[0]))
                pre_when = vary_pre[1]
            ctx.count('c_vary_before_' + vary_pre[1] + ('_accept_relative' if any('accept' in m.lower() and m.lower() != 'accept' for m in vary_pre[0]) else
                                                        '_accept_itself' if any(m.lower() == 'accept' for m in vary_pre[0]) else '_unrelated'))
        status_val = rnd.choice([400, 401, 403, 404, 409, 418, 422, 429, 500, 503, 599, 799, http.HTTPStatus.GONE, '418 I\'m a teapot', '748 Confounded by ponies', falcon.HTTP_412])
        code_int = falcon.code_to_http_status(status_val)
        status_int = int(code_int[:3])
        if site == 'noroute':
            status_val, code_int, status_int, hdrs = 404, '404 Not Found', 404, None
        title = rnd.choice([None, _rand_text(rnd, xml_possible)])
        desc = rnd.choice([None, _rand_text(rnd, xml_possible, 30)])
        code = rnd.choice([None, None, 0, 7, -5, 2 ** 40])
        href = rnd.choice([None, None, 'http://example.com/' + _rand_text(rnd, xml_possible), _rand_text(rnd, xml_possible)])
        href_text = rnd.choice([None, _rand_text(rnd, xml_possible)])
        href_shape = None
        if rnd.random() < 0.5:
            # the CONTENT of the link: percent signs in every role, reserved / non-ASCII characters, spaces, '+' (with the other arguments as drawn above)
            href_shape, href = _rand_href(rnd, xml_possible)
            r_ = rnd.random()
            if r_ < 0.2: href_text = href                                  # the text is emitted verbatim, the href encoded
            elif r_ < 0.4: href_text = _rand_href(rnd, xml_possible)[1]
        if site == 'noroute':
            title = desc = code = href = href_text = href_shape = None
        st_status = rnd.choice([200, 201, 202, 299, 301, 404, '201 Created', http.HTTPStatus.ACCEPTED])
        st_text = rnd.choice([None, '', _rand_text(rnd, False, 30)])

        # the exception OBJECT (see lib_hostileexc): hostile dunder methods / metaclass, unusual ways of raising
        ckind, tkind = _pick_hostile(rnd, 0.5 if kind == 'plain' else 0.12, throw_ok=lambda k: (
            kind == 'plain' if k in ('group', 'group_hostile', 'raised_class_not_instance') else True))
        if site == 'noroute':
            ckind = tkind = 'plain'
        hostile = (ckind, tkind) != ('plain', 'plain')
        plain_base = rnd.choice([RuntimeError, KeyError, ZeroDivisionError, UnicodeError, StopIteration, OSError, Exception, LookupError, ArithmeticError])
        Cls = {'http': falcon.HTTPError, 'status': falcon.HTTPStatus, 'plain': plain_base}[kind]
        if hostile:
            Cls = X.build(ckind, 'Raised', (Cls,))

        def make():
            if kind == 'http':
                return Cls(status_val, title=title, description=desc, headers=hdrs, href=href, href_text=href_text, code=code)
            if kind == 'status':
                return Cls(st_status, headers=hdrs, text=st_text)
            return Cls('boom')

        def put_pre_hdr(resp):
            if pre_hdr[0] == 'Vary' and vary_pre and vary_pre[2] == 'vary':
                resp.vary = list(vary_pre[0])
            elif pre_hdr[0] == 'Vary' and vary_pre and vary_pre[2] == 'append_header':
                for m_ in vary_pre[0]:
                    resp.append_header('Vary', m_)
            else:
                resp.set_header(*pre_hdr)

        def raiser(resp):
            if pre_hdr and pre_when == 'raise_site':
                put_pre_hdr(resp)
            X.throw(tkind, make)

        # content the response already carries when the error is raised, possibly already rendered once (an earlier phase called
        # resp.render_body(), e.g. to log or sign the body): all of it must be discarded; or a STREAM (resp.stream / set_stream), alone or
        # next to text / media: never sent in place of the body the error defines
        stale = rnd.choice([None, None, None, 'text', 'data', 'media', 'media', 'media+text', 'stream', 'stream', 'stream+text', 'stream+media'])
        primed = stale is not None and stale != 'stream' and rnd.random() < 0.6
        stale_stream = (rnd.choice(STREAM_KINDS), rnd.choice(['stream', 'set_stream'])) if stale and 'stream' in stale else None
        stale_sse = asgi and rnd.random() < 0.12          # a server-sent events emitter (it takes precedence over every other body)

        def preset(resp):
            if pre_hdr and pre_when == 'middleware':
                put_pre_hdr(resp)
            if stale_sse:
                _attach_sse(resp)
            if stale:
                if stale_stream: _attach_stream(resp, asgi, stale_stream[0], stale_stream[1], STALE_STREAM)
                if 'media' in stale: resp.media = {'STALE': 'media'}
                if 'text' in stale: resp.text = 'STALE-text'
                if stale == 'data': resp.data = b'STALE-data'
                if primed:
                    try:
                        _render_now(resp)
                    except Exception:  # noqa  (no handler for the default media type in this configuration)
                        pass
        app = _install(falcon.asgi.App if asgi else falcon.App, asgi, 'responder' if site == 'noroute' else site, raiser, preset)
        app.resp_options.xml_error_serialization = xml_on
        mh = app.resp_options.media_handlers
        if drop_json:
            del mh[JSON]
        if drop_forms:
            del mh[FORM]
            del mh[MULTI]
        for e in extra:
            mh[e] = YamlishHandler()
        keys = list(mh)                                  # mapping order, as default_serialize_error iterates it
        req_headers = dict(other_hdrs)
        if accept is not None:
            req_headers['Accept'] = accept
        r = _call_obj(app, stack, hostile, via_testing=(ci % 16 == 9), headers=req_headers or None, path='/no/such/route' if site == 'noroute' else '/')
        case = {'stack': stack, 'site': site, 'kind': kind, 'accept': accept, 'xml_error_serialization': xml_on, 'response_media_handlers': keys,
                'accept_octets': octets, 'other_request_headers': other_hdrs or None, 'stream_attached_before_the_raise (kind, api)': stale_stream,
                'sse_emitter_set_before_the_raise': stale_sse,
                'vary_before_the_error (members, set by, api)': vary_pre,
                'object_behaviour (lib_hostileexc.build)': ckind, 'raised_how (lib_hostileexc.throw)': tkind, 'base_class': _nm(Cls.__mro__[1] if hostile else Cls),
                'header_set_before_the_raise': pre_hdr, 'via_testing': ci % 16 == 9, 'body_set_before_the_raise': stale, 'and_rendered_once': primed}
        what = None
        stale_open_hit = False
        ctx.count('c_stale_' + str(stale) + ('_rendered' if primed else ''))
        ctx.count('c_site_' + site)
        if stale_sse:
            ctx.count('c_stale_sse_emitter_' + kind)
        sse_what = (f'the server-sent events emitter set before the raise was used for the response instead of the rendering of what was raised: status {r.status}, body {r.body[:80]!r}'
                    if stale_sse and r.escaped is None and _is_stale_sse(r.body) else None)
        hl = list(hdrs.items()) if isinstance(hdrs, dict) else (hdrs or [])

        def headers_kept():
            for k, v in hl:
                if k.lower() == 'vary':
                    if not set(_members([v])) <= set(_members(r.header('vary'))):
                        return f'header Vary: {v!r} of the error is missing ({r.header("vary")})'
                elif r.header(k) != [v]:
                    return f'header {k}: {v!r} of the error is missing ({r.header(k)})'
            if pre_hdr and pre_hdr[0].lower() not in [k.lower() for k, _ in hl]:
                k, v = pre_hdr
                if k.lower() == 'vary':
                    if not set(_members([v])) <= set(_members(r.header('vary'))):
                        return f'header Vary: {v!r} set before the raise is missing ({r.header("vary")})'
                elif r.header(k) != [v]:
                    return f'header {k}: {v!r} set before the raise is missing ({r.header(k)})'
            return None

        def decode(body, mt):
            """(which encoder produced the body, the decoded document in document order)"""
            if body.startswith(b'YAMLISH:'):
                return 'handler', json.loads(body[8:])
            if mt in (XML_A, XML_T) or body.startswith(b'<?xml'):
                root = ET.fromstring(body)
                got = {}
                for el in root:
                    if el.tag == 'link': got['link'] = {x.tag: (x.text or '') for x in el}
                    elif el.tag == 'code': got['code'] = int(el.text)
                    else: got[el.tag] = el.text or ''
                if root.tag != 'error':
                    got['<root>'] = root.tag
                return 'xml', got
            return 'json', json.loads(body.decode('utf-8'))
        doc = None
        enc = None
        ctype = (r.header('content-type') or [None])[0]
        mt = (ctype or '').split(';')[0].strip().lower()
        if r.escaped is None and r.body != b'' and kind != 'status':
            try:
                enc, doc = decode(r.body, mt)
            except Exception as e:  # noqa
                enc, doc = 'undecodable: %r' % (e,), None
        if kind == 'plain':
            j = doc if enc == 'json' else None
            if r.escaped is not None: what = f'exception escaped to the server: {r.escaped!r}'
            elif r.status != 500: what = f'status {r.status} for an unhandled exception'
            elif not _vary_has_accept(r) and r.body != b'' and r.body != STALE_STREAM: what = f'the 500 body was negotiated but Vary does not list Accept: {r.header("vary")}'
            elif lenient:
                if r.body != b'' and not (isinstance(doc, dict) and doc.get('title') == '500 Internal Server Error') and not (stale_stream and r.body == STALE_STREAM):
                    what = f'body {r.body[:80]!r} is not a rendering of HTTPInternalServerError'
            elif None not in allowed and JSON in allowed and not (isinstance(j, dict) and j.get('title') == '500 Internal Server Error'): what = f'body {r.body[:80]!r} is not the JSON rendering of HTTPInternalServerError'
            elif None in allowed and r.body != b'' and not (stale_stream and r.body == STALE_STREAM):
                what = f'body {r.body[:80]!r} although the client accepts nothing that can be produced'
            if stale_stream and r.body == STALE_STREAM and what is None:
                stale_open_hit = True
            what = sse_what or what
            ctx.oracle(name_plain, what is None, what, case)
        elif kind == 'status':
            case.update(status=st_status, text=st_text, headers=hdrs)
            exp_status = int(falcon.code_to_http_status(st_status)[:3])
            if r.escaped is not None: what = f'exception escaped to the server: {r.escaped!r}'
            elif r.status != exp_status: what = f'status {r.status}, expected {exp_status}'
            elif stale_stream and st_text is None and r.body == STALE_STREAM: stale_open_hit = True
            elif r.body != (st_text or '').encode('utf-8') and not (r.status in (204, 304) or 100 <= r.status < 200): what = f'body {r.body[:80]!r}, expected the text {st_text!r}'
            if what is None: what = headers_kept()
            what = sse_what or what
            ctx.oracle(name_status, what is None, what, case)
        else:
            case.update(status=status_val, title=title, description=desc, code=code, href=href, href_text=href_text, headers=hdrs)
            exp = {'title': title or code_int}
            if desc is not None: exp['description'] = desc
            if code is not None: exp['code'] = code
            if href: exp['link'] = {'text': href_text or LINK_DEFAULT, 'href': _rfc3986_encode(href), 'rel': 'help'}
            if r.escaped is not None: what = f'exception escaped to the server: {r.escaped!r}'
            elif r.status != status_int: what = f'status {r.status}, expected {status_int}'
            elif not _vary_has_accept(r): what = f'Vary does not list Accept: {r.header("vary")}'
            else: what = headers_kept()
            if what is None:
                if r.body == b'':
                    if None not in allowed and not lenient:
                        what = f'no body although the client accepts {allowed}'
                elif stale_stream and r.body == STALE_STREAM and (None in allowed or lenient):
                    # nothing the client accepts can be produced: the error defines no body; what is sent then is not fixed by the statement
                    # (both stacks send the stream) - recorded, not judged
                    stale_open_hit = True
                elif mt not in ([a for a in allowed if a] if not lenient else offered):
                    what = f'body sent as {ctype!r}; by the Accept header the error should be rendered as one of {allowed if not lenient else offered}'
                elif doc is None:
                    what = f'{mt} body does not decode ({enc}): {r.body[:80]!r}'
                elif enc == 'handler' and mt not in extra:
                    what = f'body sent as {mt} was produced by the media handler configured for another type: {r.body[:80]!r}'
                elif (enc == 'json') != (mt == JSON):
                    what = f'body sent as {mt} is {enc}-encoded: {r.body[:80]!r}'
                elif dict(doc) != exp:
                    what = f'{mt} body ({enc}) decodes to {doc!r}, the error is {exp!r}'
            what = sse_what or what
            ctx.oracle(name_http, what is None, what, case)
            if href and isinstance(doc, dict) and isinstance(doc.get('link'), dict) and r.escaped is None:
                lw = _href_faithful(doc['link'].get('href'), href)
                if lw is None and doc['link'].get('text') != (href_text or LINK_DEFAULT):
                    lw = f'link text {doc["link"].get("text")!r}, the application gave href_text={href_text!r}'
                ctx.oracle(name_link, lw is None, None if lw is None else f'{mt} body ({enc}): {lw}', case)
                ctx.count('c_href_' + _href_class(href))
                ctx.count(f'c_href_judged_in_{enc}_document_{stack}')
                if href_shape: ctx.count('c_href_shape_' + href_shape)
                if href_text is not None and '%' in href_text: ctx.count('c_href_text_with_percent' + ('_same_as_href' if href_text == href else ''))
        # ---- correspondence with the Es model (everything above is independent of it)
        if stale_open_hit:
            ctx.count('c_stale_stream_sent_error_defines_no_body_(not_judged)')
        if r.escaped is None and all(ord(c) < 128 for c in (accept or '')) and not stale_open_hit:
            hs_arg = ','.join(f'{_hx(k)}:1' for k in keys) or '-'
            acc_arg = 'none' if accept is None else _hx(accept)
            rh_arg = f'{_hx(pre_hdr[0].lower())}:{_hx(pre_hdr[1])}' if pre_hdr else '-'     # Response._headers holds lower-cased names
            eh_arg = 'none' if hdrs is None else (','.join(f'{_hx(k)}:{_hx(v)}' for k, v in hl) or '-')
            names = {k.lower() for k, _ in hl} | ({pre_hdr[0].lower()} if pre_hdr else set())
            sess.case(case)
            if kind == 'status':
                shown = sorted(f'{_hx(k.lower())}:{_hx(v)}' for k, v in r.headers if k.lower() in names)
                bk = ('notext' if st_text is None else 'text') if r.body == (st_text or '').encode('utf-8') else 'other-body'
                sess.op(f'cstatus {r.status if r.status == int(falcon.code_to_http_status(st_status)[:3]) else 0} {rh_arg} {eh_arg} {_flag(st_text)}',
                        f'status={r.status} body={bk} hdrs={",".join(shown) or "-"}')
            else:
                # what was chosen, as seen by the client
                if r.body == b'':
                    choice = 'none' if ctype == falcon.DEFAULT_MEDIA_TYPE else f'type {_hx(ctype or "")}'
                elif enc == 'handler': choice = f'media {_hx(ctype or "")}'
                elif enc == 'xml': choice = f'xml {_hx(ctype or "")}'
                elif enc == 'json' and ctype == JSON: choice = 'json'
                else: choice = f'body-of-unknown-kind {_hx(ctype or "")}'
                sess.op(f'choose {int(xml_on)} {hs_arg} {acc_arg}', choice)
                if isinstance(doc, dict):
                    if kind == 'http':
                        sess.op(f'todict {_flag(title)} {_flag(desc)} {"none" if code is None else code} {_flag(href)} {_flag(href_text)}', _doc_fields(doc, code_int))
                        sess.op(f'link {_cps(href)} {_flag(href_text)}', _link_reply(doc))
                    else:
                        sess.op('todict none none none none none', _doc_fields(doc, '500 Internal Server Error'))
                sets_ct = choice != 'none'
                shown = sorted(f'{_hx(k.lower())}:{_hx(v)}' for k, v in r.headers if k.lower() in names | {'vary'} | ({'content-type'} if sets_ct else set()))
                bk = {'json': 'json', 'xml': 'xml', 'media': 'media', 'none': 'untouched', 'type': 'untouched'}.get(choice.split(' ')[0], 'other-body')
                st_arg = status_int if kind == 'http' else 500
                sess.op(f'cerror {int(xml_on)} {hs_arg} {acc_arg} {st_arg} {rh_arg} {eh_arg if kind == "http" else "none"}',
                        f'status={r.status} body={bk} hdrs={",".join(shown) or "-"}')
                ctx.count('c_model_choice_' + choice.split(' ')[0])
        ctx.seen(('c', stack, site, kind, accept, xml_on, tuple(keys), str(pre_hdr), str(case.get('title')), str(case.get('description')), str(case.get('href')), str(hdrs)), True)
        ctx.count('c_kind_' + kind)
        ctx.count('c_object_' + ckind)
        ctx.count('c_raised_how_' + tkind)
        if hostile:
            ctx.count(f'c_hostile_object_{kind}_{stack}')
        ctx.count('c_expected_' + '|'.join(str(a) for a in allowed))
    sess.finish()


# ------------------------------------------------------------------ (e) the same class raised more than once in one process

# the status of every error / redirect class that does not take it as an argument (written down from the HTTP registry, not read off falcon)
CLASS_STATUS = {
    'HTTPBadRequest': 400, 'HTTPUnauthorized': 401, 'HTTPForbidden': 403, 'HTTPNotFound': 404, 'HTTPRouteNotFound': 404, 'HTTPMethodNotAllowed': 405,
    'HTTPNotAcceptable': 406, 'HTTPConflict': 409, 'HTTPGone': 410, 'HTTPLengthRequired': 411, 'HTTPPreconditionFailed': 412, 'HTTPContentTooLarge': 413,
    'HTTPPayloadTooLarge': 413, 'HTTPUriTooLong': 414, 'HTTPUnsupportedMediaType': 415, 'HTTPRangeNotSatisfiable': 416, 'HTTPUnprocessableEntity': 422,
    'HTTPLocked': 423, 'HTTPFailedDependency': 424, 'HTTPPreconditionRequired': 428, 'HTTPTooManyRequests': 429, 'HTTPRequestHeaderFieldsTooLarge': 431,
    'HTTPUnavailableForLegalReasons': 451, 'HTTPInternalServerError': 500, 'HTTPNotImplemented': 501, 'HTTPBadGateway': 502, 'HTTPServiceUnavailable': 503,
    'HTTPGatewayTimeout': 504, 'HTTPVersionNotSupported': 505, 'HTTPInsufficientStorage': 507, 'HTTPLoopDetected': 508, 'HTTPNetworkAuthenticationRequired': 511,
    'HTTPInvalidHeader': 400, 'HTTPMissingHeader': 400, 'HTTPInvalidParam': 400, 'HTTPMissingParam': 400, 'MediaNotFoundError': 400, 'MediaMalformedError': 400,
    'MediaValidationError': 400, 'MultipartParseError': 400,
    'HTTPMovedPermanently': 301, 'HTTPFound': 302, 'HTTPSeeOther': 303, 'HTTPTemporaryRedirect': 307, 'HTTPPermanentRedirect': 308,
}
# constructor arguments that the documentation turns into a response header: argument -> (header, rendering)
DERIVED_HEADER = {'location': ('location', lambda v: v), 'allowed_methods': ('allow', lambda v: ', '.join(v)), 'challenges': ('www-authenticate', lambda v: ', '.join(v)),
                  'retry_after': ('retry-after', lambda v: str(v)), 'resource_length': ('content-range', lambda v: 'bytes */%d' % v)}
ARG_POOL = {
    'location': ['/first', '/second?next=%2Fa', 'http://example.com/third', '/fourth/x', '/login?next=/private/a', '/'],
    'allowed_methods': [['GET'], ['PUT', 'DELETE'], ['GET', 'HEAD', 'OPTIONS'], ['PATCH']],
    'resource_length': [100, 7, 123456, 1],
    'msg': ['bad value', 'must be an integer', 'too long'], 'header_name': ['X-Auth', 'X-Other', 'If-Match'], 'param_name': ['limit', 'offset', 'q'],
    'media_type': ['JSON', 'MessagePack', 'URL-encoded form'],
    'challenges': [['Basic realm="a"'], ['Bearer', 'Token realm="x"'], ['Digest realm="d"']],
    'retry_after': [30, 120, 1, 86400],
    'title': ['First title', 'Second', 'Tétle 3'], 'description': ['first description', 'another one', 'd3'],
    'headers': [{'X-First': '1'}, {'X-Second': 'b', 'X-Third': 'c'}, [('X-List', 'l')], {'X-Request-Id': 'r-77'}, {}],
    'code': [7, 42, 1000], 'href': ['http://example.com/doc/1', '/doc 2', 'http://example.com/é', 'https://docs.example.com/errors/quota?used=100%25', '/wiki/%c3%a9', '/50%+off%', '%zz/a b%20'], 'href_text': ['read this', 'docs'],
    'text': ['first text', 'second', 'téxt'],
    'status:error': [400, 418, '503 Service Unavailable', 599, 409], 'status:status': [200, 201, '202 Accepted', 299, 301],
}


def _rep_inventory():
    """every public exception class of falcon.errors / falcon.redirects / falcon.http_status / falcon.http_error that is rendered as a response
    (HTTPError / HTTPStatus and subclasses) with the parameters of its constructor: [(name, class, [(param, required, keyword_only)], takes **kwargs)]"""
    import inspect
    import falcon
    import falcon.errors
    import falcon.http_error
    import falcon.http_status
    import falcon.redirects
    out = []
    for mod in (falcon.errors, falcon.redirects, falcon.http_status, falcon.http_error):
        for n, c in sorted(vars(mod).items()):
            if not (isinstance(c, type) and c.__module__ == mod.__name__ and not n.startswith('_') and issubclass(c, (falcon.HTTPError, falcon.HTTPStatus))):
                continue
            for b in c.__mro__:                       # the first initializer in the MRO that spells its parameters out (an alias forwards *args, **kwargs)
                f = b.__dict__.get('__init__')
                if f is None:
                    continue
                ps = list(inspect.signature(f).parameters.values())[1:]
                named = [(q.name, q.default is q.empty, q.kind == q.KEYWORD_ONLY) for q in ps if q.kind in (q.POSITIONAL_OR_KEYWORD, q.KEYWORD_ONLY)]
                if named:
                    out.append((n, c, named, any(q.kind == q.VAR_KEYWORD for q in ps)))
                    break
    return out


def _rep_values(rnd, name, cls, params, var_kw, variant, avoid):
    """the arguments of one constructor call as the application writes it: {param: value}; `variant`: bare (required arguments only), full (every
    optional one given), random; `avoid`: the values of the previous call of this class (required arguments get another value)"""
    import falcon
    fam = 'error' if issubclass(cls, falcon.HTTPError) else 'status'
    names = [(q, req) for q, req, _ in params]
    if var_kw and fam == 'error':
        names += [(q, False) for q in ('href', 'href_text', 'code') if q not in [x for x, _ in names]]
    given = {}
    for q, req in names:
        pool = ARG_POOL.get('status:' + fam if q == 'status' else q)
        if pool is None:
            if req:
                return None             # a required argument this harness has no values for: the class is reported in the notes
            continue
        if req or variant == 'full' or (variant == 'random' and rnd.random() < 0.5):
            cands = [v for v in pool if v != avoid.get(q)] or pool
            if q == 'headers' and fam == 'status':
                cands = [v for v in cands if isinstance(v, dict)] or [{}]      # HTTPStatus and the redirects document `headers (dict)`; HTTPError `dict or list`
            v = rnd.choice(cands)
            given[q] = (dict(v) if isinstance(v, dict) else list(v)) if isinstance(v, (dict, list)) else v      # a FRESH object per call
    if 'href_text' in given and 'href' not in given:
        del given['href_text']
    return given


def _rep_expect(name, cls, params, given):
    """what the constructor arguments say (the statement: an HTTP error produces ITS OWN status and headers and title/description/code/link,
    an HTTP status ITS status/headers/text) - a function of the arguments of this very call, nothing else"""
    import falcon
    pn = [q for q, _, _ in params]
    exp = {}
    if 'status' in given:
        exp['status_code'] = int(falcon.code_to_http_status(given['status'])[:3])
    elif name in CLASS_STATUS:
        exp['status_code'] = CLASS_STATUS[name]
    hd = {k.lower(): v for k, v in dict(given.get('headers') or {}).items()}
    for q, (hn, f) in DERIVED_HEADER.items():
        if given.get(q) is not None:
            hd[hn] = f(given[q])
    exp['headers'] = hd
    if issubclass(cls, falcon.HTTPError):
        if given.get('title'):
            exp['title'] = given['title']
        elif 'title' in pn and 'status_code' in exp:
            exp['title_prefix'] = '%d ' % exp['status_code']          # the status line
        if 'description' in pn:
            exp['description'] = given.get('description')
        exp['code'] = given.get('code')
        exp['link'] = {'text': given.get('href_text') or LINK_DEFAULT, 'href': _rfc3986_encode(given['href']), 'rel': 'help'} if given.get('href') else None
    elif 'text' in pn:
        exp['text'] = given.get('text')
    return exp


def _rep_observe(e):
    import copy
    import falcon
    o = {'status_code': e.status_code, 'headers': {k.lower(): v for k, v in dict(e.headers or {}).items()}}
    if isinstance(e, falcon.HTTPError):
        o.update(title=e.title, description=e.description, code=e.code, link=copy.deepcopy(e.link), to_dict=copy.deepcopy(e.to_dict()))
    else:
        o.update(text=e.text)
    return o


def _rep_compare(exp, o):
    for k, v in exp.items():
        if k == 'title_prefix':
            if not str(o.get('title')).startswith(v):
                return f'title {o.get("title")!r} (no title given: the status line {v}... expected)'
        elif o.get(k) != v:
            return f'{k} is {o.get(k)!r}; by the arguments of this call it is {v!r}'
    if 'to_dict' in o:
        d = o['to_dict']
        want = {k: o[k] for k in ('title', 'description', 'code', 'link') if o[k] is not None or k == 'title'}
        if dict(d) != want:
            return f'to_dict() {d!r} differs from the attributes {want!r}'
    return None


def _repeated(ctx):
    """THE SAME CLASS RAISED MORE THAN ONCE IN ONE PROCESS: every public HTTPError / HTTPStatus class (redirects included), constructed and raised
    several times with different arguments and with optional arguments left out; each object / response must be what the arguments of ITS OWN
    constructor call say - no state carried on the class, in default arguments or between instances."""
    import falcon
    import falcon.asgi
    import warnings
    rnd = ctx.rng
    inv = _rep_inventory()
    name_obj = ('an error / redirect / status object is what the arguments of its own constructor call say (status, headers incl. Location / Allow / Retry-After / '
                'WWW-Authenticate / Content-Range, title, description, code, link, text, to_dict()), however often and with whatever arguments the class was instantiated before')
    name_keep = 'constructing further instances of a class does not change an instance that exists already'
    name_resp = ('raised again (same class, other arguments / arguments left out), the response is the status, headers and body of THIS raise: '
                 'nothing of an earlier raise of the class shows')
    sess = ctx.session('the response composed for a raised HTTPStatus / redirect / HTTPError whose class was raised before with other arguments (WSGI+ASGI; model input = the arguments of THIS '
                       'call) = Es.composeStatus / Es.composeError', 'esdriver')
    skipped = set()
    SITES_E = ['responder', 'responder', 'req', 'rsrc', 'sink', 'before', 'after', 'resp', 'handler', 'handler']
    for round_ in range(ctx.n(24, 300)):
        order = list(inv)
        rnd.shuffle(order)
        for name, cls, params, var_kw in order:
            plan = ['bare', 'bare', 'full', 'bare', 'random', 'random', 'bare'] if round_ % 2 == 0 else [rnd.choice(['bare', 'random', 'full']) for _ in range(rnd.randint(3, 6))]
            made = []
            prev = {}
            first_bare = None
            for step, variant in enumerate(plan):
                if step == len(plan) - 1 and first_bare is not None and round_ % 2 == 0:
                    given = {k: (dict(v) if isinstance(v, dict) else list(v) if isinstance(v, list) else v) for k, v in first_bare.items()}     # the very first call once more
                else:
                    given = _rep_values(rnd, name, cls, params, var_kw, variant, prev)
                if given is None:
                    skipped.add(name)
                    break
                if first_bare is None and variant == 'bare':
                    first_bare = dict(given)
                prev = given
                req_pos = [q for q, req, kwo in params if req and not kwo and q in given]
                as_pos = req_pos if rnd.random() < 0.7 else []

                def make(given=given, as_pos=as_pos):
                    kw = {k: (dict(v) if isinstance(v, dict) else list(v) if isinstance(v, list) else v) for k, v in given.items() if k not in as_pos}
                    with warnings.catch_warnings():
                        warnings.simplefilter('ignore')          # deprecated aliases are still public
                        return cls(*[given[q] for q in as_pos], **kw)
                exp = _rep_expect(name, cls, params, given)
                shown = {k: v for k, v in given.items()}
                case = {'class': name, 'call': f'{name}(' + ', '.join([repr(given[q]) for q in as_pos] + [f'{k}={v!r}' for k, v in shown.items() if k not in as_pos]) + ')',
                        'nth_instance_of_the_class_in_this_sequence': step + 1,
                        'earlier_calls_of_the_class_in_this_sequence': [c_ for c_, _, _ in made]}
                # ---- the object
                try:
                    e = make()
                    o = _rep_observe(e)
                    what = _rep_compare(exp, o)
                except Exception as ex:  # noqa
                    e, o, what = None, None, f'the constructor raised {ex!r}'
                ctx.oracle(name_obj, what is None, what, case)
                if e is not None:
                    made.append((case['call'], e, o))
                # ---- earlier instances are untouched
                for c_, e_, o_ in made[:-1]:
                    now = _rep_observe(e_)
                    if now != o_:
                        diff = {k: (o_[k], now[k]) for k in o_ if now.get(k) != o_[k]}
                        ctx.oracle(name_keep, False, f'the instance made by {c_} changed when {case["call"]} was evaluated: (before, after) = {diff!r}', case)
                        break
                else:
                    ctx.oracle(name_keep, True, None, case)
                # ---- raised through an app (a fresh instance is constructed at the raise site, as applications do)
                stack = rnd.choice(['wsgi', 'asgi'])
                asgi = stack == 'asgi'
                site = rnd.choice(SITES_E)
                app_cls = falcon.asgi.App if asgi else falcon.App

                class AppErr(Exception):
                    pass

                def raiser(resp, site=site, make=make):
                    if site == 'handler':
                        raise AppErr('to the handler')
                    raise make()
                app = _install(app_cls, asgi, 'responder' if site == 'handler' else site, raiser)
                if site == 'handler':
                    # "an HTTP error or HTTP status raised by that handler is rendered in turn"
                    if asgi:
                        async def h(req, resp, ex, params, make=make): raise make()
                    else:
                        def h(req, resp, ex, params, make=make): raise make()
                    app.add_error_handler(AppErr, h)
                r = _call(app, stack, via_testing=(step == 1 and round_ % 8 == 0))
                rcase = dict(case, stack=stack, site=site)
                what = None
                is_err = issubclass(cls, falcon.HTTPError)
                if r.escaped is not None:
                    what = f'exception escaped to the server: {r.escaped!r}'
                elif 'status_code' in exp and r.status != exp['status_code']:
                    what = f'status {r.status}, expected {exp["status_code"]}'
                else:
                    for k, v in exp['headers'].items():
                        if r.header(k) != [v]:
                            what = f'header {k}: {r.header(k)} in the response; the arguments of this raise say {v!r}'
                            break
                    for hn in ('location', 'allow', 'retry-after', 'www-authenticate', 'content-range'):
                        if what is None and hn not in exp['headers'] and r.header(hn):
                            what = f'header {hn}: {r.header(hn)} in the response although this raise defines none'
                    for k, _ in r.headers:
                        if what is None and k.lower().startswith('x-') and k.lower() not in exp['headers']:
                            what = f'header {k}: {r.header(k)} in the response although this raise did not pass it'
                if what is None and is_err:
                    doc = _json_or_none(r.body)
                    if not isinstance(doc, dict):
                        what = f'body {r.body[:80]!r} is not the JSON rendering of the error'
                    else:
                        want = {}
                        if 'title' in exp: want['title'] = exp['title']
                        if 'description' in exp and exp['description'] is not None: want['description'] = exp['description']
                        if exp.get('code') is not None: want['code'] = exp['code']
                        if exp.get('link') is not None: want['link'] = exp['link']
                        got = {k: doc.get(k) for k in want}
                        if got != want:
                            what = f'body fields {got!r}; the arguments of this raise say {want!r}'
                        elif 'title_prefix' in exp and not str(doc.get('title')).startswith(exp['title_prefix']):
                            what = f'title {doc.get("title")!r}, expected the status line'
                        elif 'description' in exp and exp['description'] is None and 'description' in doc:
                            what = f'description {doc["description"]!r} in the body although this raise gave none'
                        elif exp.get('code') is None and 'code' in doc:
                            what = f'code {doc["code"]!r} in the body although this raise gave none'
                        elif exp.get('link') is None and 'link' in doc:
                            what = f'link {doc["link"]!r} in the body although this raise gave none'
                elif what is None and 'text' in exp and r.body != (exp['text'] or '').encode('utf-8'):
                    what = f'body {r.body[:80]!r}, expected the text {exp["text"]!r}'
                elif what is None and not is_err and 'text' not in exp and r.body != b'':
                    what = f'body {r.body[:80]!r} for a redirect'
                ctx.oracle(name_resp, what is None, what, rcase)
                # ---- correspondence: the model composes the response from the arguments of THIS call
                if r.escaped is None and 'status_code' in exp:
                    names = set(exp['headers'])
                    eh_arg = ','.join(f'{_hx(k)}:{_hx(v)}' for k, v in exp['headers'].items()) or '-'
                    if not exp['headers'] and not given.get('headers') and given.get('headers') != {} and not any(q in given for q in DERIVED_HEADER):
                        eh_arg = 'none'
                    sess.case(rcase)
                    if not is_err:
                        txt = exp.get('text')
                        shown_h = sorted(f'{_hx(k.lower())}:{_hx(v)}' for k, v in r.headers if k.lower() in names)
                        bk = ('notext' if txt is None else 'text') if r.body == (txt or '').encode('utf-8') else 'other-body'
                        sess.op(f'cstatus {exp["status_code"]} - {eh_arg} {_flag(txt)}', f'status={r.status} body={bk} hdrs={",".join(shown_h) or "-"}')
                    else:
                        keys = list(app.resp_options.media_handlers)
                        hs_arg = ','.join(f'{_hx(k)}:1' for k in keys) or '-'
                        shown_h = sorted(f'{_hx(k.lower())}:{_hx(v)}' for k, v in r.headers if k.lower() in names | {'vary', 'content-type'})
                        bk = 'json' if isinstance(_json_or_none(r.body), dict) and r.header('content-type') == [JSON] else 'other-body'
                        sess.op(f'cerror {int(app.resp_options.xml_error_serialization)} {hs_arg} none {exp["status_code"]} - {eh_arg}',
                                f'status={r.status} body={bk} hdrs={",".join(shown_h) or "-"}')
                ctx.seen(('e', name, stack, site, case['call'], step), True)
                ctx.count('e_class_' + ('redirect' if name in ('HTTPMovedPermanently', 'HTTPFound', 'HTTPSeeOther', 'HTTPTemporaryRedirect', 'HTTPPermanentRedirect') else
                                        'HTTPStatus' if not is_err else 'HTTPError_itself' if name == 'HTTPError' else 'HTTPError_subclass'))
                ctx.count(f'e_nth_instance_{min(step + 1, 4)}{"+" if step + 1 >= 4 else ""}')
                ctx.count('e_call_' + variant + ('_headers_given' if 'headers' in given else '_headers_LEFT_OUT'))
                ctx.count('e_site_' + site)
                if step and 'headers' not in given and 'headers' not in (made[-2][0] if len(made) > 1 else 'headers'):
                    ctx.count('e_two_consecutive_raises_of_the_class_without_headers_and_other_required_arguments')
    # ---- a headers mapping OF THE APPLICATION handed to several constructions (a module-level constant reused for every error, say): each
    # object reflects the arguments of its own call only, and the application's mapping is left as the application made it
    # (found on the unchanged tree by this dimension - the constructors wrote Location / Allow / Retry-After / ... into the caller's dict -, repaired in /repo 085c52d, F49)
    name_shared = ('a headers mapping of the application passed to several error / redirect constructions: every object carries the headers of its own call only '
                   'and the mapping itself is left as the application made it')
    for round_ in range(ctx.n(36, 400)):
        order = [x for x in inv if 'headers' in [q for q, _, _ in x[2]]]
        rnd.shuffle(order)
        for name, cls, params, var_kw in order[:16 if ctx.quick else 47]:
            own = rnd.choice([{'X-Api': '1'}, {}, {'X-Api': '1', 'X-Trace': 't'}])
            shared = dict(own)
            others = [x for x in order if x[0] != name]
            seq = [(name, cls, params, var_kw)] * 2 + ([rnd.choice(others)] if others and rnd.random() < 0.6 else []) + [(name, cls, params, var_kw)]
            rnd.shuffle(seq)
            prev = {}
            log_ = []
            for n2, c2, p2, vk2 in seq:
                given = _rep_values(rnd, n2, c2, p2, vk2, rnd.choice(['bare', 'random']), prev if n2 == name else {})
                if given is None:
                    continue
                if 'headers' not in [q for q, _, _ in p2]:
                    continue
                given['headers'] = dict(own)               # what the expectation is computed from
                prev = given
                kw = dict(given, headers=shared)           # ... and the application passes its ONE dict every time
                exp = _rep_expect(n2, c2, p2, given)
                call = f'{n2}(' + ', '.join(f'{k}={v!r}' if k != 'headers' else 'headers=C' for k, v in kw.items()) + ')'
                case = {'C': own, 'call': call, 'earlier_calls_with_the_same_dict_C': list(log_)}
                try:
                    with warnings.catch_warnings():
                        warnings.simplefilter('ignore')
                        e = c2(**kw)
                    what = _rep_compare(exp, _rep_observe(e))
                    if what is None and shared != own:
                        what = f'the dict the application passed was changed by the constructor: {shared!r} (it was {own!r})'
                except Exception as ex:  # noqa
                    what = f'the constructor raised {ex!r}'
                ctx.oracle(name_shared, what is None, what, case)
                ctx.seen(('e-shared', call, tuple(log_)), True)
                ctx.count('e_shared_headers_dict_' + ('redirect' if 'location' in given else 'error_with_derived_header' if any(q in given for q in DERIVED_HEADER) else 'plain'))
                log_.append(call)
    if skipped and ctx.shard[0] == 0:
        ctx.notes.append(f'(e) classes with a required constructor argument the harness has no values for (not exercised): {sorted(skipped)}')
    ctx.count(f'e_classes_in_the_inventory_{len(inv)}')
    sess.finish()



# ------------------------------------------------------------------ (d) the modelled functions called directly, exotic configurations

def _direct(ctx):
    import falcon
    import falcon.asgi
    import falcon.media
    import falcon.testing as ft
    from falcon.app_helpers import default_serialize_error
    from falcon.response import ResponseOptions
    rnd = ctx.rng
    sess = ctx.session('default_serialize_error / HTTPError.to_dict / _compose_error_response / _compose_status_response called directly '
                       '(handler keys with wildcards, parameters, other case, falsy handlers; malformed Accept; repeated header names) = Es model', 'esdriver')
    name_neg = ('default_serialize_error, any configuration: Vary: Accept is appended; the Content-Type set is never a request-only form type and never a type the client refuses '
                'outright; a body is only set together with a Content-Type; JSON is chosen when no offered type has a higher quality')
    name_dict = 'to_dict(): title always (status line when missing/empty), description/code/link exactly when set, link = text/href/rel'
    name_comp = '_compose_error_response / _compose_status_response: status and headers of the raised object are on the response (last item per name), other headers kept'

    class Stub:
        def to_json(self, handler=None): return b'J'
        def to_dict(self): return {'D': 1}
        def _to_xml(self): return b'X'

    class H(falcon.media.BaseHandler):
        def serialize(self, media, content_type): return b'H'
        def deserialize(self, *a): return None

    keys_pool = [JSON, XML_T, XML_A, FORM, MULTI, YAML, VND_JSON, 'application/vnd.acme+xml', 'text/*', '*/*', 'text/xml; charset=utf-8', 'Application/JSON',
                 'application/yaml', 'text/html', 'application/*', 'nonsense', 'application/json; v=1', 'text/plain']
    ranges_pool = [JSON, XML_T, XML_A, FORM, MULTI, YAML, VND_JSON, 'application/vnd.acme+xml', 'text/*', '*/*', 'application/*', 'text/html', 'image/png',
                   'Application/Vnd.X+JSON', 'a/b+XML', 'text/xml;charset=utf-8', 'application/json;v=1', 'foo', '*', '', 'application/yaml', 'text/plain', '+json',
                   'x+xml', '*/json', 'APPLICATION/JSON', 'multipart/*', 'application/problem+JSON', 'APPLICATION/ATOM+XML', 'application/vnd.acme+Json',
                   'Image/Svg+Xml', 'application/vnd.acme.thing.v2+json', 'TEXT/*', 'Application/*', 'TEXT/XML', 'application/XML']
    # header octets (obs-text): see NONASCII_MEMBERS; about one header in eight carries some
    octet_pool = NONASCII_MEMBERS + NONASCII_LENIENT
    q_pool = [None, None, None, '0', '0.1', '0.5', '0.9', '1', '1.0', '0.000', 'abc', '2', '-1', '0.33', ' 0.7', '.5']
    for ci in range(ctx.n(16000, 200000)):
        asgi = rnd.random() < 0.5
        xml_on = rnd.random() < 0.6
        if rnd.random() < 0.4:
            hs = [(JSON, 1), (MULTI, 1), (FORM, 1)]
            for k in rnd.sample(keys_pool, rnd.randint(0, 2)):
                if k not in [h[0] for h in hs]:
                    hs.append((k, 1))
        else:
            hs = [(k, 0 if rnd.random() < 0.1 else 1) for k in rnd.sample(keys_pool, rnd.randint(0, 5))]
        if rnd.random() < 0.15:
            accept = None
        else:
            parts = []
            with_octets = rnd.random() < 0.12
            for mt in [rnd.choice(octet_pool if with_octets and rnd.random() < 0.6 else ranges_pool) for _ in range(rnd.randint(1, 4))]:
                q = rnd.choice(q_pool) if ';' not in mt or mt in ranges_pool else None
                parts.append(mt if q is None else f'{mt}{rnd.choice([";", "; ", " ;"])}{rnd.choice(["q", "q", "Q"])}={q}')
            accept = rnd.choice([',', ', ']).join(parts).strip() or 'x'     # (servers and the test helpers strip the field value)
        opts = ResponseOptions()
        opts.xml_error_serialization = xml_on
        opts.media_handlers = falcon.media.Handlers({k: (H() if t else None) for k, t in hs})
        hd = {'Accept': accept} if accept is not None else None
        if asgi:
            req = falcon.asgi.Request(ft.create_scope(headers=hd), None)
            resp = falcon.asgi.Response(options=opts)
        else:
            req = falcon.Request(ft.create_environ(headers=hd))
            resp = falcon.Response(options=opts)
        # the Vary value the response already carries (every relative of `Accept`, see VARY_POOL)
        vary0 = rnd.choice(VARY_POOL) if rnd.random() < 0.3 else None
        if vary0:
            if rnd.random() < 0.5:
                resp.vary = list(vary0)
            else:
                resp.set_header('Vary', ', '.join(vary0))
            ctx.count('d_vary_before_' + ('accept_relative' if any('accept' in m.lower() and m.lower() != 'accept' for m in vary0) else
                                          'accept_itself' if any(m.lower() == 'accept' for m in vary0) else 'unrelated'))
        ascii_accept = all(ord(c) < 128 for c in (accept or ''))
        if not ascii_accept:
            ctx.count('d_accept_with_octets_' + ('asgi' if asgi else 'wsgi'))
        case = {'stack': 'asgi' if asgi else 'wsgi', 'accept': accept, 'xml_error_serialization': xml_on, 'media_handlers (key, truthy)': hs, 'vary_before': vary0}
        what = None
        try:
            default_serialize_error(req, resp, Stub())
            ct = resp.content_type
            if resp.data == b'J': got = 'json' if ct == JSON else 'json-labelled ' + _hx(str(ct))
            elif resp.data == b'X': got = 'xml ' + _hx(ct or '')
            elif resp.media == {'D': 1}: got = 'media ' + _hx(ct or '')
            elif ct is not None: got = 'type ' + _hx(ct)
            else: got = 'none'
            vary = resp.get_header('vary')
            # ---- oracle, from the statement (simple RFC 7231 reading; only when header and keys carry no parameters other than q)
            if 'accept' not in _members([vary or '']) or not set(_members(vary0 or [])) <= set(_members([vary or ''])) or (vary0 is None and vary != 'Accept'):
                what = f'Vary is {vary!r} after the default serializer (before: {vary0}): Accept must be a member, next to the names listed before'
            elif ct in (FORM, MULTI):
                what = f'the error is labelled {ct}, a request-only form type'
            elif ct is None and (resp.data is not None or resp.media is not None):
                what = 'a body without a Content-Type'
            else:
                rngs = []
                for m in (accept or '*/*').split(','):
                    g = _SIMPLE_RANGE.match(m)
                    if not g or not 0 <= float(g.group(3) or 1) <= 1:
                        rngs = None           # parameters, "*/sub", malformed members: outside this simple oracle
                        break
                    t = '*/*' if g.group(1) == '*' else g.group(1).lower()      # media types are case-insensitive (RFC 9110 8.3.1)
                    rngs.append(tuple(t.split('/')) + (float(g.group(3) or 1),))
                if rngs is not None and len({x[:2] for x in rngs}) < len(rngs):
                    rngs = None               # the same range twice with different weights: RFC 7231 does not say which one counts
                if rngs is not None:
                    qj = _quality(JSON, rngs)
                    if ct is not None and ct == ct.lower() and '*' not in ct and ';' not in ct and '/' in ct and _quality(ct, rngs) == 0 and '+' not in (accept or ''):
                        what = f'the error is labelled {ct}, which the client does not accept ({accept!r})'
                    elif qj > 0 and got != 'json' and all('/' in k and ';' not in k and '*' not in k and k == k.lower() for k, _ in hs):
                        others = ([XML_T, XML_A] if xml_on else []) + [k for k, _ in hs if k not in (FORM, MULTI)]
                        if all(_quality(k, rngs) <= qj for k in others):
                            what = f'JSON has the highest quality ({qj}) among the offered types but the choice is {got}'
                    elif all('/' in k and ';' not in k and '*' not in k and k == k.lower() for k, _ in hs):
                        # nothing that is offered is acceptable by the RFC: the documented fallback - "if a custom media type is used and the
                        # type includes a +json or +xml suffix, the error will be serialized to JSON or XML" - in whatever case it is spelled
                        offered = [JSON] + ([XML_T, XML_A] if xml_on else []) + [k for k, _ in hs if k not in (FORM, MULTI)]
                        if all(_quality(k, rngs) == 0 for k in offered):
                            sfx = [x.split('/')[1].rpartition('+')[2] for x in (r_[0] + '/' + r_[1] for r_ in rngs) if '+' in x.split('/')[1]]
                            if 'json' in sfx and got != 'json':
                                what = f'the client asks for a "+json" type ({accept!r}) and accepts none of the offered types outright, but the choice is {got}'
                            elif 'json' not in sfx and 'xml' in sfx and xml_on and not (got.split(' ')[0] in ('xml', 'media') and ct == XML_A):
                                what = f'the client asks for a "+xml" type ({accept!r}) and accepts none of the offered types outright, but the choice is {got}'
                            if sfx:
                                ctx.count('d_suffix_fallback_judged' + ('_other_case' if accept != accept.lower() else ''))
        except Exception as e:  # noqa
            got = 'raised ' + type(e).__name__
            what = f'default_serialize_error raised {e!r}'
        ctx.oracle(name_neg, what is None, what, case)
        if ascii_accept:                                  # (the negotiation model is restricted to ASCII headers)
            sess.case(case)
            sess.op(f'choose {int(xml_on)} {",".join(_hx(k) + ":" + str(t) for k, t in hs) or "-"} {"none" if accept is None else _hx(accept)}', got)
        ctx.seen(('d', asgi, xml_on, tuple(hs), accept), True)
        ctx.count('d_choice_' + got.split(' ')[0])
        if ci % 4:
            continue
        # ---- HTTPError.__init__ / to_dict
        txt = lambda: rnd.choice([None, None, '', 'x', 'Some text'])   # noqa: E731
        title, desc, href, href_text = txt(), txt(), rnd.choice([None, '', 'http://example.com/a b', '/rel']), txt()
        if rnd.random() < 0.6:
            href = _rand_href(rnd, False)[1]
            if rnd.random() < 0.3: href_text = rnd.choice([href, _rand_href(rnd, False)[1]])
        code = rnd.choice([None, None, 0, 7, -5])
        status_val = rnd.choice([400, 404, 409, 500, '418 I\'m a teapot'])
        err = falcon.HTTPError(status_val, title=title, description=desc, href=href, href_text=href_text, code=code)
        d = err.to_dict()
        line = falcon.code_to_http_status(status_val)
        expd = {'title': title if title else line}
        if desc is not None: expd['description'] = desc
        if code is not None: expd['code'] = code
        if href: expd['link'] = {'text': href_text if href_text else LINK_DEFAULT, 'href': _rfc3986_encode(href), 'rel': 'help'}
        case2 = {'title': title, 'description': desc, 'code': code, 'href': href, 'href_text': href_text, 'status': status_val}
        ctx.oracle(name_dict, dict(d) == expd and list(d) == list(expd), f'to_dict() = {d!r}, expected {expd!r}', case2)
        if href:
            lw = _href_faithful((d.get('link') or {}).get('href'), href)
            ctx.oracle(NAME_LINK, lw is None, None if lw is None else 'to_dict(): ' + lw, case2)
            ctx.count('d_href_' + _href_class(href))
        sess.case(case2)
        sess.op(f'todict {_flag(title)} {_flag(desc)} {"none" if code is None else code} {_flag(href)} {_flag(href_text)}', _doc_fields(d, line))
        sess.op(f'link {_cps(href)} {_flag(href_text)}', _link_reply(d))
        # ---- _compose_error_response / _compose_status_response on a response that already carries headers
        hn = ['X-Err', 'x-err', 'X-ERR', 'Retry-After', 'Vary', 'vary', 'Content-Type', 'content-type', 'X-Other']
        if rnd.random() < 0.06:
            hn = hn + ['Set-Cookie', 'SET-COOKIE'] * 3
        vv = [', '.join(m) for m in VARY_POOL]
        pre = [(k_, rnd.choice(vv if k_.lower() == 'vary' and rnd.random() < 0.7 else ['p1', 'Origin', 'text/plain'])) for k_ in (rnd.choice(hn[:9]) for _ in range(rnd.randint(0, 3)))]
        eh = rnd.choice([None, [(k_, rnd.choice(vv if k_.lower() == 'vary' and rnd.random() < 0.7 else ['e1', 'e2', 'Cookie', 'text/css'])) for k_ in (rnd.choice(hn) for _ in range(rnd.randint(0, 4)))]])
        eh_obj = eh if (eh is None or rnd.random() < 0.5 or len({k for k, _ in eh}) != len(eh)) else dict(eh)
        app = (falcon.asgi.App if asgi else falcon.App)()
        app.resp_options.xml_error_serialization = xml_on
        app.resp_options.media_handlers = opts.media_handlers
        resp2 = (falcon.asgi.Response if asgi else falcon.Response)(options=app.resp_options)
        for k, v in pre:
            resp2.set_header(k, v)
        before = dict(resp2.headers)
        is_status = rnd.random() < 0.3
        st_text = rnd.choice([None, '', 'status text'])
        obj = falcon.HTTPStatus(299, headers=eh_obj, text=st_text) if is_status else falcon.HTTPError(status_val, headers=eh_obj)
        case3 = {'stack': case['stack'], 'raised': 'HTTPStatus' if is_status else 'HTTPError', 'its_headers': eh_obj, 'response_headers_before': before,
                 'accept': accept, 'xml_error_serialization': xml_on, 'media_handlers (key, truthy)': hs}
        what = None
        try:
            if is_status:
                app._compose_status_response(req, resp2, obj)
            else:
                app._compose_error_response(req, resp2, obj)
            after = dict(resp2.headers)
            if is_status:
                bk = ('notext' if resp2.text is None else 'text') if resp2.text == st_text else 'other-body'
            elif resp2.media is not None: bk = 'media'
            elif resp2.data is None: bk = 'untouched'
            elif resp2.data.startswith(b'<?xml'): bk = 'xml'
            else: bk = 'json'
            obs = f'status={resp2.status_code} body={bk} hdrs=' + (','.join(sorted(f'{_hx(k)}:{_hx(v)}' for k, v in after.items())) or '-')
            # oracle: last item per name wins; Vary gets ", Accept"; untouched names keep their value
            last = {}
            for k, v in (eh or []):
                last[k.lower()] = v
            for k, v in last.items():
                if k == 'vary' and not is_status:
                    if after.get(k) != v + ', Accept': what = what or f'Vary is {after.get(k)!r}, expected {v + ", Accept"!r}'
                elif k == 'content-type' and not is_status:
                    pass                                  # the serializer may replace it with the type of the rendering
                elif k != 'content-type' and after.get(k) != v:
                    what = what or f'header {k} is {after.get(k)!r}, the raised object says {v!r}'
            for k, v in before.items():
                if k not in last and k != 'content-type' and not (k == 'vary' and not is_status) and after.get(k) != v:
                    what = what or f'header {k}: {v!r} of the response became {after.get(k)!r}'
            if not is_status and 'accept' not in [x.strip().lower() for x in after.get('vary', '').split(',')]:
                what = what or f'Vary does not list Accept: {after.get("vary")!r}'
            if resp2.status_code != (299 if is_status else int(line[:3])):
                what = what or f'status {resp2.status_code}'
        except falcon.HeaderNotSupported:
            obs = 'header-not-supported'
            if not any(k.lower() == 'set-cookie' for k, _ in (eh or [])):
                what = 'HeaderNotSupported without a Set-Cookie item'
        except Exception as e:  # noqa
            obs = 'raised ' + type(e).__name__
            what = f'composing the response raised {e!r}'
        ctx.oracle(name_comp, what is None, what, case3)
        if is_status or ascii_accept:
            sess.case(case3)
        rh_arg = ','.join(f'{_hx(k)}:{_hx(v)}' for k, v in before.items()) or '-'
        eh_arg = 'none' if eh is None else (','.join(f'{_hx(k)}:{_hx(v)}' for k, v in eh) or '-')
        hs_arg = ','.join(_hx(k) + ':' + str(t) for k, t in hs) or '-'
        if is_status:
            sess.op(f'cstatus 299 {rh_arg} {eh_arg} {_flag(st_text)}', obs)
        elif ascii_accept:
            sess.op(f'cerror {int(xml_on)} {hs_arg} {"none" if accept is None else _hx(accept)} {int(line[:3])} {rh_arg} {eh_arg}', obs)
        ctx.count('d_compose_' + obs.split(' ')[0].split('=')[0])
    sess.finish()


LEVEL_TEXT = ('Machine-checked proofs (Lean 4) about transcriptions of add_error_handler/_find_error_handler/_handle_exception, default_serialize_error (on top of the proved model of '
              'mediatypes.best_match), HTTPError.__init__/to_dict and _compose_error_response/_compose_status_response with Response.set_headers/append_header: the handler of the nearest class in '
              'the MRO with the latest registration is chosen for every MRO and registration history; the body set before the raise never influences the result; an HTTPError/HTTPStatus raised by '
              'the handler is rendered in turn; with the default registrations an Exception-derived error yields 500 and does not escape; for every configuration and Accept header JSON is chosen '
              'whenever no offered type has a higher quality, XML only if strictly preferred (or by the +xml suffix) and enabled, the request-only form types never, nothing iff the client accepts '
              'none of the offered types and no suffix heuristic fires; Vary: Accept is always appended after the error\'s own headers; the error document has exactly the fields that are set; '
              'status and headers of the HTTPError/HTTPStatus are kept; a body defined by the handler is sent whatever stream was attached before the raise. The models are tied to falcon/app.py, falcon/asgi/app.py, falcon/app_helpers.py and falcon/http_error.py on every run by '
              'differential correspondences (the real app, WSGI and ASGI, every raise site incl. body rendering, raised objects with hostile dunder methods / metaclasses / cause chains, Accept headers in any letter case and with non-ASCII octets, responses that already carry Accept-like Vary values or a stream, and the modelled functions called directly on exotic configurations, against the '
              'compiled models) and independent oracles written from the statement decide failing inputs, including the faithfulness of the default JSON/XML error bodies over arbitrary Unicode.')
LEVEL_NOTE = ('Trusted: Lean kernel + standard axioms; the correspondence harness and oracles; json/ElementTree decoders. Encoder faithfulness (json.dumps, ElementTree, media handlers) '
              'is oracle-checked, not proved; the link href is proved faithful in the model (Ek.link_href_faithful over Us.encode) and tied to the real constructor / emitted documents by the `link` correspondence; the negotiation model covers ASCII Accept headers with plain decimal q values.')
TECHNIQUE = 'Lean 4 proofs about the handler-resolution/handling/negotiation/composition models + differential correspondence (real app and functions vs models, WSGI and ASGI) + statement oracles with stdlib decoding'

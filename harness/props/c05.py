"""C05 - responses are protocol-valid and length-consistent on both server interfaces."""
PROP = 'C05'
LEAN_MODULES = ['FalconModel.FinalizeProofs', 'FalconModel.FinalizeProofs2', 'FalconModel.FinalizeTraceProofs']
DRIVERS = ['fzdriver', 'fztdriver']
THEOREMS = [
    'Fz.wsgi_asgi_agree', 'Fz.bodiless_no_payload', 'Fz.content_length_exact',
    'Fz.body_precedence', 'Fz.typeless_no_default_content_type_partial', 'Fz.otherwise_has_content_type',
    'Fz.asgi_bodiless_no_payload', 'Fz.asgi_content_length_exact', 'Fz.asgi_body_precedence',
    'Fz.renderBody_fst', 'Fz.renderBody_frame', 'Fz.renderBody_headers',
    'Fz.getKey_setKey', 'Fz.getKey_append_left',
    # event-level ASGI emission with a failing send() at any index and a close() counter (FinalizeTrace.lean)
    'Fz.trace_wellformed', 'Fz.closed_exactly_once', 'Fz.closes_zero_otherwise', 'Fz.closes_le_one', 'Fz.trace_start',
    'Fz.trace_refines_asgi', 'Fz.loopIter_open', 'Fz.loopFile_open', 'Fz.loopIter_drain', 'Fz.loopFile_drain',
    # F16 (known finding, stays in the code): the negation of the unrestricted "typeless" statement, by `decide`
    'Fz.f16_witness',
]
STATEMENTS = {
    'Fz.wsgi_asgi_agree': 'for every response state (status, text, data, rendered media, stream kind/chunks/failing call, header dict, cookies) and configuration (HEAD, default media type, file_wrapper): the WSGI tail and the ASGI tail produce the same status, the same header list in the same order, the same payload bytes and the same propagation of a stream failure',
    'Fz.bodiless_no_payload': 'a response to HEAD or with status 100/101/204/304 hands no payload bytes to the WSGI server',
    'Fz.asgi_bodiless_no_payload': 'the same for the body events passed to the ASGI server',
    'Fz.content_length_exact': 'non-HEAD, body-bearing status, body not taken from a stream: the Content-Length the WSGI server receives is exactly the payload length, whatever the application had put in that header',
    'Fz.asgi_content_length_exact': 'the same for the ASGI response-start headers',
    'Fz.asgi_body_precedence': 'the same precedence for the concatenated body events passed to the ASGI server',
    'Fz.renderBody_headers': 'render_body() leaves the header dict untouched unless media is the source that gets rendered',
    'Fz.body_precedence': 'non-HEAD, body-bearing status: the payload is text if set, else data if set, else the rendered media if set, else the chunks the stream delivers up to its end or failing call, else empty',
    'Fz.typeless_no_default_content_type_partial': 'a 204/304 whose application state has no Content-Type carries none in what the server receives, unless media is the body source that gets rendered (that exception is F16)',
    'Fz.otherwise_has_content_type': 'every response whose status is not 204/304 carries a Content-Type when the app has a default media type',
    'Fz.trace_wellformed': 'ASGI, for every response state, every failing stream call and every failing send() index: what is handed to send is exactly one start event first, then body events of which only the last has more_body false, nothing afterwards; a run ended by an exception sent nothing, or the start event followed only by body events with more_body true',
    'Fz.closed_exactly_once': 'ASGI: once streaming has begun (non-HEAD, body-bearing status, body taken from the stream, start event sent) close() is called exactly once - whether streaming completes, the stream raises at any call or send() fails at any index',
    'Fz.closes_zero_otherwise': 'ASGI: close() is not called when streaming did not begin (HEAD/bodiless, another body source wins, or the start event could not be sent)',
    'Fz.trace_start': 'the first event, if any, is the start event carrying the status and header list of Fz.asgi (so all header theorems apply to it)',
    'Fz.trace_refines_asgi': 'without a send() fault the bodies of the body events are exactly the chunk list of Fz.asgi and an exception leaves __call__ exactly when the stream failed (ties the event-level model to the model of the other theorems)',
    'Fz.f16_witness': 'F16: a 204 whose body was given as media carries a Content-Type the application never set',
}
TRUSTED = [
    'the WSGI server calls close() on the returned iterable and a server-supplied wsgi.file_wrapper closes its file (PEP 3333 duties; the monitor plays that server)',
    'asyncio.wait_for(app, 2 s) deciding "the ASGI application did not return"',
    'SSE: disconnect-watcher task cancellation timing is not examined (only what is sent)',
]
ASSUMPTIONS = [
    'status values are valid (int 100..999, status line "NNN reason", http.HTTPStatus); header names/values the application sets are latin-1 tokens/strings',
    'WSGI: close()-exactly-once rests on the server calling close() on the returned iterable (PEP 3333) - checked on the real code by the monitor playing the server (all abandon points), no theorem; SSE framing: oracle only (no Lean model)',
    'render-time errors (media with an unsupported type / unserialisable) and responders that raise are outside the Lean model: oracle only',
    'F16 stays in the code: 204/304 + media + no explicit type is reported as KNOWN-FINDING, any other framework-supplied Content-Type on 204/304 is a violation',
]
RULE = ('random response plans: status (int / canonical status line / status line with a foreign reason phrase / bare code string / http.HTTPStatus / unknown codes) x '
        'method (GET HEAD POST PUT DELETE PATCH OPTIONS) x 0-4 simultaneous body sources (text, data, media of 6 shapes incl. falsy and unserialisable, '
        'stream of 5 kinds: file-like with/without close, iterator object with/without close, generator; 0-5 chunks incl. empty ones, failing call anywhere) x '
        'preset Content-Length (right/wrong, str/int) x preset Content-Type (supported/unsupported) x set_header/append_header/Set-Cookie via append_header/set_cookie/unset_cookie x '
        'app default media type x response class (stock, subclass, subclass overriding render_body) x wsgi.file_wrapper on/off x responder raising '
        '(HTTPNotFound, HTTPError, redirect, HTTPStatus, RuntimeError; before or after filling) x SSE emitters (ASGI); every plan is run on WSGI and on ASGI; '
        'for a streamed response additionally every stream-fault index, every server-abandon point (WSGI) and every send-fault index (ASGI) is run. '
        'non-trivial = some body source set or the responder raised; distinct = distinct (stack, plan, fault point)')
PARTIAL = ''
JOBS = {'quick': 4, 'thorough': 16}

F16_WHAT = '204/304 carries a framework-supplied Content-Type with media set and no explicit type'
F16_CAP = 12  # per worker: the runner keeps at most 200 failure records, known-finding witnesses must not crowd out others


def final_state(R, p, asgi):
    """What the documented error/status handlers leave on the response (used only to know *which* oracles apply)."""
    s = {k: p[k] for k in ('text', 'data', 'media', 'stream')}
    s['ct_by_app'] = p['ct'] is not None
    s['expected_status'] = p['code']
    s['status_known'] = True
    s['error_body'] = False
    k = p['raise']
    if k:
        # documented: "text, data and media are reset before the error handler is called"; the stream is not
        s.update(text=None, data=None, media=None)
        if not p['raise_after_fill']:
            s.update(stream=None, ct_by_app=False)
        if k in ('notfound', 'httperror', 'exception'):
            s['data'] = b'<error representation>'
            s['ct_by_app'] = True  # set by the error serializer together with a representation
            s['error_body'] = True
        s['expected_status'] = {'notfound': 404, 'httperror': 409, 'redirect': 301, 'status': 204, 'exception': 500}[k]
    src = next((x for x in ('text', 'data', 'media', 'stream') if s[x] is not None), None)
    s['src'] = src
    s['render_fails'] = False
    if src == 'media':
        typ = (p['ct'] if s['ct_by_app'] else None) or p['dflt']
        if typ not in R.SUPPORTED_MEDIA_TYPES:
            s['render_fails'] = True; s['expected_status'] = 415
        elif p['media'] == 'unserialisable':
            s['render_fails'] = True; s['expected_status'] = 500
    return s


def run(ctx):
    import asyncio
    import copy
    import io
    import json
    import falcon
    import falcon.asgi
    import lib_http as H
    import lib_respspace as R
    rnd = ctx.rng
    loop = asyncio.new_event_loop()
    CUR = {}

    def wres():
        class Res:
            def on_get(self, req, resp):
                CUR['probe'] = R.fill(resp, CUR['plan'], False, CUR['snap'])
            on_head = on_post = on_put = on_delete = on_patch = on_options = on_get
        return Res()

    def ares():
        class Res:
            async def on_get(self, req, resp):
                CUR['probe'] = R.fill(resp, CUR['plan'], True, CUR['snap'])
            on_head = on_post = on_put = on_delete = on_patch = on_options = on_get
        return Res()

    class SubW(falcon.Response):
        pass

    class RenderW(falcon.Response):
        def render_body(self):
            b = super().render_body()
            return None if b is None else b'<<' + b + b'>>'

    class SubA(falcon.asgi.Response):
        pass

    class RenderA(falcon.asgi.Response):
        async def render_body(self):
            b = await super().render_body()
            return None if b is None else b'<<' + b + b'>>'
    RC = {(False, 'std'): None, (False, 'sub'): SubW, (False, 'render'): RenderW,
          (True, 'std'): None, (True, 'sub'): SubA, (True, 'render'): RenderA}
    apps = {}

    def get_app(asgi, p):
        key = (asgi, p['dflt'], p['resp_class'])
        if key not in apps:
            kw = {'media_type': p['dflt']}
            if RC[(asgi, p['resp_class'])] is not None:
                kw['response_type'] = RC[(asgi, p['resp_class'])]
            a = (falcon.asgi.App if asgi else falcon.App)(**kw)
            a.add_route('/', ares() if asgi else wres())
            apps[key] = a
        return apps[key]

    sess = ctx.session('tails of falcon.App.__call__ / falcon.asgi.App.__call__ = Fz model (status, header list in order, chunks, stream-error propagation)', 'fzdriver')
    sess_t = ctx.session('events handed to ASGI send() under stream faults and send() faults at every index + close() count = Fz.asgiTrace', 'fztdriver')
    f16_reported = [0]
    hangs = [0]

    def trace_case(p, rec, probe, snap, send_fail_at):
        if R.in_model(p) and 'hdr' in snap and not rec['hang']:
            sess_t.case({'plan': p, 'send_fail_at': send_fail_at})
            sess_t.op(R.fzt_line(p, snap, send_fail_at), R.fzt_show(rec['sent'], probe.closed if probe else 0, rec['app_exc'] is not None))

    # ------------------------------------------------------------------ one run on one stack
    def go_wsgi(p, abandon_after=None):
        errs = io.StringIO()

        def once():
            CUR.update(plan=p, snap={}, probe=None)
            errs.seek(0); errs.truncate()
            w = H.Wire(method=p['method'], target='/', headers=[('Host', 'localhost')])
            env = H.wsgi_environ(w, file_wrapper=H.FileWrapper if p['fw'] else None, errors=errs)
            return H.drive_wsgi(get_app(False, p), env, abandon_after=abandon_after)
        rec, hung = H.guarded(once)
        if hung:
            rec = {}
        rec['hang'] = hung
        rec['wsgi.errors'] = errs.getvalue()
        return rec, CUR['probe'], CUR['snap']

    def go_asgi(p, send_fail_at=None):
        for timeout in (3.0, 20.0):  # a starved worker may need seconds; only a repeated expiry counts as "did not return"
            CUR.update(plan=p, snap={}, probe=None)
            w = H.Wire(method=p['method'], target='/', headers=[('Host', 'localhost')])
            rec = loop.run_until_complete(H.drive_asgi(get_app(True, p), H.asgi_scope(w), H.asgi_events(b''), send_fail_at=send_fail_at, timeout=timeout))
            if not rec['hang']:
                break
        return rec, CUR['probe'], CUR['snap']

    # ------------------------------------------------------------------ the oracles (from the property statement)
    def judge(stack, p, rec, probe, fault):
        asgi = stack == 'asgi'
        case = {'stack': stack, 'plan': p, 'fault': fault}
        fs = final_state(R, p, asgi)
        sse = asgi and p['sse'] is not None and not (p['raise'] and not p['raise_after_fill'])
        sfail = p['stream']['fail'] if p['stream'] else None

        # --- protocol monitors
        if not asgi:
            if rec.get('hang'):
                hangs[0] += 1
                ctx.oracle('pep3333', False, 'the application did not return', case)
                return
            mon = H.pep3333_monitor(rec)
            if rec['app_exc'] is not None:
                mon.append(f'the application raised {type(rec["app_exc"]).__name__} instead of responding')
            if rec['iter_exc'] is not None and not (isinstance(rec['iter_exc'], R.StreamFault) and sfail is not None):
                mon.append(f'iterating the body raised {type(rec["iter_exc"]).__name__}')
            ctx.oracle('pep3333', not mon, '; '.join(mon) or None, case)
            if mon or not rec['start']:
                return
            status_line, hl, _ = rec['start'][0]
            code = int(status_line[:3])
            headers = [(k.lower(), v) for k, v in hl]
            chunks = rec['chunks']
            cut_short = rec['iter_exc'] is not None or fault.get('abandon_after') is not None
            started = True
        else:
            mon = H.asgi_monitor(rec)
            if rec['hang']:
                hangs[0] += 1
            ex = rec['app_exc']
            if ex is not None:
                allowed = (isinstance(ex, R.StreamFault) and sfail is not None) or (isinstance(ex, OSError) and rec['send_failed'] and not isinstance(ex, R.StreamFault))
                if not allowed:
                    mon.append(f'the application raised {type(ex).__name__}: {ex}')
            ctx.oracle('asgi-http', not mon, '; '.join(mon) or None, case)
            resp = H.asgi_response(rec)
            started = resp is not None
            if mon:
                return
            if not started:
                # nothing reached the server (send of the start event failed): only close-once can be judged
                self_close(case, p, probe, fs, asgi, sse, started=False, bodiless_obs=None)
                return
            code, headers, chunks = resp
            cut_short = rec['app_exc'] is not None or rec['send_failed']
        body = b''.join(chunks)
        names = [k for k, _ in headers]
        hd = dict(headers)
        head = p['method'] == 'HEAD'
        bodiless_obs = head or code in R.BODILESS

        # --- status: the code the server sees is the one the application chose
        if not (p['raise'] and p['raise_after_fill']):
            ok = code == fs['expected_status']
            what = None if ok else f'status {code}, expected {fs["expected_status"]}' + (('; wsgi.errors: ' + rec['wsgi.errors'][-600:]) if not asgi and rec.get('wsgi.errors') else '')
            if ok and not asgi and p['status_form'] in ('line', 'line*') and not p['raise'] and not fs['render_fails']:
                ok = status_line == p['status']
                what = None if ok else f'status line {status_line!r} differs from the one set ({p["status"]!r})'
            ctx.oracle('status', ok, what, case)

        # --- no body bytes on HEAD / 100 / 101 / 204 / 304
        if bodiless_obs:
            ctx.oracle('bodiless', body == b'', None if body == b'' else f'{len(body)} body bytes on a {"HEAD" if head else code} response', case)

        streamed = (fs['src'] == 'stream' and not fs['render_fails']) or sse
        # --- Content-Length = body bytes (non-HEAD, body-bearing, non-streamed)
        if not bodiless_obs and not streamed and not cut_short:
            cls = [v for k, v in headers if k == 'content-length']
            ok = cls == [str(len(body))]
            ctx.oracle('content-length', ok, None if ok else f'Content-Length {cls} but {len(body)} body bytes were sent', case)

        # --- precedence text > data > media > stream
        if not bodiless_obs and not p['raise'] and not fs['render_fails'] and not sse:
            src = fs['src']
            wrap = p['resp_class'] == 'render' and src in ('text', 'data', 'media')
            got = body
            ok = True
            if wrap:
                ok = got.startswith(b'<<') and got.endswith(b'>>') and len(got) >= 4
                got = got[2:-2]
            if cut_short and src != 'stream' and body == b'':
                ok = True  # the single body event was not delivered (send failed)
            elif src == 'text':
                ok = ok and got == p['text'].encode('utf-8')
            elif src == 'data':
                ok = ok and got == p['data']
            elif src == 'media':
                try:
                    ok = ok and json.loads(got.decode('utf-8')) == R.MEDIA[p['media']]
                except ValueError:
                    ok = False
            elif src == 'stream':
                exp = []
                kind = p['stream']['kind']
                for i, c in enumerate(p['stream']['chunks']):
                    if sfail is not None and i >= sfail:
                        break
                    if kind.startswith('file') and c == b'':
                        break
                    exp.append(c)
                exp = b''.join(exp)
                ok = exp.startswith(got) if cut_short else got == exp
            else:
                ok = got == b''
            ctx.oracle('precedence', ok, None if ok else f'body {body!r} is not what the {src} source provides', case)
        if fs['render_fails'] and not bodiless_obs and not sse and not cut_short:
            # F17 regression: the representation the error handler composed is what gets sent
            ctx.oracle('render-error body', body != b'', None if body else 'error raised while rendering: the error handler\'s body was not sent', case)

        # --- Content-Type: none supplied by the framework on 204/304, one on every other response
        if code in R.TYPELESS:
            has = 'content-type' in names
            app_typed = fs['ct_by_app'] or fs['render_fails']
            if not has or app_typed:
                ctx.oracle('typeless', True, None, case)
            elif fs['src'] == 'media' and not fs['ct_by_app']:
                # F16 (known finding): render_body() stores the default type on the response while rendering media
                if f16_reported[0] < F16_CAP:
                    f16_reported[0] += 1
                    ctx.oracle('typeless', False, F16_WHAT, case)
                else:
                    ctx.count('typeless_not_evaluated_known_F16_class')
            else:
                ctx.oracle('typeless', False, f'{code} carries Content-Type {hd["content-type"]!r} that the application never set (body source: {fs["src"]})', case)
        else:
            n = names.count('content-type')
            # (with media also set, rendering it types the response first - same root as F16; the statement only asks for *a* type)
            want = 'text/event-stream' if (sse and not bodiless_obs and not fs['ct_by_app'] and fs['src'] != 'media') else None
            ok = n == 1 and (want is None or hd['content-type'] == want)
            ctx.oracle('has-content-type', ok, None if ok else (f'{n} Content-Type headers on a {code} response' if n != 1 else f'SSE response typed {hd["content-type"]!r}'), case)

        # --- SSE framing (ASGI): one event per emitted SSEvent, all with more_body, then the final event
        if sse and not bodiless_obs and not cut_short:
            exp = R.sse_expected(p['sse'])
            ok = chunks[:-1] == exp and chunks[-1:] == [b'']
            ctx.oracle('sse', ok, None if ok else f'SSE body events {chunks!r}, expected {exp!r} + final', case)

        self_close(case, p, probe, fs, asgi, sse, started, bodiless_obs)

    def self_close(case, p, probe, fs, asgi, sse, started, bodiless_obs):
        # --- close() exactly once, once streaming has begun
        if probe is None or p['stream'] is None or p['stream']['kind'] not in ('file', 'iter'):
            return
        begun = started and fs['src'] == 'stream' and not fs['render_fails'] and not sse and bodiless_obs is False
        if p['raise']:
            begun = False if not p['raise_after_fill'] else begun
        if begun:
            ok = probe.closed == 1
            ctx.oracle('close-once', ok, None if ok else f'stream.close() called {probe.closed} times after streaming had begun', case)
        else:
            ok = probe.closed <= 1
            ctx.oracle('close-once', ok, None if ok else f'stream.close() called {probe.closed} times', case)

    # ------------------------------------------------------------------ case loop
    def with_fail(p, k):
        q = copy.deepcopy(p)
        q['stream']['fail'] = k
        return q

    def both(p, corr=True):
        """Run the plan on both stacks (no server-side fault); feed the oracles and, inside the model's domain, the correspondence."""
        wrec, wprobe, wsnap = go_wsgi(p)
        judge('wsgi', p, wrec, wprobe, {})
        pa = p
        arec, aprobe, asnap = go_asgi(pa)
        judge('asgi', pa, arec, aprobe, {})
        trace_case(pa, arec, aprobe, asnap, None)
        key = json.dumps(p, sort_keys=True, default=repr)
        nontriv = any(p[k] is not None for k in ('text', 'data', 'media', 'stream', 'sse', 'raise'))
        ctx.seen(('w', key), nontriv)
        ctx.seen(('a', key), nontriv)
        if corr and R.in_model(p) and not wrec.get('hang') and wrec.get('start') and H.asgi_response(arec) is not None \
                and 'hdr' in wsnap and 'hdr' in asnap:
            st, hl, _ = wrec['start'][0]
            W = R.fz_show(int(st[:3]), hl, wrec['chunks'], wrec['iter_exc'] is not None)
            code, hs_, chunks = H.asgi_response(arec)
            A = R.fz_show(code, hs_, chunks, arec['app_exc'] is not None)
            sess.case({'plan': p})
            if wsnap != asnap:
                sess.op(R.fz_line(p, wsnap), 'response state differs between the stacks before finalization: ' + repr((wsnap, asnap)))
            else:
                sess.op(R.fz_line(p, wsnap), f'W {W} A {A}')
            ctx.count('in_model')
        else:
            ctx.count('oracle_only')
        return wrec, arec

    for ci in range(ctx.n(12000, 160000)):
        if hangs[0] >= 2:
            ctx.notes.append(f'shard {ctx.shard[0]}: stopped after case {ci}: the application repeatedly did not return (reported as oracle failures)')
            break
        p = R.gen_plan(rnd)
        fs = final_state(R, p, False)
        wrec, arec = both(p)
        ctx.count('status_form_' + p['status_form'])
        ctx.count('src_' + str(fs['src']))
        ctx.count('method_' + p['method'])
        if p['raise']:
            ctx.count('raise_' + p['raise'])
        if fs['render_fails']:
            ctx.count('render_error')
        if p['sse'] is not None:
            ctx.count('sse')
        if ci < 3:
            ctx.sample({'plan': p})
        streamed = fs['src'] == 'stream' and not p['raise'] and p['method'] != 'HEAD' and p['code'] not in R.BODILESS
        if streamed:
            n = len(p['stream']['chunks'])
            # every stream-fault index (the call after the last chunk included)
            for k in list(range(n + 2)) + [None]:
                if k != p['stream']['fail']:
                    both(with_fail(p, k))
                    ctx.count('stream_fault_runs')
            # WSGI: the server abandons the iterable after k chunks
            for k in range(n + 1):
                rec, probe, _ = go_wsgi(p, abandon_after=k)
                judge('wsgi', p, rec, probe, {'abandon_after': k})
                ctx.seen(('w-abandon', json.dumps(p, sort_keys=True, default=repr), k), True)
                ctx.count('wsgi_abandon_runs')
        # ASGI: send() fails at every event index of the fault-free exchange
        if streamed or p['sse'] is not None or rnd.random() < 0.3:
            for k in range(len(arec['attempts']) + 1 if arec else 0):
                rec, probe, snap = go_asgi(p, send_fail_at=k)
                judge('asgi', p, rec, probe, {'send_fail_at': k})
                trace_case(p, rec, probe, snap, k)
                ctx.seen(('a-sendfail', json.dumps(p, sort_keys=True, default=repr), k), True)
                ctx.count('asgi_send_fault_runs')
    sess.finish()
    sess_t.finish()
    loop.close()


LEVEL_TEXT = ('Machine-checked theorems (Lean 4) over a model of the tails of falcon.App.__call__ and falcon.asgi.App.__call__: body precedence, no payload on HEAD/1xx/204/304, '
              'forced exact Content-Length, Content-Type presence/absence (with the F16 exception made explicit and witnessed), WSGI = ASGI on every response state, and - on an event-level model '
              'of the ASGI emission with a failing send() at any index - the start/body/more_body framing and close()-exactly-once under every stream and send fault. '
              'The model is tied to the real apps on every run by a differential correspondence (exact status, header list in order, chunk list, stream-error propagation, both interfaces); '
              'two independent protocol monitors written from PEP 3333 and the ASGI HTTP spec plus statement oracles decide failing inputs, with fault injection at every stream-call, '
              'server-abandon and send index.')
LEVEL_NOTE = ('Trusted: Lean kernel + standard axioms; harness, monitors and oracles; the WSGI server duty to call close() (WSGI close-once and SSE framing are checked on the real code by '
              'the monitors only, no theorem). F16 is a recorded known finding.')
TECHNIQUE = 'Lean 4 model + theorems of response finalization, differential correspondence model vs. real apps, independent PEP 3333 / ASGI protocol monitors with exhaustive fault-point injection'

"""C05 - responses are protocol-valid and length-consistent on both server interfaces."""
PROP = 'C05'
LEAN_MODULES = ['FalconModel.FinalizeProofs', 'FalconModel.FinalizeProofs2', 'FalconModel.FinalizeTraceProofs',
                'FalconModel.FinalizeWsgiProofs', 'FalconModel.FinalizeErrProofs', 'FalconModel.FinalizeSseProofs',
                'FalconModel.FinalizeNoneProofs', 'FalconModel.FinalizeHistProofs', 'FalconModel.FinalizeCloseProofs',
                'FalconModel.FinalizeRaiseProofs']
DRIVERS = ['fzdriver', 'fztdriver', 'fz2driver', 'fxdriver']
THEOREMS = [
    'Fz.wsgi_asgi_agree', 'Fz.bodiless_no_payload', 'Fz.content_length_exact',
    'Fz.body_precedence', 'Fz.typeless_no_default_content_type_partial', 'Fz.otherwise_has_content_type',
    'Fz.asgi_bodiless_no_payload', 'Fz.asgi_content_length_exact', 'Fz.asgi_body_precedence',
    'Fz.renderBody_fst', 'Fz.renderBody_frame', 'Fz.renderBody_headers',
    'Fz.getKey_setKey', 'Fz.getKey_append_left',
    # event-level ASGI emission with a failing send() at any index and a close() counter (FinalizeTrace.lean)
    'Fz.trace_wellformed', 'Fz.closed_exactly_once', 'Fz.closes_zero_otherwise', 'Fz.closes_le_one', 'Fz.trace_start',
    'Fz.trace_refines_asgi', 'Fz.loopIter_open', 'Fz.loopFile_open', 'Fz.loopIter_drain', 'Fz.loopFile_drain',
    # F16 (known finding, stays in the code): the negation of the unrestricted "typeless" statement, by `decide`
    'Fz.f16_witness',
    # WSGI event level (FinalizeWsgi.lean): start_response calls, the returned iterable, a PEP 3333 server that may abandon
    'Wg.wsgi_one_start_valid_status', 'Wg.wsgi_bad_status_no_start', 'Wg.status_line_valid', 'Wg.line_of_code', 'Wg.toDigits3',
    'Wg.wsgi_chunks_are_body', 'Wg.wsgi_stream_closed_exactly_once', 'Wg.wsgi_file_wrapper_owns_close',
    'Wg.wsgi_not_begun_never_closed', 'Wg.iterate_closes', 'Wg.iterate_abandon', 'Wg.iterate_abandon_err',
    'Wg.iterate_closeable_drain', 'Wg.iterate_plain_drain', 'Wg.call_iterable',
    # render-time errors (FinalizeErr.lean, fix 492d3f9), both stacks
    'Fe.render_error_body_is_sent', 'Fe.render_error_twice_empty_body', 'Fe.err_content_length_exact', 'Fe.err_wsgi_asgi_agree',
    'Fe.wsgiE_ok', 'Fe.asgiE_ok', 'Fe.wsgiE_handled', 'Fe.asgiE_handled', 'Fe.wsgiE_twice', 'Fe.asgiE_twice', 'Fe.unhandled',
    'Fe.handler_input', 'Fe.wsgi_eq_tail', 'Fe.asgi_eq_tail',
    # SSE (FinalizeSse.lean): SSEvent.serialize and the SSE branch of asgi.App.__call__
    'Sse.sse_frames_wellformed', 'Sse.sse_serialize_fields_exact', 'Sse.sse_one_body_per_event', 'Sse.sse_closes_zero',
    'Sse.sse_disconnect_complete', 'Sse.sse_start_content_type', 'Sse.serialize_none_iff', 'Sse.serialize_lines',
    'Sse.sse_multiline_data_is_not_split', 'Sse.splitLF_join', 'Sse.parseBlock_join', 'Sse.decInt_noLF',
    # ASGI streams that hand out None (FinalizeNone.lean): the documented end-of-body marker of async iterators, a read() returning None
    'Fn.traceN_wellformed', 'Fn.traceN_closed_exactly_once', 'Fn.traceN_closes_zero_otherwise', 'Fn.asgiTraceN_iter', 'Fn.asgiTraceN_some',
    'Fn.traceN_iter_payload', 'Fn.loopIterN_cut', 'Fn.loopIterN_some', 'Fn.loopFileN_some', 'Fn.loopIterN_open', 'Fn.loopFileN_open', 'Fn.cutNone_some',
    # close() itself fails (FinalizeClose.lean): one more fault input on top of Fn.asgiTraceN
    'Fc.asgiTraceC_nofault', 'Fc.asgiTraceC_noclose', 'Fc.traceC_wellformed', 'Fc.traceC_closed_exactly_once', 'Fc.traceC_closes_zero_otherwise', 'Fc.traceC_close_fault',
    # histories on one response (FinalizeHist.lean): setters in any order, re-assignment, render_body() calls in between, the _media_rendered cache
    'Fh.history_wsgi', 'Fh.history_asgi', 'Fh.history_body_precedence', 'Fh.run_attrs', 'Fh.renderC_eq', 'Fh.renderC_fst', 'Fh.renderC_frame',
    'Fh.inv_run', 'Fh.inv_step', 'Fh.inv_init', 'Fh.wsgiH_eq', 'Fh.asgiH_eq', 'Fh.hasKey_setKey_self', 'Fh.hasKey_setKey_mono',
    # responses to a raise (FinalizeRaise.lean): _handle_exception + Es.composeError / Es.composeStatus (C04) mapped into Fz.wsgi / Fz.asgi
    'Fx.raise_content_length_exact', 'Fx.raise_bodiless_no_payload', 'Fx.raise_wsgi_asgi_agree', 'Fx.raise_payload_is_error_body',
    'Fx.stale_never_sent', 'Fx.stale_stream_sent_witness', 'Fx.compose_status', 'Fx.compose_hasBody', 'Fx.compose_error_body',
    'Fx.compose_status_body', 'Fx.asgiR_eq', 'Fx.wsgi_stream_irrelevant', 'Fx.asgi_stream_irrelevant', 'Fx.toFz_has_source',
]
STATEMENTS = {
    'Fx.raise_content_length_exact': 'for every response state at the moment of a raise (status, headers, text, data, media, stream, SSE emitter, cookies), every raised HTTPError (any status, any headers= incl. Content-Length / Content-Type / Content-Range) or HTTPStatus (text, headers), every Accept header, serializer options and encoder results: on a non-HEAD request with a body-bearing raised status, when the raise defines a body or no stream was left on the response, the Content-Length both servers receive is exactly the number of payload bytes - whatever Content-Length the error or the responder had set',
    'Fx.raise_bodiless_no_payload': 'for every such raise: a HEAD request, or a raised status 100/101/204/304 (as HTTPError or HTTPStatus), carries no payload bytes on either stack, and the status sent is the raised one',
    'Fx.raise_wsgi_asgi_agree': 'for every such raise the WSGI and the ASGI app emit the same status, the same header list in the same order, the same payload bytes and the same stream-failure propagation - or the same exception leaves both (Set-Cookie in the error headers)',
    'Fx.raise_payload_is_error_body': 'non-HEAD, body-bearing raised status, the raise defines a body (the serializer renders JSON / XML / a media document, or HTTPStatus.text is not None): the payload on both stacks is exactly that rendered body - no stale stream, text, data, media or SSE bytes',
    'Fx.stale_never_sent': 'the response to a raise equals the response the same raise gives on a response from which the text, data, media and SSE emitter set before the raise were removed - and the stream too whenever the raise defines a body (both stacks)',
    'Fx.stale_stream_sent_witness': 'what the code does otherwise: raise HTTPStatus(200) without text after resp.stream = ... sends the stale stream as the payload, without Content-Length, on both stacks (by decide)',
    'Fx.compose_hasBody': 'the composed response defines a body exactly when the serializer choice has one (HTTPError) / the text is not None (HTTPStatus)',
    'Fz.wsgi_asgi_agree': 'for every response state (status, text, data, rendered media, stream kind/chunks/failing call, header dict, cookies) and configuration (HEAD, default media type, file_wrapper): the WSGI tail and the ASGI tail produce the same status, the same header list in the same order, the same payload bytes and the same propagation of a stream failure',
    'Fz.bodiless_no_payload': 'a response to HEAD or with status 100/101/204/304 hands no payload bytes to the WSGI server',
    'Fz.asgi_bodiless_no_payload': 'the same for the body events passed to the ASGI server',
    'Fz.content_length_exact': 'non-HEAD, body-bearing status, body not taken from a stream: the Content-Length the WSGI server receives is exactly the payload length, whatever the application had put in that header',
    'Fz.asgi_content_length_exact': 'the same for the ASGI response-start headers',
    'Fz.asgi_body_precedence': 'the same precedence for the concatenated body events passed to the ASGI server',
    'Fz.renderBody_headers': 'render_body() leaves the header dict untouched unless media is the source that gets rendered',
    'Fz.body_precedence': 'non-HEAD, body-bearing status: the payload is text if set, else data if set, else the rendered media if set, else the chunks the stream delivers up to its end or failing call, else empty',
    'Fz.typeless_no_default_content_type_partial': 'a 204/304 whose application state has no Content-Type carries none in what the server receives, unless media is the body source that gets rendered (that exception is F16)',
    'Fz.otherwise_has_content_type': 'every response whose status is not 204/304 carries a Content-Type when the app has a default media type',
    'Fz.trace_wellformed': 'ASGI, for every response state, every failing stream call and every failing send() index: what is handed to send is exactly one start event first, then body events of which only the last has more_body false, nothing afterwards; a run ended by an exception sent nothing, or the start event followed only by body events with more_body true',
    'Fz.closed_exactly_once': 'ASGI: once streaming has begun (non-HEAD, body-bearing status, body taken from the stream, start event sent) close() is called exactly once - whether streaming completes, the stream raises at any call or send() fails at any index',
    'Fz.closes_zero_otherwise': 'ASGI: close() is not called when streaming did not begin (HEAD/bodiless, another body source wins, or the start event could not be sent)',
    'Fz.trace_start': 'the first event, if any, is the start event carrying the status and header list of Fz.asgi (so all header theorems apply to it)',
    'Fz.trace_refines_asgi': 'without a send() fault the bodies of the body events are exactly the chunk list of Fz.asgi and an exception leaves __call__ exactly when the stream failed (ties the event-level model to the model of the other theorems)',
    'Fz.f16_witness': 'F16: a 204 whose body was given as media carries a Content-Type the application never set',
    'Wg.wsgi_one_start_valid_status': 'WSGI, for every response state, stream and configuration and every valid status (int or digit string 100..999, http.HTTPStatus member, or a str that is a status line): start_response is called exactly once; the status line is "NNN reason" with a non-empty reason and NNN the code the application chose (which also decides the HEAD/bodiless handling); the header pairs are those of Fz.wsgi for that code; an iterable is returned (falcon.status_codes entries are assumed to have the form "<n> <phrase>")',
    'Wg.wsgi_bad_status_no_start': 'a numeric status outside 100..999 raises ValueError out of __call__ before start_response is called',
    'Wg.wsgi_chunks_are_body': 'WSGI: the byte strings a PEP 3333 server takes from the returned iterable (the list, wsgi.file_wrapper(stream), CloseableStreamIterator(stream) or the stream itself) are exactly the body of Fz.wsgi, the iteration raises exactly when Fz.wsgi says the stream fails, their concatenation is the payload the ASGI model sends (via Fz.wsgi_asgi_agree), and a server that abandons after k chunks has taken exactly the first k',
    'Wg.wsgi_stream_closed_exactly_once': 'WSGI: once streaming has begun (non-HEAD, body-bearing status, body taken from the stream) the stream\'s close() is called exactly once - for every index at which the stream raises and every number of chunks after which the server abandons the iterable (none, zero included) - for a file-like stream in CloseableStreamIterator, a file-like stream handed to a wsgi.file_wrapper that forwards close() (PEP 3333\'s does) and an iterable stream returned as is; by an invariant of the server loop: iterating never closes',
    'Wg.wsgi_file_wrapper_owns_close': 'with wsgi.file_wrapper and a file-like stream falcon calls the wrapper exactly once with the untouched stream, returns its result unchanged and never closes the stream itself: every close() that reaches the stream is the wrapper\'s (zero if the wrapper does not forward it)',
    'Wg.wsgi_not_begun_never_closed': 'when streaming does not begin (HEAD, 1xx/204/304, another body source, no stream) the server gets a plain list and the stream is never closed',
    'Fe.render_error_body_is_sent': 'both stacks: when render_body() raises (no handler for the media type / serialize raises), the error handler\'s response is rendered again and the payload is the one that response provides by the usual precedence, with its status (F17 repaired, fix 492d3f9) - for every error handler, modelled as an arbitrary function of the response with text/data/media reset',
    'Fe.render_error_twice_empty_body': 'both stacks: if rendering the error handler\'s response raises too, the response is sent with the handler\'s status, an empty payload and - when non-HEAD and body-bearing - Content-Length 0',
    'Fe.err_content_length_exact': 'both stacks: on the render-error path (non-HEAD, body-bearing status of the handler\'s response, body not taken from a stream) Content-Length is exactly the payload length',
    'Fe.err_wsgi_asgi_agree': 'on every path of the render/except/render/except structure the two stacks agree: an exception leaves both __call__s or neither; same status, header list, payload, stream-error propagation',
    'Fe.wsgiE_ok': 'without a render-time error the extended model is Fz.wsgi (so every earlier theorem applies unchanged)',
    'Sse.sse_frames_wellformed': 'ASGI with resp.sse set, for every response state, event list, emitter fault index, unserialisable event, send() fault index and disconnect point: one start event first, then body events of which only the last has more_body false, nothing afterwards; a run ended by an exception sent nothing or the start event followed only by body events with more_body true',
    'Sse.sse_one_body_per_event': 'non-HEAD, body-bearing status, no fault: the exchange is the start event (status, header list with text/event-stream as default type), exactly one body event with more_body true per event the emitter yielded (None = the ping event) carrying SSEvent.serialize of it, in order, then the final empty body event; close() is not called',
    'Sse.sse_serialize_fields_exact': 'SSEvent.serialize, for every event whose values contain no line feed: the chunk read back by the event-stream line grammar is exactly one block (non-empty field lines, a blank line, nothing after) whose fields are the attributes that were set, in the order comment, event, id, retry, data - the data field being data, else text, else the serialised json - or the single comment "ping" when nothing is set',
    'Sse.sse_multiline_data_is_not_split': 'witness: text "a\\nb" is written as one data line followed by a stray line "b" - multi-line values are not split into several data: lines (reported; outside the property statement)',
    'Sse.serialize_none_iff': 'serialize raises exactly when data is not well-formed UTF-8, or json is the data source and its handler raises',
    'Sse.sse_disconnect_complete': 'a client disconnect noticed after any event ends the loop and the exchange is still completed by the final body event',
    'Fn.traceN_wellformed': 'ASGI, for every sequence of items an async stream hands out call by call (byte strings and None in any order; async iterator/generator or async file-like), every failing stream call and every failing send() index: one start event first, then body events of which only the last has more_body false, nothing afterwards - in particular a stream that ends its body with the documented None marker gets its final body event; a run ended by an exception sent nothing or the start event followed only by body events with more_body true',
    'Fn.traceN_closed_exactly_once': 'ASGI: once streaming has begun close() is called exactly once, for every hand-out sequence (None items included), stream fault and send fault',
    'Fn.traceN_closes_zero_otherwise': 'and never when streaming did not begin',
    'Fn.asgiTraceN_iter': 'for an async iterator / generator the None marker is exhaustion at that point: the exchange is exactly Fz.asgiTrace of the chunks handed out before the first None (the chunks behind it are never asked for), so all Fz theorems apply',
    'Fn.asgiTraceN_some': 'the event-level model of FinalizeTrace.lean is the special case in which the stream hands out byte strings only',
    'Fn.traceN_iter_payload': 'fault-free exchange of a None-terminated async iterator (non-HEAD, body-bearing, body from the stream): one body event with more_body per byte string before the marker, then the final empty body event, no exception',
    'Fc.traceC_closed_exactly_once': 'ASGI: once streaming has begun close() is called exactly once also when that very call raises (or the task is cancelled inside it) - alone or while a stream / send failure of any class is already propagating (the streaming block is try/finally: to the model a failure has no class)',
    'Fc.traceC_close_fault': 'a close() that raises always ends __call__ with an exception after exactly one call; the server has received the start event and body events with more_body true only (no final event)',
    'Fc.traceC_wellformed': 'the framing statement of Fn.traceN_wellformed with the close() fault as one more input',
    'Fc.asgiTraceC_nofault': 'without the close() fault the model is Fn.asgiTraceN (all Fn / Fz theorems apply)',
    'Fh.history_wsgi': 'for every history on a fresh response - assignments of text / data / media (values and None, any order, repeated), header assignments, render_body() calls that return or raise, in any interleaving - what falcon.App.__call__ hands to the server is Fz.wsgi of the response state the history left: the _media_rendered cache never changes the outcome, all Fz theorems (precedence, Content-Length, bodiless, Content-Type) hold judged on the values assigned last',
    'Fh.history_asgi': 'the same for falcon.asgi.App.__call__ (Fz.asgi)',
    'Fh.history_body_precedence': 'non-HEAD, body-bearing status: after any history the payload is the text assigned last if not None, else the data assigned last, else the serialised media assigned last, else what the stream delivers - whatever render_body() calls happened in between',
    'Fh.run_attrs': 'last assignment wins: the attributes a history leaves are the values assigned last; render_body() and header assignments touch neither them nor status, stream, cookies',
    'Fh.renderC_fst': 'every render_body() call of a history that returns, returns text, else data, else the serialised media as assigned at that moment (the cache never shadows a later assignment)',
    'Fh.inv_run': 'invariant of every operation: the cache is _UNSET or the serialised form of the media currently assigned, and then the response has a Content-Type (or there is no default type)',
    'Sse.sse_start_content_type': 'the SSE start event is typed text/event-stream unless the response already has a Content-Type, which then stays',
}
TRUSTED = [
    'the WSGI server calls close() on the returned iterable and a server-supplied wsgi.file_wrapper iterates read(block) and forwards close() to its file (PEP 3333 duties; the monitor plays that server, the Lean model Wg.serve transcribes it; Wg.wsgi_file_wrapper_owns_close states what holds for a wrapper that does not forward close())',
    'asyncio.wait_for(app, 3 s, then 20 s) deciding "the ASGI application did not return"',
    'the task-based ASGI driver (lib_http.drive_asgi_task): the application runs in its own task, the server side cancels it with task.cancel() from the event loop while the application waits on a future inside send() / a stream call / close()',
    'SSE: the moment at which the disconnect watcher task completes is an input of the model (the harness makes the client disconnect before a chosen event and yields to the event loop); the watcher task itself is not modelled (it is left pending when an exception ends the SSE loop - reported)',
    'the independent event-stream interpreter (HTML standard 9.2.6) used as the SSE oracle',
]
ASSUMPTIONS = [
    'status values are valid (int or digit string 100..999, status line "NNN reason", http.HTTPStatus; a bytes status line - accepted by falcon.util.code_to_http_status / http_status_to_code, not named by '
    'the documentation of Response.status - is swept under the oracles and the Fz correspondence but not the Wg status-line model); an invalid numeric status is modelled (ValueError, no start_response) and tied on WSGI only; header names/values the application sets are latin-1 tokens/strings',
    'falcon.status_codes.HTTP_<n> has the form "<n> <phrase>" (hypothesis TableOk of the status-line theorem; checked on the real module by the oracle status-table)',
    'responders / middleware / hooks that raise HTTPError or HTTPStatus (redirects included) with the stock handlers and the default error serializer are modelled by Fx (FinalizeRaise.lean) on top of the C04 models Es: the encoders (to_json, _to_xml, the media handler, str.encode) are parameters of the theorems and inputs of the tie; other exceptions, user error handlers and custom serializers: oracle only. Render-time errors are modelled for an arbitrary error handler (a function of the response state); the tie uses generated handlers; with the stock handlers: oracle only',
    'custom response classes overriding render_body(), a Set-Cookie added with append_header: oracle only',
    'None items exist on ASGI only (a WSGI iterable that yields None is the application breaking PEP 3333); on ASGI a None from an async iterator ends the body (documented), a None from read() is an empty chunk (what the code tolerates); the WSGI run of such a plan gets the stream without the None',
    'histories: serialising a media value is a function of the value (and fails or not by the type the response has at that moment, decided by the harness from the documentation); an explicit Content-Type without a media handler is assigned before the body attributes (media rendered under one type and re-typed afterwards keeps its cached serialisation - not something the statement speaks about); header values are never deleted inside a history',
    'SSE: str attributes are well-formed Unicode (no lone surrogates); multi-line values are serialised as falcon does (not split, see Sse.sse_multiline_data_is_not_split) and excluded from the read-back oracle; retry is an int (not bool)',
    'F16 stays in the code: 204/304 + media + no explicit type is reported as KNOWN-FINDING, any other framework-supplied Content-Type on 204/304 is a violation',
    'how streaming ends: KeyboardInterrupt / SystemExit themselves are represented by a server-defined BaseException subclass (asyncio re-raises the two real ones out of the event loop); what leaves the '
    'application after an injected failure may be any of the injected classes (close() raising while another error propagates replaces it; the statement only fixes the close() count and the framing)',
]
RULE = ('[two dimensions added after seeds C05_13 / C05_15: (vi) the STATUS space, exhaustively: a dedicated sweep runs every code 100..599 and 600, 799, 999 in every accepted spelling '
        '(int, resp.status_code = n, bare code string, status line with a custom reason, the falcon.status_codes line and the http.HTTPStatus member where they exist, a bytes status line) '
        'with a body source (text / data / media / a stream object / none; quick: one drawn per (code, spelling), HEAD for 10 %; thorough: every source x GET and HEAD) on both stacks; the oracles '
        'judge by the statement\'s explicit sets (bodiless = exactly 100 / 101 / 204 / 304, typeless = exactly 204 / 304: e.g. 102, 103, 199, 205, 305 carry their body with an exact Content-Length) and a '
        'new oracle "stacks-agree" compares what the statement fixes (code, body bytes, Content-Length of a non-streamed body, presence of a Content-Type) between WSGI and ASGI; the random plans of every run '
        'now also draw (14 %) from a wider pool: the other informational codes 102 / 103 / 150 / 199 in all spellings, 203 / 205 / 206 / 303 / 305, 400 / 499 / 599 / 600 / 999; '
        '(vii) the SHAPE of the stream object: what __iter__ / __aiter__ of an iterable stream returns - the object itself, a separate iterator object without close(), a separate iterator object with a '
        'close() of its own, or a generator object (__iter__ / __aiter__ written as a (async) generator method) - crossed with close() on the stream object or not (so close() lives on the iterable only, '
        'on the iterator only, on both, on neither); file-like objects (read + close) that are iterable as well, like real files; close() calls are counted separately on the object the application '
        'assigned as resp.stream (the statement\'s "its close()": oracle close-once, and the close count of the Fz / Fn / Fc / Wg models) and on the iterator it handed out (shown apart in the '
        'correspondence: the models never close it); 60 % of the iterable and 30 % of the file-like stream objects of every random plan have such a shape, and the stream-endings run takes the 12 object '
        'shapes in turn so that every shape meets every ending (completion, the stream raising at every call, send failing at every index, cancellation, close() raising) on both stacks] '
        '[dimension added after seed C05_17: (viii) the LIFETIME OF THE STREAM OBJECT\'S ATTRIBUTE SET: `close` is resolvable (through __getattr__, a lazily opened proxy) only once the first read() / __next__ was entered; '
        'the first call binds self.close; the first call replaces the class\'s close() by another callable (calls of the stale one are counted apart, `+Ns`); the instance\'s close is deleted when the stream '
        'hands out its end marker; the first read() replaces self.read - on file-like and iterable objects, sync and async; 30 % of the closable stream objects of every random plan (+ 15 % of the file-like ones for read) '
        'and every third plan of the stream-endings run (10 shapes in turn, every ending on both stacks). Oracle close-once, from the statement: an object that HAS a callable close() when the response ends '
        '(completed, failed, abandoned by the server - asked of the object itself at that moment) was closed exactly once if streaming had begun; the Wg / Fz / Fc / Sse model lines get close=<has close() at the end>] '
        '[dimension added after seed C05_10: (v) response HEADERS SET BY THE APPLICATION that speak about framing / the connection are an input of every plan (main loop, stream endings, render errors, SSE): '
        'with probability 0.4 1-3 of Transfer-Encoding (chunked / identity / gzip / "gzip, chunked", half of these plans; sometimes built by two append_header calls), Connection, Content-Encoding, Trailer, TE, Upgrade, Keep-Alive, Content-Range, '
        'each spelled in one of three cases and set by set_header / append_header / set_headers(dict) / set_headers(list of pairs), before or after the other headers; the same headers travel in the `headers` argument of a raised HTTPError / HTTPStatus; '
        'a raised HTTPStatus may carry a body (text=); the explicit Content-Length is now also the RIGHT one for the non-streamed body (40 % of the plans that set one; otherwise 3 / 999 / 7) and is set through resp.content_length, set_header or set_headers; '
        'on both stacks, for every body source. The statement decides: non-HEAD, body-bearing status, non-streamed body => exactly one Content-Length = number of body bytes sent, whatever else the application set '
        '(the unchanged tree overwrites a wrong application-set Content-Length on both stacks; for a streamed body the application\'s declared value passes through: oracle stream-content-length). '
        'The header dict the responder leaves is an input of the Fz / Wg / Fh / Fe / Sse models, so the correspondence sees the same headers] '
        '[two dimensions added after seeds C05_7 / C05_8: (iii) HOW streaming ends - a dedicated run over streamed plans (file-like and iterator stream objects, with and without close(), '
        'None marker or exhaustion): the stream\'s failing call at every position (first call ... the call after the last item), the server\'s send at every index and close() itself each raise an '
        'Exception subclass or one of the BaseException-only classes asyncio.CancelledError, GeneratorExit, a server-defined BaseException (what `except Exception` does not see); the ASGI application runs '
        'in a task of its own that the server really cancels (task.cancel() from the event loop) while the application is suspended in every stream call, in every send and in close(); close() raising '
        'alone and while a stream / send failure is already propagating; WSGI gets the stream-call and close() variants (the PEP 3333 server owes close() whatever the class); close() exactly once '
        'is judged by the oracle in every run and the event list + close count go to the trace model (to which "raises" has no class: `finally`); '
        '(iv) the stream OBJECT - with probability 0.45 a class-based stream object has a truth value of its own: __len__ 0 / positive, __bool__ False, a truth value that changes after the first '
        'look (true-then-false, false-then-true); with probability 0.3 it is handed over with resp.set_stream(stream, content_length) (the real length, sometimes another one); a new oracle '
        '"stream-content-length": the Content-Length of a streamed response is the one the application declared or absent - never one the framework made up; the remaining truthiness test in the HEAD branch of the ASGI app - '
        'Content-Length: 0 for HEAD with a falsy stream object, unlike WSGI - was found by the Fz correspondence with these objects and repaired in /repo a19fe30] '
        '[two history-like dimensions added after seeds C05_4 / C05_6: (i) fill histories - with probability 0.35 the plan is filled in by a history on the one response object: each of text / data / media is assigned 0-3 times '
        '(other values of its pool and None first, the plan\'s value last); either the three sequences are interleaved in a random order and 1-3 calls of the public render_body() are inserted at random positions, '
        'or the attributes are filled in one after the other in one of the 6 orders with a call after each block (every ordered pair "a call sees source X, source Y is assigned afterwards" occurs) '
        '(a failing one is survived, as a logging hook would); the header block runs before or after the history; the oracles judge the values assigned last; '
        '(ii) how an ASGI stream ends / what it hands out: with probability 0.6 a streamed plan\'s async stream hands out None at one call - after the last chunk (the documented end marker, 2/3 of these) or before a random chunk '
        '(ending the body early; for read() an empty chunk) - for async iterator objects, async generators and async file-like objects; all fault loops cover the extra call] '
        'random response plans: status (int / canonical status line / status line with a foreign reason phrase / bare code string / http.HTTPStatus / unknown codes) x '
        'method (GET HEAD POST PUT DELETE PATCH OPTIONS) x 0-4 simultaneous body sources (text, data, media of 6 shapes incl. falsy and unserialisable, '
        'stream of 5 kinds: file-like with/without close, iterator object with/without close, generator; 0-5 chunks incl. empty ones, failing call anywhere) x '
        'preset Content-Length (right/wrong, str/int) x preset Content-Type (supported/unsupported) x set_header/append_header/Set-Cookie via append_header/set_cookie/unset_cookie x '
        'app default media type x response class (stock, subclass, subclass overriding render_body) x wsgi.file_wrapper on/off x responder raising '
        '(HTTPNotFound, HTTPError, redirect, HTTPStatus, RuntimeError; before or after filling) x SSE emitters (ASGI); every plan is run on WSGI and on ASGI; '
        'for a streamed response additionally every stream-fault index, every server-abandon point (WSGI) and every send-fault index (ASGI) is run. '
        'Extension runs: (a) render-time errors: a plan whose media cannot be rendered (unsupported explicit / default type, unserialisable value, registered handler raising in serialize / serialize_async, '
        'or none) x a generated error handler (a second plan applied to the response: any status, body sources incl. media that fails again, a new stream or the old one, headers, cookies; or the handler raises), both stacks; '
        '(b) SSEvent.serialize on generated events: each of data (valid/invalid/overlong/surrogate/out-of-range UTF-8, random bytes), text, json (5 values + unserialisable), event, id, retry (0, negative, > 2^64), comment '
        'independently present, strings incl. empty, leading colon/space, colon inside, non-ASCII, LF/CR inside; (c) SSE responses: a plan + 0-4 generated events (None included) run fault-free, with send() failing at every index, '
        'the emitter raising at every index (after the last included), the client disconnecting after every event, and random fault combinations; (d) invalid numeric statuses on WSGI. '
        'non-trivial = some body source set or the responder raised; distinct = distinct (stack, plan, fault point)')
PARTIAL = ('raises handled by the stock handlers are modelled and proved (Fx) for HTTPError / HTTPStatus with the C04 serializer model; still oracle only: error handlers added with add_error_handler and custom serializers (set_error_serializer), '
           'a media handler that raises while rendering the error document (falls to the Fe path, not composed), the event-level framing (Fz.asgiTrace / Wg) of error responses with a stale stream, Accept headers outside the Es fragment; response classes overriding render_body(); '
           'SSE values containing line breaks are modelled as falcon writes them but have no read-back theorem (falcon does not split them); the disconnect watcher task is an input, not a model')
JOBS = {'quick': 4, 'thorough': 16}

F16_WHAT = '204/304 carries a framework-supplied Content-Type with media set and no explicit type'
F16_CAP = 12  # per worker: the runner keeps at most 200 failure records, known-finding witnesses must not crowd out others


def final_state(R, p, asgi):
    """What the documented error/status handlers leave on the response (used only to know *which* oracles apply)."""
    s = {k: p[k] for k in ('text', 'data', 'media', 'stream')}
    s['ct_by_app'] = p['ct'] is not None
    s['expected_status'] = p['code']
    s['status_known'] = True
    s['error_body'] = False
    k = p['raise']
    if k:
        # documented: "text, data and media are reset before the error handler is called"; the stream is not
        s.update(text=None, data=None, media=None)
        if not p['raise_after_fill']:
            s.update(stream=None, ct_by_app=False)
        if k in ('notfound', 'httperror', 'exception'):
            s['data'] = b'<error representation>'
            s['ct_by_app'] = True  # set by the error serializer together with a representation
            s['error_body'] = True
        if k == 'status_body':
            s['text'] = R.STATUS_BODY_TEXT     # documented: HTTPStatus(status, text=...) - "String representing response content"
        s['expected_status'] = {'notfound': 404, 'httperror': 409, 'redirect': 301, 'status': 204, 'status_body': 202, 'exception': 500}[k]
    src = next((x for x in ('text', 'data', 'media', 'stream') if s[x] is not None), None)
    s['src'] = src
    s['render_fails'] = False
    if src == 'media':
        typ = (p['ct'] if s['ct_by_app'] else None) or p['dflt']
        if typ not in R.SUPPORTED_MEDIA_TYPES:
            s['render_fails'] = True; s['expected_status'] = 415
        elif p['media'] == 'unserialisable':
            s['render_fails'] = True; s['expected_status'] = 500
    return s


def run(ctx):
    import asyncio
    import copy
    import io
    import json
    import falcon
    import falcon.asgi
    import lib_http as H
    import lib_respspace as R
    rnd = ctx.rng
    loop = asyncio.new_event_loop()
    CUR = {}

    def gen_plan(rnd, **kw):
        # every generated plan draws from the wider status pool and from the stream-object shapes (dimensions added after C05_13 / C05_15)
        return R.gen_plan(rnd, more_statuses=True, shape_ok=True, **kw)

    def closes_of(probe):
        """The close() observation: calls on the object the application assigned as resp.stream; calls that reached a separate iterator
        object handed out by its __iter__ / __aiter__ are shown apart (`+Ni`; the models close the assigned object only, so never)."""
        if probe is None:
            return 0
        # (`+Ns`: calls of a close() that the object had REPLACED by another callable by then - the models call the current one only)
        out = probe.closed if not probe.iter_closed else f'{probe.closed}+{probe.iter_closed}i'
        return f'{out}+{probe.stale_closed}s' if probe.stale_closed else out

    def wres():
        class Res:
            def on_get(self, req, resp):
                try:
                    CUR['probe'] = R.fill(resp, CUR['plan'], False, CUR['snap'])
                finally:
                    CUR['stream_obj'] = resp.stream
            on_head = on_post = on_put = on_delete = on_patch = on_options = on_get
        return Res()

    def ares():
        class Res:
            async def on_get(self, req, resp):
                CUR['probe'] = R.fill(resp, CUR['plan'], True, CUR['snap'])
            on_head = on_post = on_put = on_delete = on_patch = on_options = on_get
        return Res()

    class SubW(falcon.Response):
        pass

    class RenderW(falcon.Response):
        def render_body(self):
            b = super().render_body()
            return None if b is None else b'<<' + b + b'>>'

    class SubA(falcon.asgi.Response):
        pass

    class RenderA(falcon.asgi.Response):
        async def render_body(self):
            b = await super().render_body()
            return None if b is None else b'<<' + b + b'>>'
    RC = {(False, 'std'): None, (False, 'sub'): SubW, (False, 'render'): RenderW,
          (True, 'std'): None, (True, 'sub'): SubA, (True, 'render'): RenderA}
    apps = {}

    def get_app(asgi, p):
        key = (asgi, p['dflt'], p['resp_class'])
        if key not in apps:
            kw = {'media_type': p['dflt']}
            if RC[(asgi, p['resp_class'])] is not None:
                kw['response_type'] = RC[(asgi, p['resp_class'])]
            a = (falcon.asgi.App if asgi else falcon.App)(**kw)
            a.add_route('/', ares() if asgi else wres())
            apps[key] = a
        return apps[key]

    class CountingFW(H.FileWrapper):
        """PEP 3333's wsgi.file_wrapper; counts how often the application calls it."""

        def __init__(self, filelike, blksize=8192):
            CUR['fw_calls'] = CUR.get('fw_calls', 0) + 1
            super().__init__(filelike, blksize)

    sess = ctx.session('tails of falcon.App.__call__ / falcon.asgi.App.__call__ = Fz model (status, header list in order, chunks, stream-error propagation)', 'fzdriver')
    sess_t = ctx.session('events handed to ASGI send() under stream faults and send() faults at every index + close() count = Fz.asgiTrace', 'fztdriver')
    sess_w = ctx.session('WSGI: start_response calls (status line, header pairs), chunks a PEP 3333 server takes from the returned iterable, close() calls reaching the stream, '
                         'close() on the iterable, wsgi.file_wrapper calls - under every stream fault and every server-abandon point = Wg.call + Wg.serve', 'fz2driver')
    sess_h = ctx.session('histories on one response (assignments of text / data / media in any order, re-assignments, None, interleaved public render_body() calls, header block before or after): '
                         'every render_body() result + the finalization on both stacks = Fh.run + Fh.wsgiH / Fh.asgiH', 'fz2driver')
    sess_e = ctx.session('render-time errors with generated error handlers (second rendering, double failure, handler raising), WSGI and ASGI = Fe.wsgiE / Fe.asgiE', 'fz2driver')
    sess_ser = ctx.session('falcon.asgi.SSEvent.serialize on generated events (bytes or the exception) = Sse.serialize', 'fz2driver')
    sess_s = ctx.session('ASGI events of SSE responses under emitter faults, unserialisable events, send() faults at every index and client disconnects + close() count = Sse.sseTrace', 'fz2driver')
    f16_reported = [0]
    hangs = [0]

    # ------------------------------------------------------------------ WSGI event-level correspondence (Wg)
    def sv_of(p):
        """resp.status as code_to_http_status sees it + the falcon.status_codes entry it looks up (input of the model)."""
        import http
        f = p['status_form']
        if f == 'enum':
            return f"e:{p['code']}:{R.hs(http.HTTPStatus(p['code']).phrase)}", 'none'
        if f in ('line', 'line*'):
            return 'l:' + R.hs(p['status']), 'none'
        n = int(p['status'])
        ent = getattr(falcon.status_codes, 'HTTP_%d' % n, None)
        return f'c:{n}', ('none' if ent is None else R.hs(ent))

    def has_close_w(p, probe=None):
        # a generator object has close(), too (the server calls it); an object whose attribute set changes over its lifetime: whether it
        # has close() when the server is done (CloseableStreamIterator.close, the server's file_wrapper and the server look it up then)
        return p['stream'] is not None and (p['stream']['kind'] == 'gen' or R.has_close_end(p, probe))

    def show_hdrs(hl):
        hl = [(k, R.norm_cookie(v) if k.lower() == 'set-cookie' else v) for k, v in hl]
        return ';'.join(R.hs(k) + ':' + R.hs(v) for k, v in hl)

    def wsgi_show(p, rec, probe):
        fw = CUR.get('fw_calls', 0)
        if rec['app_exc'] is not None:
            return f"{len(rec['start'])}|raised|{fw}"
        if len(rec['start']) == 1:
            st, hl, _ = rec['start'][0]
            start = f"{R.hs(st)}|{show_hdrs(hl)}"
        else:
            start = '?|?'
        if p['stream'] is not None and p['stream']['kind'] == 'gen':
            # the probe cannot count close() on a generator object: count the server's call on the very object
            closes = rec['closed_iterable'] if rec['returned'] is CUR.get('stream_obj') else 0
        else:
            closes = closes_of(probe)
        return (f"{len(rec['start'])}|{start}|{','.join(R.hx(c) for c in rec['chunks'])}|{1 if rec['iter_exc'] is not None else 0}|"
                f"{closes}|{rec['closed_iterable']}|{fw}")

    def wsgi_case(p, rec, probe, snap, abandon_after):
        if R.in_model(p) and 'hdr' in snap and not rec.get('hang') and p['status_form'] != 'bytes-line':
            sv, tbl = sv_of(p)
            sess_w.case({'plan': p, 'abandon_after': abandon_after})
            sess_w.op('wsgi ' + R.fz_line(p, snap)[5:] + f" close={1 if has_close_w(p, probe) else 0} sv={sv} tbl={tbl} wc=1 "
                      f"ab={'-' if abandon_after is None else abandon_after}", wsgi_show(p, rec, probe))

    def trace_case(p, rec, probe, snap, send_fail_at):
        if R.in_model(p) and 'hdr' in snap and not rec['hang']:
            sess_t.case({'plan': p, 'send_fail_at': send_fail_at})
            sess_t.op(R.fzt_line(p, snap, send_fail_at, probe), R.fzt_show(rec['sent'], closes_of(probe), rec['app_exc'] is not None))

    # ------------------------------------------------------------------ one run on one stack
    BASE_ONLY = (asyncio.CancelledError, GeneratorExit, R.ServerStop)

    def go_wsgi(p, abandon_after=None, base_ok=False):
        errs = io.StringIO()

        def once():
            CUR.update(plan=p, snap={}, probe=None, fw_calls=0, stream_obj=None)
            errs.seek(0); errs.truncate()
            w = H.Wire(method=p['method'], target='/', headers=[('Host', 'localhost')])
            env = H.wsgi_environ(w, file_wrapper=CountingFW if p['fw'] else None, errors=errs)
            return H.drive_wsgi(get_app(False, p), env, abandon_after=abandon_after, catch=BASE_ONLY if base_ok else None)
        rec, hung = H.guarded(once)
        if hung:
            rec = {}
        rec['hang'] = hung
        rec['wsgi.errors'] = errs.getvalue()
        return rec, CUR['probe'], CUR['snap']

    def go_asgi(p, send_fail_at=None):
        for timeout in (3.0, 20.0):  # a starved worker may need seconds; only a repeated expiry counts as "did not return"
            CUR.update(plan=p, snap={}, probe=None)
            w = H.Wire(method=p['method'], target='/', headers=[('Host', 'localhost')])
            rec = loop.run_until_complete(H.drive_asgi(get_app(True, p), H.asgi_scope(w), H.asgi_events(b''), send_fail_at=send_fail_at, timeout=timeout))
            if not rec['hang']:
                break
        return rec, CUR['probe'], CUR['snap']

    def go_asgi_task(p, send_fail_at=None, send_class=None, cancel_at_send=None):
        """the application in a task of its own: send() may raise any class, the server may cancel the task (H.drive_asgi_task)"""
        for timeout in (3.0, 20.0):
            CUR.update(plan=p, snap={}, probe=None)
            w = H.Wire(method=p['method'], target='/', headers=[('Host', 'localhost')])
            rec = loop.run_until_complete(H.drive_asgi_task(get_app(True, p), H.asgi_scope(w), H.asgi_events(b''), send_fail_at=send_fail_at,
                                                            send_exc=R.fault_class(send_class or 'oserror'), cancel_at_send=cancel_at_send, timeout=timeout))
            if not rec['hang']:
                break
        return rec, CUR['probe'], CUR['snap']

    # ------------------------------------------------------------------ the oracles (from the property statement)
    def stream_expected(p, asgi):
        """The byte strings the plan's stream provides on that stack, by the documentation of Response.stream: up to the
        failing call; a file-like object up to the first b''; an (async) iterator up to its exhaustion or - ASGI - "as soon
        as it yields None"; a read() that returns None (ASGI) contributes nothing."""
        kind, sfail, exp = p['stream']['kind'], p['stream']['fail'], []
        for i, c in enumerate(R.stream_items(p, asgi)):
            if sfail is not None and i >= sfail:
                break
            if c is R.NONE:
                if kind.startswith('file'):
                    continue
                break
            if kind.startswith('file') and c == b'':
                break
            exp.append(c)
        return exp

    def judge(stack, p, rec, probe, fault):
        asgi = stack == 'asgi'
        case = {'stack': stack, 'plan': p, 'fault': fault}
        fs = final_state(R, p, asgi)
        # (after fixes 4582e3b / 53e3725 an emitter set before a HANDLED error is discarded with the rest of the body: the response is the error's)
        sse = asgi and p['sse'] is not None and not p['raise'] and not fs['render_fails']
        sfail = p['stream']['fail'] if p['stream'] else None
        # what this run injects, and so what may leave the application: the class the stream's failing call raises, the class
        # close() raises, the class the server's send raises, a cancellation of the application's task by the server
        sf_cls = R.fault_class(p['stream'].get('fail_class')) if p['stream'] else R.StreamFault
        close_cls = R.fault_class(p['stream']['close_class']) if p['stream'] and p['stream'].get('close_class') else None
        send_cls = R.fault_class(fault.get('send_class') or 'oserror')
        cancelling = fault.get('cancel_at_send') is not None or (asgi and p['stream'] is not None and p['stream'].get('cancel_at') is not None)

        # --- protocol monitors
        if not asgi:
            if rec.get('hang'):
                hangs[0] += 1
                ctx.oracle('pep3333', False, 'the application did not return', case)
                return
            mon = H.pep3333_monitor(rec)
            if rec['app_exc'] is not None:
                mon.append(f'the application raised {type(rec["app_exc"]).__name__} instead of responding')
            if rec['iter_exc'] is not None and not (isinstance(rec['iter_exc'], sf_cls) and sfail is not None):
                mon.append(f'iterating the body raised {type(rec["iter_exc"]).__name__}')
            if rec.get('close_exc') is not None and not (close_cls is not None and isinstance(rec['close_exc'], close_cls)):
                mon.append(f'close() of the returned iterable raised {type(rec["close_exc"]).__name__}')
            ctx.oracle('pep3333', not mon, '; '.join(mon) or None, case)
            if mon or not rec['start']:
                return
            status_line, hl, _ = rec['start'][0]
            code = int(status_line[:3])
            headers = [(k.lower(), v) for k, v in hl]
            chunks = rec['chunks']
            cut_short = rec['iter_exc'] is not None or fault.get('abandon_after') is not None
            started = True
        else:
            mon = H.asgi_monitor(rec)
            if rec['hang']:
                hangs[0] += 1
            ex = rec['app_exc']
            if ex is not None:
                allowed = (isinstance(ex, sf_cls) and sfail is not None) or (isinstance(ex, send_cls) and rec['send_failed'] and type(ex) is not R.StreamFault) \
                    or (close_cls is not None and isinstance(ex, close_cls)) or (cancelling and isinstance(ex, asyncio.CancelledError))
                if sse and not allowed:
                    # an emitter that raises / an event that cannot be written (data not UTF-8, json not serialisable) is the
                    # application's fault, like a failing stream: the exchange is cut short
                    allowed = (isinstance(ex, R.StreamFault) and p.get('sse_fail') is not None) or \
                              (isinstance(ex, (UnicodeDecodeError, TypeError)) and any(isinstance(e, dict) and sse_unserialisable(e) for e in p['sse']))
                if not allowed:
                    mon.append(f'the application raised {type(ex).__name__}: {ex}')
            ctx.oracle('asgi-http', not mon, '; '.join(mon) or None, case)
            resp = H.asgi_response(rec)
            started = resp is not None
            if mon:
                return
            if not started:
                # nothing reached the server (send of the start event failed): only close-once can be judged
                self_close(case, p, probe, fs, asgi, sse, started=False, bodiless_obs=None)
                return
            code, headers, chunks = resp
            cut_short = rec['app_exc'] is not None or rec['send_failed']
        body = b''.join(chunks)
        names = [k for k, _ in headers]
        hd = dict(headers)
        head = p['method'] == 'HEAD'
        bodiless_obs = head or code in R.BODILESS

        # --- status: the code the server sees is the one the application chose
        if not (p['raise'] and p['raise_after_fill']):
            ok = code == fs['expected_status']
            what = None if ok else f'status {code}, expected {fs["expected_status"]}' + (('; wsgi.errors: ' + rec['wsgi.errors'][-600:]) if not asgi and rec.get('wsgi.errors') else '')
            if ok and not asgi and p['status_form'] in ('line', 'line*', 'bytes-line') and not p['raise'] and not fs['render_fails']:
                ok = status_line == (p['status'].decode('latin-1') if p['status_form'] == 'bytes-line' else p['status'])
                what = None if ok else f'status line {status_line!r} differs from the one set ({p["status"]!r})'
            ctx.oracle('status', ok, what, case)

        # --- no body bytes on HEAD / 100 / 101 / 204 / 304
        if bodiless_obs:
            ctx.oracle('bodiless', body == b'', None if body == b'' else f'{len(body)} body bytes on a {"HEAD" if head else code} response', case)

        streamed = (fs['src'] == 'stream' and not fs['render_fails']) or sse
        # --- Content-Length = body bytes (non-HEAD, body-bearing, non-streamed)
        if not bodiless_obs and not streamed and not cut_short:
            cls = [v for k, v in headers if k == 'content-length']
            ok = cls == [str(len(body))]
            ctx.oracle('content-length', ok, None if ok else f'Content-Length {cls} but {len(body)} body bytes were sent', case)

        # --- a streamed body: the framework does not know its length, so a Content-Length - if any - is the one the application
        #     declared (resp.content_length / set_stream); in particular never "0" in front of body bytes
        if not bodiless_obs and streamed and not sse and not p['raise'] and fs['src'] == 'stream':
            cls = [v for k, v in headers if k == 'content-length']
            want = R.declared_content_length(p)
            ok = cls == ([] if want is None else [want])
            ctx.oracle('stream-content-length', ok, None if ok else
                       f'streamed response: Content-Length {cls}, the application declared {want!r}; {len(body)} body bytes were sent', case)

        # --- precedence text > data > media > stream
        if not bodiless_obs and not p['raise'] and not fs['render_fails'] and not sse:
            src = fs['src']
            wrap = p['resp_class'] == 'render' and src in ('text', 'data', 'media')
            got = body
            ok = True
            if wrap:
                ok = got.startswith(b'<<') and got.endswith(b'>>') and len(got) >= 4
                got = got[2:-2]
            if cut_short and src != 'stream' and body == b'':
                ok = True  # the single body event was not delivered (send failed)
            elif src == 'text':
                ok = ok and got == p['text'].encode('utf-8')
            elif src == 'data':
                ok = ok and got == p['data']
            elif src == 'media':
                try:
                    ok = ok and json.loads(got.decode('utf-8')) == R.MEDIA[p['media']]
                except ValueError:
                    ok = False
            elif src == 'stream':
                exp = b''.join(stream_expected(p, asgi))
                ok = exp.startswith(got) if cut_short else got == exp
            else:
                ok = got == b''
            ctx.oracle('precedence', ok, None if ok else f'body {body!r} is not what the {src} source provides', case)
        if fs['render_fails'] and not bodiless_obs and not sse and not cut_short:
            # F17 regression: the representation the error handler composed is what gets sent
            ctx.oracle('render-error body', body != b'', None if body else 'error raised while rendering: the error handler\'s body was not sent', case)

        # --- Content-Type: none supplied by the framework on 204/304, one on every other response
        if code in R.TYPELESS:
            has = 'content-type' in names
            app_typed = fs['ct_by_app'] or fs['render_fails']
            if not has or app_typed:
                ctx.oracle('typeless', True, None, case)
            elif (fs['src'] == 'media' or R.hist_typed_by_render(p)) and not fs['ct_by_app']:
                # F16 (known finding): render_body() stores the default type on the response while rendering media
                if f16_reported[0] < F16_CAP:
                    f16_reported[0] += 1
                    ctx.oracle('typeless', False, F16_WHAT, case)
                else:
                    ctx.count('typeless_not_evaluated_known_F16_class')
            else:
                ctx.oracle('typeless', False, f'{code} carries Content-Type {hd["content-type"]!r} that the application never set (body source: {fs["src"]})', case)
        else:
            n = names.count('content-type')
            # (with media also set, rendering it types the response first - same root as F16; the statement only asks for *a* type)
            want = 'text/event-stream' if (sse and not bodiless_obs and not fs['ct_by_app'] and fs['src'] != 'media' and not R.hist_typed_by_render(p)) else None
            ok = n == 1 and (want is None or hd['content-type'] == want)
            ctx.oracle('has-content-type', ok, None if ok else (f'{n} Content-Type headers on a {code} response' if n != 1 else f'SSE response typed {hd["content-type"]!r}'), case)

        # --- SSE framing (ASGI): one event per emitted SSEvent, all with more_body, then the final event
        if sse and not bodiless_obs and not cut_short:
            specs = p['sse']
            if p.get('sse_disc') is not None:
                specs = specs[:p['sse_disc'] + 1]   # the client went away after that event
            if all(isinstance(e, str) for e in specs):
                exp = R.sse_expected(specs)
                ok = chunks[:-1] == exp and chunks[-1:] == [b'']
                ctx.oracle('sse', ok, None if ok else f'SSE body events {chunks!r}, expected {exp!r} + final', case)
            else:
                # generated events: one body event per emitted event, each read back by an SSE consumer as that event
                what = None
                if len(chunks) != len(specs) + 1 or chunks[-1] != b'':
                    what = f'{len(chunks)} body events for {len(specs)} SSE events (+ the final empty one)'
                else:
                    for e, ch in zip(specs, chunks):
                        if sse_clean(e):
                            what = sse_event_ok(e, ch)
                            if what:
                                break
                ctx.oracle('sse', what is None, what, case)

        self_close(case, p, probe, fs, asgi, sse, started, bodiless_obs)

    def self_close(case, p, probe, fs, asgi, sse, started, bodiless_obs):
        # --- close() exactly once, once streaming has begun
        if probe is None or p['stream'] is None or p['stream']['kind'] not in ('file', 'iter'):
            return
        begun = started and fs['src'] == 'stream' and not fs['render_fails'] and not sse and bodiless_obs is False
        if p['raise']:
            begun = False if not p['raise_after_fill'] else begun
        life = p['stream'].get('life')
        if life in R.CLOSE_LIVES:
            # the attribute set of the object changes while it is streamed: "its close()" is the close() the object has when the
            # response ends (completed, failed or abandoned by the server) - looked up on the object itself, now
            has_end = probe.has_close_now()
            ok = probe.closed == 1 if begun and has_end else probe.closed <= 1
            ctx.oracle('close-once', ok, None if ok else f'the object assigned to resp.stream ({shape_name(p["stream"])}) has a callable close() when the response has ended '
                       f'(has_close_at_end={has_end}, read()/__next__ calls: {probe.calls}); that close() was called {probe.closed} times after streaming had begun '
                       f'(calls of a close() it had replaced by then: {probe.stale_closed})', case)
            ctx.count('close_once_judged_life_' + life + ('_has_close_at_end' if has_end else '_no_close_at_end') + ('_begun' if begun else ''))
            return
        if begun:
            # the statement's "its close()": the close() of the object the application assigned as resp.stream (probe.closed counts
            # exactly those calls; a close() on an iterator that object handed out is another method: probe.iter_closed)
            ok = probe.closed == 1
            ctx.oracle('close-once', ok, None if ok else f'close() of the object assigned to resp.stream ({shape_name(p["stream"])}) called {probe.closed} times after '
                       f'streaming had begun (close() calls on the iterator it handed out: {probe.iter_closed})', case)
        else:
            ok = probe.closed <= 1
            ctx.oracle('close-once', ok, None if ok else f'stream.close() called {probe.closed} times', case)

    # ------------------------------------------------------------------ case loop
    def with_fail(p, k):
        q = copy.deepcopy(p)
        q['stream']['fail'] = k
        return q

    def both(p, corr=True):
        """Run the plan on both stacks (no server-side fault); feed the oracles and, inside the model's domain, the correspondence."""
        wrec, wprobe, wsnap = go_wsgi(p)
        judge('wsgi', p, wrec, wprobe, {})
        wsgi_case(p, wrec, wprobe, wsnap, None)
        pa = p
        arec, aprobe, asnap = go_asgi(pa)
        judge('asgi', pa, arec, aprobe, {})
        trace_case(pa, arec, aprobe, asnap, None)
        key = json.dumps(p, sort_keys=True, default=repr)
        nontriv = any(p[k] is not None for k in ('text', 'data', 'media', 'stream', 'sse', 'raise'))
        ctx.seen(('w', key), nontriv)
        ctx.seen(('a', key), nontriv)
        none_marker = p['stream'] is not None and p['stream'].get('none_at') is not None
        if corr and R.in_model(p) and not wrec.get('hang') and wrec.get('start') and H.asgi_response(arec) is not None \
                and 'hdr' in wsnap and 'hdr' in asnap:
            st, hl, _ = wrec['start'][0]
            W = R.fz_show(int(st[:3]), hl, wrec['chunks'], wrec['iter_exc'] is not None)
            code, hs_, chunks = H.asgi_response(arec)
            A = R.fz_show(code, hs_, chunks, arec['app_exc'] is not None)
            if none_marker:
                # the two stacks are handed different streams (None exists on ASGI only): tied at the event level (Fn.asgiTraceN)
                ctx.count('in_model_none_marker_event_level_only')
            else:
                sess.case({'plan': p})
                if wsnap != asnap:
                    sess.op(R.fz_line(p, wsnap), 'response state differs between the stacks before finalization: ' + repr((wsnap, asnap)))
                else:
                    sess.op(R.fz_line(p, wsnap), f'W {W} A {A}')
                if p.get('hist') is not None:
                    # the history itself: every render_body() result and the finalization of what it leaves = Fh
                    sess_h.case({'plan': p})
                    if wsnap != asnap:
                        sess_h.op(R.hist_line(p, wsnap), 'response state differs between the stacks before finalization: ' + repr((wsnap, asnap)))
                    else:
                        sess_h.op(R.hist_line(p, wsnap), f"R {R.show_renders(wsnap['renders'])} W {W} A {A}")
            ctx.count('in_model')
        else:
            ctx.count('oracle_only')
        return wrec, arec

    # ================================================================== extension runs (Wg / Fe / Sse models)
    RENDER_OK_TYPES = ('application/json',)
    FAIL_TYPES = ('application/x-fail', 'application/x-fail-async')

    class FailHandler(falcon.media.BaseHandler):
        """A registered media handler whose serialisation raises."""

        def serialize(self, media, content_type):
            raise RuntimeError('media handler failure')

        def deserialize(self, stream, content_type, content_length):
            raise RuntimeError('media handler failure')

    class FailHandlerAsync(FailHandler):
        async def serialize_async(self, media, content_type):
            raise RuntimeError('async media handler failure')

    def w_eh(req, resp, ex, params):
        CUR['eh_calls'] = CUR.get('eh_calls', 0) + 1
        if CUR['plan2'] == 'raise':
            raise RuntimeError('error handler failure')
        CUR['probe2'] = R.fill(resp, CUR['plan2'], False, CUR['snap2'])

    async def a_eh(req, resp, ex, params):
        CUR['eh_calls'] = CUR.get('eh_calls', 0) + 1
        if CUR['plan2'] == 'raise':
            raise RuntimeError('error handler failure')
        CUR['probe2'] = R.fill(resp, CUR['plan2'], True, CUR['snap2'])
    rapps = {}

    def get_rapp(asgi, p):
        key = (asgi, p['dflt'], p['resp_class'])
        if key not in rapps:
            kw = {'media_type': p['dflt']}
            if RC[(asgi, p['resp_class'])] is not None:
                kw['response_type'] = RC[(asgi, p['resp_class'])]
            a = (falcon.asgi.App if asgi else falcon.App)(**kw)
            a.add_route('/', ares() if asgi else wres())
            a.resp_options.media_handlers['application/x-fail'] = FailHandler()
            a.resp_options.media_handlers['application/x-fail-async'] = FailHandlerAsync()
            a.add_error_handler(Exception, a_eh if asgi else w_eh)
            a.add_error_handler(falcon.HTTPError, a_eh if asgi else w_eh)
            rapps[key] = a
        return rapps[key]

    def media_raises(p, hdr):
        """Rendering the media of this response state raises (decided from the documentation: no handler for the type,
        a handler that fails, a value the JSON handler cannot serialise)."""
        if p['media'] is None:
            return False
        ct = dict(hdr).get('content-type') or p['dflt']
        return ct not in RENDER_OK_TYPES or p['media'] == 'unserialisable'

    def state_fields(p, snap, mr, sfx):
        B = lambda b: 'none' if b is None else R.hx(b)  # noqa: E731
        st = p['stream']
        stream = '-' if st is None else ('f' if st['kind'].startswith('file') else 'i') + ':' + (','.join(R.hx(c) for c in st['chunks']) or '.')
        fail = '-' if st is None or st['fail'] is None else st['fail']
        text = None if p['text'] is None else p['text'].encode()
        media = None if p['media'] is None else (b'' if (mr or p['media'] == 'unserialisable') else R.media_bytes(p['media']))
        return (f"status{sfx}={p['code']} text{sfx}={B(text)} data{sfx}={B(p['data'])} media{sfx}={B(media)} stream{sfx}={stream} fail{sfx}={fail} "
                f"hdr{sfx}={';'.join(R.hs(k) + ':' + R.hs(v) for k, v in snap['hdr']) or '.'} "
                f"cookies{sfx}={';'.join(R.hs(c) for c in snap['cookies']) or '.'}")

    def gen_rerr(rnd):
        p = gen_plan(rnd, sse_ok=False, errors_ok=False, framing_ok=True)
        p['resp_class'] = rnd.choice(['std', 'std', 'sub'])
        p['extra_set_cookie'] = False
        if rnd.random() < 0.85:
            p['text'] = p['data'] = None
            p['media'] = rnd.choice(['dict', 'dict', 'empty-dict', 'zero', 'str', 'list'])
            cause = rnd.choice(['ct', 'ct', 'dflt', 'unser', 'handler', 'handler-async', 'none'])
            if cause == 'ct':
                p['ct'] = rnd.choice(['application/x-unknown', 'text/x-custom'])
            elif cause == 'dflt':
                p['ct'], p['dflt'] = None, 'text/plain'
            elif cause == 'unser':
                p['media'] = 'unserialisable'
                p['ct'] = rnd.choice([None, 'application/json'])
                p['dflt'] = 'application/json'
            elif cause == 'handler':
                p['ct'] = 'application/x-fail'
            elif cause == 'handler-async':
                p['ct'] = 'application/x-fail-async'
        return p

    def gen_rerr2(rnd):
        if rnd.random() < 0.06:
            return 'raise'
        p2 = gen_plan(rnd, sse_ok=False, errors_ok=False, framing_ok=True)
        p2['extra_set_cookie'] = False
        r = rnd.random()
        if r < 0.3:      # what the handler leaves cannot be rendered either
            p2['text'] = p2['data'] = None
            p2['media'] = rnd.choice(['dict', 'unserialisable', 'str'])
            p2['ct'] = rnd.choice(['application/x-unknown', 'application/x-fail', 'application/x-fail-async']) if p2['media'] != 'unserialisable' else 'application/json'
        elif r < 0.55:   # a JSON representation, explicitly typed (what the stock serializer does)
            p2['text'] = None
            p2['ct'] = 'application/json'
            if p2['data'] is None and p2['media'] is None:
                p2['data'] = b'{"title": "err"}'
        return p2

    def rerr_show_w(rec):
        if rec.get('hang'):
            return 'hang'
        if rec['app_exc'] is not None:
            return 'raised'
        st, hl, _ = rec['start'][0]
        return R.fz_show(int(st[:3]), hl, rec['chunks'], rec['iter_exc'] is not None)

    def rerr_show_a(rec):
        if rec['hang']:
            return 'hang'
        resp = H.asgi_response(rec)
        if resp is None:
            return 'raised' if rec['app_exc'] is not None else 'nothing'
        code, hs_, chunks = resp
        return R.fz_show(code, hs_, chunks, rec['app_exc'] is not None)

    def judge_rerr(stack, p, p2, rec, mr, mr2):
        """Oracles of the render-error path, from the property statement + the documented error handling."""
        asgi = stack == 'asgi'
        case = {'stack': stack, 'plan': p, 'handler_plan': p2, 'first_render_raises': mr, 'second_render_raises': mr2}
        handler_raises = mr and p2 == 'raise'
        sfails = [q['stream']['fail'] for q in (p, p2) if isinstance(q, dict) and q['stream'] is not None]
        if rec.get('hang'):
            ctx.oracle('asgi-http' if asgi else 'pep3333', False, 'the application did not return', case)
            return
        ex = rec['app_exc']
        if not asgi:
            mon = H.pep3333_monitor(rec)
            if ex is not None and not handler_raises:
                mon.append(f'the application raised {type(ex).__name__} instead of responding')
            if rec['iter_exc'] is not None and not (isinstance(rec['iter_exc'], R.StreamFault) and any(f is not None for f in sfails)):
                mon.append(f'iterating the body raised {type(rec["iter_exc"]).__name__}')
            ctx.oracle('pep3333', not mon, '; '.join(mon) or None, case)
            if mon or ex is not None:
                return
            status_line, hl, _ = rec['start'][0]
            code, headers, chunks = int(status_line[:3]), [(k.lower(), v) for k, v in hl], rec['chunks']
            cut_short = rec['iter_exc'] is not None
        else:
            mon = H.asgi_monitor(rec)
            if ex is not None and not handler_raises and not (isinstance(ex, R.StreamFault) and any(f is not None for f in sfails)):
                mon.append(f'the application raised {type(ex).__name__}: {ex}')
            ctx.oracle('asgi-http', not mon, '; '.join(mon) or None, case)
            resp = H.asgi_response(rec)
            if mon or resp is None:
                return
            code, headers, chunks = resp
            cut_short = ex is not None
        if not mr or p2 == 'raise':
            return   # the ordinary path is judged by the main loop
        body = b''.join(chunks)
        bodiless_obs = p['method'] == 'HEAD' or code in R.BODILESS
        ok = code == p2['code']
        ctx.oracle('status', ok, None if ok else f'status {code}, the error handler set {p2["code"]}', case)
        if bodiless_obs:
            ctx.oracle('bodiless', body == b'', None if body == b'' else f'{len(body)} body bytes on a {"HEAD" if p["method"] == "HEAD" else code} response', case)
            return
        src2 = next((x for x in ('text', 'data', 'media') if p2[x] is not None), None)
        stream2 = p2['stream'] or p['stream']
        cls = [v for k, v in headers if k == 'content-length']
        if mr2:
            ok = body == b'' and cls == ['0']
            ctx.oracle('render-error body', ok, None if ok else f'rendering failed twice: body {body!r}, Content-Length {cls} (expected an empty body, length 0)', case)
            return
        if src2 is not None:
            if src2 == 'text':
                ok = body == p2['text'].encode()
            elif src2 == 'data':
                ok = body == p2['data']
            else:
                try:
                    ok = json.loads(body.decode('utf-8')) == R.MEDIA[p2['media']]
                except ValueError:
                    ok = False
            ctx.oracle('render-error body', ok, None if ok else f'error raised while rendering: body {body!r} is not the {src2} the error handler set', case)
            ok = cls == [str(len(body))]
            ctx.oracle('content-length', ok, None if ok else f'Content-Length {cls} but {len(body)} body bytes were sent', case)
        elif stream2 is not None:
            exp = []
            for i, c in enumerate(stream2['chunks']):
                if stream2['fail'] is not None and i >= stream2['fail']:
                    break
                if stream2['kind'].startswith('file') and c == b'':
                    break
                exp.append(c)
            exp = b''.join(exp)
            ok = exp.startswith(body) if cut_short else body == exp
            ctx.oracle('render-error body', ok, None if ok else f'body {body!r} is not what the stream left on the response provides', case)
        else:
            ok = body == b'' and cls == ['0']
            ctx.oracle('render-error body', ok, None if ok else f'body {body!r}, Content-Length {cls} for a handler response without a body', case)

    def go_rerr(asgi, p, p2):
        CUR.update(plan=p, plan2=p2, snap={}, snap2={}, probe=None, probe2=None, eh_calls=0, fw_calls=0, stream_obj=None)
        w = H.Wire(method=p['method'], target='/', headers=[('Host', 'localhost')])
        if asgi:
            for timeout in (3.0, 20.0):
                CUR.update(snap={}, snap2={}, probe=None, probe2=None, eh_calls=0)
                rec = loop.run_until_complete(H.drive_asgi(get_rapp(True, p), H.asgi_scope(w), H.asgi_events(b''), timeout=timeout))
                if not rec['hang']:
                    break
        else:
            def once():
                CUR.update(snap={}, snap2={}, probe=None, probe2=None, eh_calls=0, fw_calls=0)
                env = H.wsgi_environ(w, file_wrapper=CountingFW if p['fw'] else None, errors=io.StringIO())
                return H.drive_wsgi(get_rapp(False, p), env)
            rec, hung = H.guarded(once)
            if hung:
                rec = {}
            rec['hang'] = hung
        return rec, dict(CUR['snap']), dict(CUR['snap2']), CUR['eh_calls']

    def rerr_run(n):
        for _ in range(n):
            p, p2 = gen_rerr(rnd), gen_rerr2(rnd)
            wrec, wsnap, wsnap2, wcalls = go_rerr(False, p, p2)
            arec, asnap, asnap2, acalls = go_rerr(True, p, p2)
            key = json.dumps([p, p2], sort_keys=True, default=repr)
            ctx.seen(('rerr', key), True)
            if 'hdr' not in wsnap or 'hdr' not in asnap:
                continue
            mr = media_raises(p, wsnap['hdr']) and p['text'] is None and p['data'] is None
            mr2 = False
            if mr and p2 != 'raise' and 'hdr' in wsnap2:
                mr2 = media_raises(p2, wsnap2['hdr']) and p2['text'] is None and p2['data'] is None
            judge_rerr('wsgi', p, p2, wrec, mr, mr2)
            judge_rerr('asgi', p, p2, arec, mr, mr2)
            ok = wcalls == acalls == (1 if mr else 0)
            ctx.oracle('render-error handled once', ok, None if ok else f'error handler ran {wcalls} (WSGI) / {acalls} (ASGI) times, rendering raises: {mr}',
                       {'plan': p, 'handler_plan': p2})
            ctx.count('rerr_' + ('no_error' if not mr else 'handler_raises' if p2 == 'raise' else 'twice' if mr2 else 'handled'))
            line = ('rerr ' + state_fields(p, wsnap, mr, '') + f" head={1 if p['method'] == 'HEAD' else 0} dflt={R.hs(p['dflt'])} fw={1 if p['fw'] else 0} mr={1 if mr else 0} ")
            if not mr:
                line += 'h=0'
            elif p2 == 'raise':
                line += 'h=0'
            else:
                if wsnap2 != asnap2 or 'hdr' not in wsnap2:
                    sess_e.case({'plan': p, 'handler_plan': p2})
                    sess_e.op(line + 'h=0', 'response state differs between the stacks after the error handler: ' + repr((wsnap2, asnap2)))
                    continue
                line += 'h=1 ' + state_fields(p2, wsnap2, mr2, '2') + f" mr2={1 if mr2 else 0}"
            sess_e.case({'plan': p, 'handler_plan': p2})
            if wsnap != asnap:
                sess_e.op(line, 'response state differs between the stacks before finalization: ' + repr((wsnap, asnap)))
            else:
                sess_e.op(line, f'W {rerr_show_w(wrec)} A {rerr_show_a(arec)}')

    # ------------------------------------------------------------------ status table / invalid numeric status (WSGI)
    def status_run():
        if ctx.shard[0] != 0:
            return
        import re as _re
        bad = [k for k in dir(falcon.status_codes) if _re.fullmatch(r'HTTP_\d+', k)
               and not _re.fullmatch(k[5:] + r' \S(.*\S)?', getattr(falcon.status_codes, k))]
        ctx.oracle('status-table', not bad, None if not bad else f'falcon.status_codes entries not of the form "<code> <phrase>": {bad}', {'entries': bad})
        for n in (0, 7, 42, 99, 1000, 2000, 65536):
            p = gen_plan(rnd, sse_ok=False, errors_ok=False)
            p.update(status_form='int', status=n, code=n, resp_class='std', extra_set_cookie=False, media=None, method='GET')
            rec, probe, snap = go_wsgi(p)
            if 'hdr' in snap and not rec.get('hang'):
                sess_w.case({'plan': p, 'invalid_status': n})
                sess_w.op('wsgi ' + R.fz_line(p, snap)[5:] + f" close={1 if has_close_w(p, probe) else 0} sv=c:{n} tbl=none wc=1 ab=-", wsgi_show(p, rec, probe))
            ctx.seen(('bad-status', n), True)

    # ------------------------------------------------------------------ the STATUS space, exhaustively (after seed C05_13)
    SWEEP_CODES = list(range(100, 600)) + [600, 799, 999]
    SWEEP_SOURCES = ['none', 'text', 'data', 'media', 'stream']

    def spellings_of(n):
        """every accepted way to say "status n" on a response: [(form, value)]"""
        import http
        out = [('int', n), ('code-prop', n), ('code-str', str(n)), ('line*', '%d Custom Reason' % n), ('bytes-line', b'%d Custom bytes' % n)]
        ent = getattr(falcon.status_codes, 'HTTP_%d' % n, None)
        if ent is not None:
            out.append(('line', ent))
        if n in http.HTTPStatus._value2member_map_:
            out.append(('enum', n))
        return out

    def status_class(n):
        return ('100_101' if n in (100, 101) else 'other_1xx' if n < 200 else '204_304' if n in (204, 304) else
                '%dxx' % (n // 100) if n < 600 else 'beyond_599')

    def sweep_plan(n, form, value, source, method):
        p = gen_plan(rnd, sse_ok=False, errors_ok=False)
        p.pop('hist', None)
        p.update(status_form=form, status=value, code=n, method=method, text=None, data=None, media=None, resp_class='std', extra_set_cookie=False)
        if source != 'stream':
            p['stream'] = None
        elif p['stream'] is None:
            p['stream'] = {'kind': rnd.choice(R.SYNC_KINDS), 'chunks': [rnd.choice(R.CHUNKS) for _ in range(rnd.randint(1, 3))], 'fail': None}
            R.gen_shape(rnd, p['stream'])
        if p['stream'] is not None:
            p['stream']['fail'] = None
        if source == 'text':
            p['text'] = rnd.choice(R.TEXTS[:2])
        elif source == 'data':
            p['data'] = rnd.choice(R.DATAS[:2])
        elif source == 'media':
            p['media'] = rnd.choice(['dict', 'zero', 'list'])
            if p['ct'] not in (None, 'application/json'):
                p['ct'] = None
            p['dflt'] = 'application/json'
        return p

    def stacks_agree(p, wrec, arec):
        """Both interfaces are under the same statement: the code the server sees, the body bytes, and - non-HEAD, body-bearing status,
        non-streamed body - the Content-Length are fixed by it, so they are the same on WSGI and ASGI; so is whether a Content-Type is there."""
        aresp = H.asgi_response(arec)
        if wrec.get('hang') or wrec.get('app_exc') is not None or not wrec.get('start') or aresp is None or arec['app_exc'] is not None:
            return
        st, hl, _ = wrec['start'][0]
        code, hs_, chunks = aresp
        plain = p['method'] != 'HEAD' and p['code'] not in R.BODILESS and R.effective_source(p) != 'stream'
        pick = lambda c, hl_, body: (c, body, [v for k, v in hl_ if k.lower() == 'content-length'] if plain else None,  # noqa: E731
                                     any(k.lower() == 'content-type' for k, _ in hl_))
        W, A = pick(int(st[:3]), hl, b''.join(wrec['chunks'])), pick(code, hs_, b''.join(chunks))
        ctx.oracle('stacks-agree', W == A, None if W == A else f'(status, body, Content-Length, has Content-Type): WSGI {W!r}, ASGI {A!r}',
                   {'plan': p})

    def status_sweep():
        """Every status code 100..599 (+ 600, 799, 999) in every accepted spelling, with a body source, on both stacks - judged by the
        statement's explicit sets (R.BODILESS = 100/101/204/304, R.TYPELESS = 204/304) in judge(), and the two stacks against each other."""
        i, k = ctx.shard
        for n in SWEEP_CODES[i::k]:
            for form, value in spellings_of(n):
                # quick: one body source per (code, spelling), a HEAD now and then; thorough: every source, GET and HEAD
                combos = [(s_, m) for s_ in SWEEP_SOURCES for m in ('GET', 'HEAD')] if not ctx.quick else \
                    [(rnd.choice(SWEEP_SOURCES[1:] if rnd.random() < 0.85 else SWEEP_SOURCES), 'HEAD' if rnd.random() < 0.1 else rnd.choice(['GET', 'GET', 'POST']))]
                for source, method in combos:
                    p = sweep_plan(n, form, value, source, method)
                    wrec, arec = both(p)
                    stacks_agree(p, wrec, arec)
                    ctx.count('sweep_status_' + status_class(n))
                    ctx.count('sweep_spelling_' + form)
                    ctx.count('sweep_body_source_' + source + ('_HEAD' if method == 'HEAD' else ''))

    # ------------------------------------------------------------------ SSE
    SSE_STRS =['', 'x', 'hi thére', 'a: b', ':lead', ' sp', 'tab\there', '日本', 'two\nlines', 'cr\rhere', 'end\n', '0']
    SSE_DATAS = [b'', b'raw', b'caf\xc3\xa9', b'\xe2\x82\xac', b'\xf0\x9f\x98\x80', b'\xff', b'\xc0\xaf', b'\xed\xa0\x80', b'\xf4\x90\x80\x80',
                 b'\xe0\x9f\xbf', b'\xc3', b'a\nb', b'\xef\xbf\xbd', b'\xed\x9f\xbf', b'\xf4\x8f\xbf\xbf', b'\xf0\x8f\xbf\xbf', b'\x80']
    SSE_JSON_KEYS = list(R.SSE_JSONS) + ['unserialisable']

    def gen_sse_event(rnd):
        if rnd.random() < 0.1:
            return 'none'
        e = {k: None for k in ('data', 'text', 'json', 'event', 'event_id', 'retry', 'comment')}
        if rnd.random() < 0.25:
            e['data'] = bytes(rnd.randrange(256) for _ in range(rnd.randint(1, 4))) if rnd.random() < 0.3 else rnd.choice(SSE_DATAS)
        if rnd.random() < 0.5:
            e['text'] = rnd.choice(SSE_STRS)
        if rnd.random() < 0.35:
            e['json'] = rnd.choice(SSE_JSON_KEYS)
        if rnd.random() < 0.4:
            e['event'] = rnd.choice(SSE_STRS)
        if rnd.random() < 0.35:
            e['event_id'] = rnd.choice(SSE_STRS)
        if rnd.random() < 0.3:
            e['retry'] = rnd.choice([0, 5, -5, 1000, 10 ** 20, 7, -1])
        if rnd.random() < 0.35:
            e['comment'] = rnd.choice(SSE_STRS)
        return e

    def ev_tok(e):
        if e == 'none':
            return 'N'
        fs = []
        if e['data'] is not None:
            fs.append('d:' + R.hx(e['data']))
        if e['text'] is not None:
            fs.append('t:' + R.hx(e['text'].encode()))
        if e['json'] is not None:
            fs.append('j:' + ('raises' if e['json'] == 'unserialisable' else R.hx(json.dumps(R.SSE_JSONS[e['json']], ensure_ascii=False).encode())))
        if e['event'] is not None:
            fs.append('e:' + R.hx(e['event'].encode()))
        if e['event_id'] is not None:
            fs.append('i:' + R.hx(e['event_id'].encode()))
        if e['retry'] is not None:
            fs.append('r:%d' % e['retry'])
        if e['comment'] is not None:
            fs.append('c:' + R.hx(e['comment'].encode()))
        return ','.join(fs) or 'E'

    def sse_unserialisable(e):
        """The event cannot be written: its data is not UTF-8 text / its json value is not JSON (decided with the stdlib codecs)."""
        if e == 'none':
            return False
        if e['data'] is not None:
            import codecs
            try:
                codecs.getdecoder('utf-8')(e['data'], 'strict')
                return False
            except UnicodeDecodeError:
                return True
        return e['text'] is None and e['json'] == 'unserialisable'

    def sse_interpret(stream):
        """The event-stream interpretation of the HTML standard (9.2.6), independent of falcon: the list of blocks."""
        import re as _re
        lines = _re.split('\r\n|\n|\r', stream.decode('utf-8'))
        blocks, cur = [], {'data': [], 'event': None, 'id': None, 'retry': None, 'comments': [], 'other': []}
        for line in lines[:-1]:
            if line == '':
                blocks.append(cur)
                cur = {'data': [], 'event': None, 'id': None, 'retry': None, 'comments': [], 'other': []}
            elif line.startswith(':'):
                cur['comments'].append(line[1:])
            else:
                name, _, value = line.partition(':')
                if value.startswith(' '):
                    value = value[1:]
                if name == 'event':
                    cur['event'] = value
                elif name == 'data':
                    cur['data'].append(value)
                elif name == 'id':
                    cur['id'] = value
                elif name == 'retry':
                    cur['retry'] = value
                else:
                    cur['other'].append((name, value))
        return blocks, lines[-1], cur

    def sse_event_ok(e, chunk):
        """None if the chunk, read by an SSE consumer, is exactly the event that was emitted; else what is wrong.
        Only for events whose values contain no line break (falcon does not split multi-line values)."""
        if sse_unserialisable(e):
            return f'the chunk {chunk!r} was produced for an event that cannot be written (data not UTF-8 / json not serialisable)'
        try:
            blocks, rest, cur = sse_interpret(chunk)
        except UnicodeDecodeError:
            return 'the chunk is not UTF-8'
        empty = {'data': [], 'event': None, 'id': None, 'retry': None, 'comments': [], 'other': []}
        if len(blocks) != 1 or rest != '' or cur != empty:
            return f'{len(blocks)} event blocks / trailing {rest!r}'
        b = blocks[0]
        if e == 'none' or all(v is None for v in e.values()):
            want = {'data': [], 'event': None, 'id': None, 'retry': None, 'comments': [' ping'], 'other': []}
        else:
            if e['data'] is not None:
                d = [e['data'].decode('utf-8')]
            elif e['text'] is not None:
                d = [e['text']]
            elif e['json'] is not None:
                d = None   # compared as JSON
            else:
                d = []
            want = {'data': d, 'event': e['event'], 'id': e['event_id'], 'retry': None if e['retry'] is None else str(e['retry']),
                    'comments': [] if e['comment'] is None else [' ' + e['comment']], 'other': []}
            if d is None:
                try:
                    if len(b['data']) != 1 or json.loads(b['data'][0]) != R.SSE_JSONS[e['json']]:
                        return f'data field {b["data"]!r} is not the JSON value'
                except ValueError:
                    return f'data field {b["data"]!r} is not JSON'
                want['data'] = b['data']
        return None if b == want else f'read back {b!r}, emitted {want!r}'

    def sse_clean(e):
        return e == 'none' or not any(isinstance(v, (str, bytes)) and (('\n' in v or '\r' in v) if isinstance(v, str) else (b'\n' in v or b'\r' in v))
                                      for k, v in e.items() if k != 'json')

    def ser_run(n):
        from falcon.asgi import SSEvent
        for _ in range(n):
            e = gen_sse_event(rnd)
            if e == 'none':
                e = {k: None for k in ('data', 'text', 'json', 'event', 'event_id', 'retry', 'comment')}
            ev = R.sse_events([e])[0]
            try:
                out = ev.serialize()
                shown = R.hx(out)
            except (UnicodeDecodeError, TypeError) as ex:
                out, shown = ex, 'raises'
            sess_ser.case({'event': e})
            sess_ser.op('ser ev=' + ev_tok(e), shown)
            ctx.seen(('ser', json.dumps(e, sort_keys=True, default=repr)), True)
            bad = sse_unserialisable(e)
            if bad or isinstance(out, Exception):
                ok = bad and isinstance(out, Exception)
                ctx.oracle('sse-serialize', ok, None if ok else (f'serialize raised {out!r} for a writable event' if not bad else f'serialize returned {out!r} for an event that cannot be written'), {'event': e})
                ctx.count('ser_raises')
            elif sse_clean(e):
                what = sse_event_ok(e, out)
                ctx.oracle('sse-serialize', what is None, what, {'event': e, 'chunk': out})
                ctx.count('ser_clean')
            else:
                ctx.count('ser_multiline_value_not_evaluated')

    async def drive_gate(app, scope, events, gate, send_fail_at, timeout):
        """H.drive_asgi with a client that disconnects when `gate` is set (http.disconnect is what receive() then returns)."""
        rec = {'attempts': [], 'sent': [], 'app_exc': None, 'hang': False, 'send_failed': False, 'complete': False, 'receives': 0}
        q = list(events)

        async def receive():
            rec['receives'] += 1
            if q:
                return q.pop(0)
            await gate.wait()
            return {'type': 'http.disconnect'}

        async def send(msg):
            idx = len(rec['attempts'])
            rec['attempts'].append(msg)
            if send_fail_at is not None and idx == send_fail_at:
                rec['send_failed'] = True
                raise OSError('send failed: peer went away')
            rec['sent'].append(msg)
        try:
            await asyncio.wait_for(app(scope, receive, send), timeout)
            rec['complete'] = True
        except asyncio.TimeoutError:
            rec['hang'] = True
        except Exception as e:  # noqa
            rec['app_exc'] = e
        return rec

    def go_sse(p, send_fail_at=None):
        async def runit(timeout):
            gate = asyncio.Event()

            async def hook(i):
                if p.get('sse_fail') == i:
                    raise R.StreamFault(f'emitter fault at event {i}')
                if p.get('sse_disc') == i:
                    gate.set()
                    for _ in range(6):
                        await asyncio.sleep(0)
            R.SSE_HOOK = hook
            try:
                w = H.Wire(method=p['method'], target='/', headers=[('Host', 'localhost')])
                rec = await drive_gate(get_app(True, p), H.asgi_scope(w), H.asgi_events(b''), gate, send_fail_at, timeout)
            finally:
                R.SSE_HOOK = None
            # the watcher task is left pending when an exception ends the SSE loop: reap it
            for t in asyncio.all_tasks():
                if t is not asyncio.current_task():
                    t.cancel()
            await asyncio.sleep(0)
            return rec
        for timeout in (3.0, 20.0):
            CUR.update(plan=p, snap={}, probe=None)
            rec = loop.run_until_complete(runit(timeout))
            if not rec['hang']:
                break
        return rec, CUR['probe'], CUR['snap']

    def sse_in_model(p):
        return (p['raise'] is None and p['resp_class'] != 'render' and not p['extra_set_cookie'] and not R.render_fails(p)
                and p['media'] != 'unserialisable')

    def sse_case(p, rec, probe, snap, send_fail_at):
        if sse_in_model(p) and 'hdr' in snap and not rec['hang']:
            has_close = R.has_close_end(p, probe)
            f = lambda v: '-' if v is None else v  # noqa: E731
            sess_s.case({'plan': p, 'send_fail_at': send_fail_at})
            sess_s.op('sse ' + R.fz_line(p, snap)[5:] + f" close={1 if has_close else 0} evs={';'.join(ev_tok(e) for e in p['sse']) or '.'} "
                      f"ef={f(p.get('sse_fail'))} disc={f(p.get('sse_disc'))} xf={f(send_fail_at)}",
                      R.fzt_show(rec['sent'], closes_of(probe), rec['app_exc'] is not None))

    def sse_run(n):
        for _ in range(n):
            p = gen_plan(rnd, sse_ok=False, errors_ok=False, framing_ok=True)
            if rnd.random() < 0.7:
                p['method'] = rnd.choice(['GET', 'GET', 'POST'])
            if rnd.random() < 0.6:
                p.update(status_form='int', status=200, code=200)
            p['sse'] = [gen_sse_event(rnd) for _ in range(rnd.randint(0, 4))]
            if rnd.random() < 0.55:   # mostly writable events, so that the later ones are reached
                p['sse'] = [e for e in p['sse'] if not sse_unserialisable(e)]
            p['sse_fail'] = p['sse_disc'] = None
            key = json.dumps(p, sort_keys=True, default=repr)

            def one(q, xf, tag):
                rec, probe, snap = go_sse(q, send_fail_at=xf)
                judge('asgi', q, rec, probe, {'send_fail_at': xf, 'sse_fail': q['sse_fail'], 'sse_disc': q['sse_disc']})
                sse_case(q, rec, probe, snap, xf)
                ctx.seen(('sse', key, tag), True)
                ctx.count('sse_runs_' + tag.split(':')[0])
                return rec
            rec0 = one(p, None, 'plain')
            nev = len(p['sse'])
            for k in range(len(rec0['attempts']) + 1):
                one(p, k, f'xf:{k}')
            for k in range(nev + 1):
                one(dict(p, sse_fail=k), None, f'ef:{k}')
            for k in range(nev):
                one(dict(p, sse_disc=k), None, f'disc:{k}')
            if nev and rnd.random() < 0.5:   # a combination of faults
                q = dict(p, sse_fail=rnd.choice([None, rnd.randint(0, nev)]), sse_disc=rnd.choice([None, rnd.randint(0, nev - 1)]))
                one(q, rnd.choice([None, rnd.randint(0, nev + 2)]), 'combo')

    def count_framing(p, fs):
        """The evidence table of the application-set headers that interact with framing, by body source."""
        src = str(fs['src']) + ('_raised_' + p['raise'] if p['raise'] else '')
        if p['cl'] is not None:
            right = R.right_length(p) is not None and str(p['cl']) == str(R.right_length(p))
            ctx.count('explicit_content_length_' + ('right' if right else 'wrong') + '_set_by_' + p.get('cl_how', 'property'))
        for how, name, value in p.get('framing') or []:
            ctx.count('app_header_' + name.lower() + '_src_' + src)
            ctx.count('app_header_set_by_' + how)
            if name.lower() == 'transfer-encoding':
                ctx.count('app_header_transfer-encoding_value_' + value.replace(', ', '+') + ('_with_explicit_content_length' if p['cl'] is not None else ''))
        if not p.get('framing'):
            ctx.count('app_header_no_framing_header')

    def count_dims(p):
        """The evidence table of the two history-like dimensions: how the stream ends, and assignment / render histories."""
        st = p['stream']
        if st is not None:
            ctx.count('stream_object_shape_' + shape_name(st))
            ctx.count('stream_object_truth_' + str(st.get('truth')))
            ctx.count('stream_object_handed_over_by_' + ('set_stream' if st.get('declared') is not None else 'assignment'))
            na = st.get('none_at')
            what = 'exhaustion' if na is None else 'None_after_last_chunk' if na == len(st['chunks']) else 'None_early'
            ctx.count('asgi_stream_end_' + ('file_' if st['kind'].startswith('file') else 'iter_') + what)
        h = p.get('hist')
        if h is None:
            ctx.count('fill_single_shot')
            return
        ctx.count('fill_history')
        ctx.count('fill_history_headers_' + ('first' if R.hist_hdr_first(p) else 'last'))
        ctx.count('fill_history_renders_%d' % sum(1 for op in h if op[0] == 'render'))
        ctx.count('fill_history_ops_%d' % min(len(h), 9))
        cur, seen_render_of = {'text': None, 'data': None, 'media': None}, None
        for op in h:
            if op[0] == 'render':
                seen_render_of = next((k for k in ('text', 'data', 'media') if cur[k] is not None), 'nothing')
                ctx.count('fill_history_render_sees_' + seen_render_of)
            else:
                if seen_render_of is not None:
                    ctx.count(f'fill_history_assign_{op[0]}{"_None" if op[1] is None else ""}_after_render_of_{seen_render_of}')
                cur[op[0]] = op[1]

    # ------------------------------------------------------------------ HOW streaming ends (after seed C05_7)
    SEND_CLASSES = ['oserror', 'cancelled', 'generator_exit', 'base']

    # every stream OBJECT shape: (kind, shape, also_iter) - close() on the iterable only / on the iterator only / on both / on neither
    # + the lifetime of its attribute set (R.LIVES; after seed C05_17): close appearing with / rebound by the first call, removed at the end
    OBJ_SHAPES = ([(k, sh, False, None) for k in ('iter', 'iter-noclose') for sh in R.SHAPES] +
                  [(k, None, ai, None) for k in ('file', 'file-noclose') for ai in (False, True)])
    LIFE_SHAPES = ([(k, None, False, lf) for lf in R.CLOSE_LIVES for k in ('file', 'iter')] +
                   [('file', None, False, 'read_rebound_by_first_call'), ('iter', 'sep', False, 'close_bound_by_first_call')])

    def shape_name(st):
        return (st['kind'] + ('_' + st['shape'] if st.get('shape') else '') + ('_also_iterable' if st.get('also_iter') else '') +
                ('_' + st['life'] if st.get('life') else ''))

    def gen_streamed(rnd, obj=None):
        """a plan whose body is taken from a stream object with (mostly) a close() method; obj = its (kind, shape, also_iter)"""
        p = gen_plan(rnd, sse_ok=False, errors_ok=False, none_ok=True, obj_ok=True, framing_ok=True)
        p.update(text=None, data=None, media=None, resp_class=rnd.choice(['std', 'std', 'sub']), extra_set_cookie=False)
        if rnd.random() < 0.85:
            p['method'] = rnd.choice(['GET', 'GET', 'POST', 'PUT'])
        if rnd.random() < 0.85:
            p.update(rnd.choice([dict(status_form='int', status=200, code=200), dict(status_form='int', status=404, code=404),
                                 dict(status_form='line', status='200 OK', code=200), dict(status_form='enum', status=201, code=201)]))
        kind = rnd.choice(['file', 'file', 'file', 'iter', 'iter', 'iter', 'file-noclose', 'iter-noclose'])
        ch = [rnd.choice(R.CHUNKS) for _ in range(rnd.randint(0, 4))]
        st = {'kind': kind, 'chunks': ch, 'fail': None, 'none_at': rnd.choice([None, None, None, len(ch)])}
        if obj is not None:
            st['kind'] = obj[0]
            if obj[1] is not None:
                st['shape'] = obj[1]
            if obj[2]:
                st['also_iter'] = True
            if obj[3]:
                st['life'] = obj[3]
        if p['stream'] is not None:
            st.update({k: v for k, v in p['stream'].items() if k in ('truth', 'declared')})
            if st.get('declared') is not None:
                st['declared'] = R.declared_length(st)
        p['stream'] = st
        p.pop('hist', None)
        return p

    def endings_run(n):
        """Every way streaming can end x every position: the stream's failing call / the server's send / close() itself raise an
        Exception subclass or a BaseException-only class (asyncio.CancelledError, GeneratorExit, a server's own BaseException), or the
        server cancels the application's task while it is suspended in a stream call, in a send or in close().  Both stacks where it
        has a meaning (WSGI: the stream's failing call and close(); the PEP 3333 server owes close() whatever the class)."""
        def variant(p, **kw):
            q = copy.deepcopy(p)
            q['stream'].update(kw)
            return q

        def one_asgi(q, model_plan, tag, xf=None, send_class=None, cancel_at_send=None, cf=False):
            rec, probe, snap = go_asgi_task(q, send_fail_at=xf, send_class=send_class, cancel_at_send=cancel_at_send)
            fault = {'send_fail_at': xf, 'send_class': send_class, 'cancel_at_send': cancel_at_send, 'ending': tag}
            judge('asgi', q, rec, probe, fault)
            if model_plan is not None:
                # to the model "raises" has no class (`finally`): the same line as for an Exception at that position
                mxf = xf if xf is not None else cancel_at_send
                if R.in_model(model_plan) and 'hdr' in snap and not rec['hang']:
                    sess_t.case({'plan': q, 'fault': fault})
                    # cf=1: close() itself fails when it is called (Fc.asgiTraceC)
                    sess_t.op(R.fzt_line(model_plan, snap, mxf, probe) + (' cf=1' if cf else ''), R.fzt_show(rec['sent'], closes_of(probe), rec['app_exc'] is not None))
            ctx.seen(('ending-a', json.dumps(q, sort_keys=True, default=repr), tag, xf, send_class, cancel_at_send), True)
            ctx.count('ending_asgi_' + tag)
            return rec

        def one_wsgi(q, model_plan, tag):
            rec, probe, snap = go_wsgi(q, base_ok=True)
            judge('wsgi', q, rec, probe, {'ending': tag})
            if model_plan is not None:
                wsgi_case(model_plan, rec, probe, snap, None)
            ctx.seen(('ending-w', json.dumps(q, sort_keys=True, default=repr), tag), True)
            ctx.count('ending_wsgi_' + tag)

        for i in range(n):
            # the object shapes in turn (each shard starts at another one): every shape meets every ending
            # (every third plan: an object whose attribute set changes while it is streamed)
            if i % 3 == 2:
                p = gen_streamed(rnd, LIFE_SHAPES[(i // 3 + 3 * ctx.shard[0]) % len(LIFE_SHAPES)])
            else:
                p = gen_streamed(rnd, OBJ_SHAPES[(i - i // 3 + 5 * ctx.shard[0]) % len(OBJ_SHAPES)])
            ctx.count('ending_plans_stream_object_' + shape_name(p['stream']))
            ncalls = len(R.stream_items(p, True)) + 1          # the call after the last item included
            rec0 = one_asgi(p, p, 'completes')
            one_wsgi(p, p, 'completes')
            nsend = len(rec0['attempts'])
            # the stream's failing call, every position x every class
            for k in range(ncalls + 1):
                for cls in R.FAULT_CLASSES:
                    q = variant(p, fail=k, fail_class=cls)
                    one_asgi(q, variant(p, fail=k), 'stream_raises_' + cls)
                    if k <= len(p['stream']['chunks']) + 1:
                        one_wsgi(q, variant(p, fail=k), 'stream_raises_' + cls)
                # the server cancels the application's task while it is suspended in that stream call
                one_asgi(variant(p, cancel_at=['call', k]), variant(p, fail=k), 'task_cancelled_in_stream_call')
            # the server's send, every index x every class; the task cancelled while suspended in that send
            for k in range(nsend + 1):
                for cls in SEND_CLASSES:
                    one_asgi(p, p, 'send_raises_' + cls, xf=k, send_class=cls)
                one_asgi(p, p, 'task_cancelled_in_send', cancel_at_send=k)
            # close() itself: raises (alone, and while another failure is already propagating), or is where the task is cancelled
            for cls in R.FAULT_CLASSES:
                q = variant(p, close_class=cls)
                one_asgi(q, p, 'close_raises_' + cls, cf=True)
                one_wsgi(q, None, 'close_raises_' + cls)
                k = rnd.randint(0, ncalls)
                one_asgi(variant(q, fail=k, fail_class=rnd.choice(R.FAULT_CLASSES)), variant(p, fail=k), 'close_raises_after_stream_fault', cf=True)
                one_asgi(q, p, 'close_raises_after_send_fault', xf=rnd.randint(0, nsend), send_class=rnd.choice(SEND_CLASSES), cf=True)
            one_asgi(variant(p, cancel_at=['close']), p, 'task_cancelled_in_close', cf=True)

    def extra_runs():
        status_run()
        status_sweep()
        endings_run(ctx.n(210, 3600))
        rerr_run(ctx.n(3000, 40000))
        ser_run(ctx.n(8000, 100000))
        sse_run(ctx.n(800, 10000))

    for ci in range(ctx.n(12000, 160000)):
        if hangs[0] >= 2:
            ctx.notes.append(f'shard {ctx.shard[0]}: stopped after case {ci}: the application repeatedly did not return (reported as oracle failures)')
            break
        p = gen_plan(rnd, hist_ok=True, none_ok=True, obj_ok=True, framing_ok=True)
        fs = final_state(R, p, False)
        wrec, arec = both(p)
        count_dims(p)
        count_framing(p, fs)
        ctx.count('status_form_' + p['status_form'])
        ctx.count('src_' + str(fs['src']))
        ctx.count('method_' + p['method'])
        if p['raise']:
            ctx.count('raise_' + p['raise'])
        if fs['render_fails']:
            ctx.count('render_error')
        if p['sse'] is not None:
            ctx.count('sse')
        if ci < 3:
            ctx.sample({'plan': p})
        streamed = fs['src'] == 'stream' and not p['raise'] and p['method'] != 'HEAD' and p['code'] not in R.BODILESS
        if streamed:
            n = len(p['stream']['chunks']) + (1 if p['stream'].get('none_at') is not None else 0)
            # every stream-fault index (the call after the last chunk included)
            for k in list(range(n + 2)) + [None]:
                if k != p['stream']['fail']:
                    both(with_fail(p, k))
                    ctx.count('stream_fault_runs')
            # WSGI: the server abandons the iterable after k chunks
            for k in range(n + 1):
                rec, probe, snap = go_wsgi(p, abandon_after=k)
                judge('wsgi', p, rec, probe, {'abandon_after': k})
                wsgi_case(p, rec, probe, snap, k)
                ctx.seen(('w-abandon', json.dumps(p, sort_keys=True, default=repr), k), True)
                ctx.count('wsgi_abandon_runs')
        # ASGI: send() fails at every event index of the fault-free exchange
        if streamed or p['sse'] is not None or rnd.random() < 0.3:
            for k in range(len(arec['attempts']) + 1 if arec else 0):
                rec, probe, snap = go_asgi(p, send_fail_at=k)
                judge('asgi', p, rec, probe, {'send_fail_at': k})
                trace_case(p, rec, probe, snap, k)
                ctx.seen(('a-sendfail', json.dumps(p, sort_keys=True, default=repr), k), True)
                ctx.count('asgi_send_fault_runs')
    extra_runs()
    sess.finish()
    sess_t.finish()
    sess_w.finish()
    sess_h.finish()
    sess_e.finish()
    sess_ser.finish()
    sess_s.finish()
    # responses to a raise: stock error handlers composed with the finalization (Fx, FinalizeRaise.lean)
    import lib_c05raise
    lib_c05raise.run(ctx, loop)
    loop.close()


LEVEL_TEXT = ('Machine-checked theorems (Lean 4) over models of the tails of falcon.App.__call__ and falcon.asgi.App.__call__: body precedence, no payload on HEAD/1xx/204/304, '
              'forced exact Content-Length, Content-Type presence/absence (with the F16 exception made explicit and witnessed), WSGI = ASGI on every response state; on an event-level model '
              'of the ASGI emission with a failing send() at any index the start/body/more_body framing and close()-exactly-once under every stream and send fault; on an event-level model of the WSGI call '
              '(code_to_http_status, one start_response, the list / wsgi.file_wrapper / CloseableStreamIterator / plain iterable, a PEP 3333 server that may abandon at any index) one start with a valid status line, '
              'chunks = the body of the finalization model, close()-exactly-once as an invariant of the server loop; the render-error path (render, error handler, render again, empty body) reduced to the ordinary finalization on both stacks; '
              'SSE framing under emitter, serialisation, send and disconnect faults, and SSEvent.serialize read back field by field; '
              'ASGI streams whose hand-out sequence contains None (the documented end marker of async iterators = exhaustion at that point; a read() returning None), with framing and close()-once for every such sequence; '
              'the same emission with close() itself failing (one more fault input: exactly one call, an exception always leaves, no final event) - streaming is ended by Exception subclasses and BaseException-only classes alike, '
              'including real cancellation of the application\'s task at every await of the streaming block; '
              'histories on one response (setters in any order, re-assignment, None, render_body() calls in between, the _media_rendered cache and its invariant): the finalization after any history is the one of the values assigned last. '
              'Every model is tied to the real apps on every run by a differential correspondence (exact status line / status, header list in order, chunk or event list, close() counts, exception propagation); '
              'independent protocol monitors written from PEP 3333, the ASGI HTTP spec and the event-stream format plus statement oracles decide failing inputs, with fault injection at every stream-call, '
              'server-abandon, send, emitter and disconnect index.')
LEVEL_NOTE = ('Trusted: Lean kernel + standard axioms; harness, monitors and oracles; the WSGI server duties of PEP 3333 (transcribed in Wg.serve). Responders, middleware and hooks that raise HTTPError / HTTPStatus with the stock handlers are modelled (Fx over the C04 models Es) and tied; user error handlers / serializers are '
              'checked by the oracles only. F16 is a recorded known finding.')
TECHNIQUE = 'Lean 4 models + theorems of response finalization (both stacks, event level, render-error path, SSE), differential correspondence model vs. real apps, independent PEP 3333 / ASGI / event-stream monitors with exhaustive fault-point injection'

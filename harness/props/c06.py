"""C06 - WSGI, ASGI and the test client are observationally equivalent."""
PROP = 'C06'
LEAN_MODULES = ['FalconModel.FinalizeProofs', 'FalconModel.FinalizeProofs2', 'FalconModel.FinalizeReaderProofs', 'FalconModel.WireProofs', 'FalconModel.WirePathProofs', 'FalconModel.ReqMemoProofs',
                'FalconModel.ReqUrl', 'FalconModel.ReqUrlProofs']
DRIVERS = ['fzdriver', 'wrdriver', 'rmdriver', 'rudriver']
THEOREMS = [
    # request side, URL composition (model Ru, shared with C09): an environ and a scope describing the same request agree on all thirteen URL properties under every read order
    'Ru.wsgi_asgi_agree', 'Ru.wsgi_asgi_core', 'Ru.agree_netloc',
    # response side: the two finalization tails agree on every response state (relational theorem) ...
    'Fz.wsgi_asgi_agree',
    # ... and therefore every single-stack statement of C05 transfers (proved *through* the agreement theorem)
    'Fz.asgi_bodiless_no_payload', 'Fz.asgi_content_length_exact', 'Fz.asgi_body_precedence',
    # response side, file-like streams by their read contract (FinalizeReader.lean, namespace Fr): short reads before the end of the data
    'Fr.wsgi_payload_complete', 'Fr.asgi_payload_complete', 'Fr.failing_reader_prefix', 'Fr.pump_complete', 'Fr.pump_prefix', 'Fr.pump_eq_drainFile',
    'Fr.drain_blocks', 'Fr.handouts_flatten', 'Fr.pump_block_size_irrelevant', 'Fr.read_progress', 'Fr.read_append', 'Fr.read_empty_end', 'Fr.capAt_pos',
    'Fr.short_block_stop_witness',
    # request side, one request object under every history of reads (ReqMemo.lean, namespace Rm): the memoized accessors of both request classes
    'Rm.history_independent', 'Rm.wsgi_history_independent', 'Rm.asgi_history_independent', 'Rm.stacks_histories_agree', 'Rm.reread_same',
    'Rm.read_pure', 'Rm.run_pure', 'Rm.wf_of_wfB', 'Rm.wsgi_wf', 'Rm.asgi_wf', 'Rm.inv_init', 'Rm.foldl_inv', 'Rm.Attr.mem_all',
    'Rm.wrong_guard_rejected', 'Rm.wrong_guard_witness',
    # request side (Wire.lean): one wire-level header list, the PEP 3333 environ and the ASGI scope built from it, falcon's two header stores
    'Wr.header_lookup_agree', 'Wr.singleton_exclusion_exact', 'Wr.headers_agree', 'Wr.wsgi_headers_upper',
    'Wr.content_type_agree', 'Wr.content_length_raw_agree', 'Wr.content_length_agree',
    'Wr.wsgi_lookup_case_insensitive', 'Wr.asgi_lookup_case_insensitive', 'Wr.wsgi_lookup_upper_lower', 'Wr.asgi_lookup_upper_lower',
    # the canonical form both stores are reduced to, closed forms ("which value wins"), the name cache
    'Wr.environ_canonical', 'Wr.store_canonical', 'Wr.wsgiGet_canonical', 'Wr.asgi_store_closed_form', 'Wr.canon_closed_form',
    'Wr.cachedName_transparent', 'Wr.asgiGetC_eq',
    # the exclusions of the domain are necessary (witnesses)
    'Wr.repeated_singleton_witness', 'Wr.underscore_wire_name_witness', 'Wr.underscore_lookup_name_witness', 'Wr.non_ascii_lookup_name_witness',
    'Wr.content_length_nbsp_witness',
    # request side, part 2 (WirePath.lean, namespace Wq): ONE wire request (method, raw request-target bytes, scheme, server / client address, mount point,
    # field lines) -> the PEP 3333 environ and the ASGI scope (with the liberties the specs leave to a server) -> falcon's two constructors / property sets
    'Wq.request_view_agree',
    'Wq.method_agree', 'Wq.path_agree', 'Wq.wsgiPath_eq', 'Wq.strict_server_path_agree', 'Wq.path_ne_nil', 'Wq.root_path_agree',
    'Wq.query_string_agree', 'Wq.params_agree', 'Wq.params_closed_form', 'Wq.wsgiQueryString_eq', 'Wq.wsgiParams_eq',
    'Wq.scheme_agree', 'Wq.host_agree', 'Wq.port_agree', 'Wq.netloc_agree', 'Wq.client_agree', 'Wq.remote_addr_agree', 'Wq.access_route_agree',
    # the facts they rest on: CGI keys are independent of the header lines, raw header values agree, UTF-8 strict vs lenient, str(int) / int(str)
    'Wq.dget_environ_plain', 'Wq.hdr_agree', 'Wq.decodeStrict_replace', 'Wq.decodeStrict_ascii', 'Wq.latin1Enc_latin1', 'Wq.latin1_encode_ascii',
    'Wq.pyInt_natStr', 'Wq.natStr_inj',
    # the exclusions of the domain are exact (iff) ...
    'Wq.method_agree_iff', 'Wq.query_string_agree_iff', 'Wq.decodeStrict_latin1_iff', 'Wq.root_path_agree_iff', 'Wq.access_route_agree_iff', 'Wq.remote_addr_agree_iff',
    # regression witness for the repaired finding F36 (fix 9e26a7e): the old `except KeyError` raised TypeError on scope["client"] = None
    'Wq.client_none_regression_witness',
    # ... or at least necessary (witnesses by evaluation)
    'Wq.method_case_witness', 'Wq.scheme_port_witness', 'Wq.scheme_netloc_witness', 'Wq.raw_query_witness', 'Wq.raw_query_raises_witness', 'Wq.root_path_witness',
    'Wq.empty_client_witness', 'Wq.server_missing_witness', 'Wq.repeated_host_witness', 'Wq.underscore_route_witness',
    'Wq.strict_server_witness',
]
STATEMENTS = {
    'Ru.wsgi_asgi_agree': 'URL composition: if a WSGI environ and an ASGI scope describe the same request (same scheme other than wss, same Host header, same server name with SERVER_PORT = str(port), same root path, path, query string, strip option, Forwarded / X-Forwarded-Proto / X-Forwarded-Host headers), every sequence of reads of scheme, netloc, host, root_path, subdomain, forwarded, forwarded_scheme, forwarded_host, forwarded_uri, forwarded_prefix, uri, relative_uri and prefix returns the same values on falcon.Request and falcon.asgi.Request (the six memo cells included)',
    'Fz.wsgi_asgi_agree': 'for every response state (status, text, data, rendered media, stream kind/chunks/failing call, header dict in insertion order, cookies) and configuration (HEAD, default media type, file_wrapper): falcon.App.__call__ and falcon.asgi.App.__call__ hand the server the same status, the same header list in the same order, the same payload bytes and propagate a stream failure identically',
    'Fz.asgi_body_precedence': 'the ASGI payload obeys the same precedence text > data > media > stream as the WSGI one (corollary of the agreement theorem)',
    'Fz.asgi_content_length_exact': 'the ASGI Content-Length is exact under the same conditions as the WSGI one (corollary)',
    'Fz.asgi_bodiless_no_payload': 'HEAD / 1xx / 204 / 304 carry no payload on ASGI either (corollary)',
    'Fr.wsgi_payload_complete': 'for every content, every short-read pattern of a file-like resp.stream (the i-th read(n) returns at most caps[i] bytes, later calls at most tail bytes; all positive - only b"" means end of file), '
                                'every status that allows a body and every header dict / cookie list, on a non-HEAD request: the chunks of the iterable falcon.App.__call__ returns (CloseableStreamIterator or the server\'s wsgi.file_wrapper, '
                                'read(8192) until b"") concatenate to exactly the content, and the iteration ends without an exception',
    'Fr.asgi_payload_complete': 'the same for falcon.asgi.App.__call__: the body fields of the http.response.body events concatenate to exactly the content (so with Fz.wsgi_asgi_agree both stacks deliver the same complete payload for every short-read pattern)',
    'Fr.failing_reader_prefix': 'if a read() call raises, both stacks have handed the server the same bytes, and those are a prefix of the content',
    'Fr.pump_complete': 'the loop "data = read(n); stop at b\'\'; deliver data" run on the object delivers exactly its content, for every positive block size n and every positive cap pattern',
    'Fr.pump_eq_drainFile': 'that loop on the object equals Fz.drainFile (the loop of the Fz model) on the list of what the read(n) calls return - the bridge that lets the Fz theorems speak about file objects',
    'Fr.pump_block_size_irrelevant': 'two pumps with different positive block sizes deliver the same bytes',
    'Fr.short_block_stop_witness': 'the statement is not vacuous: on bursts of 5, 5, 2 bytes a loop that stops at the first block shorter than the block size delivers 5 of 12 bytes, the real loop all 12',
    'Rm.history_independent': 'for EVERY table of accessors that passes the decidable check wfB (each memoized accessor tests, assigns and returns one and the same private cell, that cell starts out holding its '
                              '"not computed yet" marker, no two accessors share a cell), every assignment of computed values and every history of reads on a fresh request object (any order, any repetition, '
                              'accessors that read other accessors while they compute): every read returns the value its accessor computes - never a stale value, another accessor\'s value or a marker',
    'Rm.wsgi_history_independent': 'falcon.Request (the transcribed table: _cached_forwarded, _cached_uri, _cached_relative_uri, _cached_prefix, _cached_forwarded_uri, _cached_forwarded_prefix, _cached_headers, _cached_headers_lower, '
                                   '_cached_access_route, _cached_if_match, _cached_if_none_match, _cookies, _cookies_collapsed and the accessors that read each other) passes the check, so every read of every history returns the computed value',
    'Rm.asgi_history_independent': 'the same for falcon.asgi.Request (if_match, if_none_match, headers, headers_lower, access_route, remote_addr, forwarded_scheme, forwarded_host re-implemented; the rest inherited)',
    'Rm.stacks_histories_agree': 'if the accessors read by a history compute the same values from the environ and from the scope (what Wr.* and Wq.request_view_agree prove for the attributes they cover), the WSGI and the ASGI responder see the '
                                 'same value at every read of that history - the agreement of the two stacks does not depend on the order or repetition of reads',
    'Rm.reread_same': 'an attribute read a second time (anything in between) returns the same value',
    'Rm.wrong_guard_rejected': 'the check is not vacuous: the table in which if_match tests the cell of if_none_match is rejected',
    'Rm.wrong_guard_witness': '... and necessary: on that table the history if_none_match; if_match returns the _UNSET sentinel for if_match while if_match; if_none_match returns the value',
    'Wr.header_lookup_agree': 'for every wire-level list of field lines (any length, names in any case, repeats, empty values) whose names are ASCII without "_" and in which no singleton header (Content-Length, Content-Type, Cookie, Expect, From, Host, Max-Forwards, Referer, User-Agent) is repeated, for every looked-up name (ASCII without "_", any case) and every required= / default=: falcon.Request(environ built by a PEP 3333 server).get_header(name, ...) and falcon.asgi.Request(scope built by an ASGI server).get_header(name, ...) return the same value, the same default, or both raise HTTPMissingHeader',
    'Wr.singleton_exclusion_exact': 'for every header list with ASCII "_"-free names: the two get_header agree on every name IF AND ONLY IF no singleton header is repeated (a repeated singleton is comma-joined by the PEP 3333 server and reduced to its last field line by falcon.asgi.Request, and the join is strictly longer)',
    'Wr.headers_agree': 'on the same domain WSGI req.headers_lower and ASGI req.headers (= headers_lower) are the same list of items, in the same iteration order: lower-cased names in order of first occurrence, repeated field lines comma-joined',
    'Wr.wsgi_headers_upper': 'WSGI req.headers is that mapping with upper-cased names (the documented per-interface difference), for every header list with ASCII "_"-free names',
    'Wr.content_type_agree': 'req.content_type (env["CONTENT_TYPE"] vs _asgi_headers[b"content-type"], both method branches of the ASGI constructor) is the same',
    'Wr.content_length_agree': 'req.content_length is the same (absent / the number / HTTPInvalidHeader) although WSGI tests for the empty value first and parses int(str) while ASGI parses int(bytes) and tests for the empty value in the except branch - provided the Content-Length value contains none of the code points FS GS RS US NEL NBSP that only str.strip() removes',
    'Wr.content_length_nbsp_witness': 'that proviso is necessary: Content-Length "\\xa05" is 5 on WSGI and HTTPInvalidHeader on ASGI (a server rejects such a request itself)',
    'Wr.wsgi_lookup_case_insensitive': 'for EVERY environ dict: two ASCII names that differ only in case give the same get_header result on WSGI',
    'Wr.asgi_lookup_case_insensitive': 'for every _asgi_headers dict: two names with the same lower() give the same get_header result on ASGI',
    'Wr.environ_canonical': 'for every header list with ASCII "_"-free names the PEP 3333 environ is: the fixed CGI/wsgi.* keys, then one key per distinct header name in order of first occurrence (HTTP_<NAME> or CONTENT_TYPE/CONTENT_LENGTH) holding the comma-joined values, then wsgi.file_wrapper',
    'Wr.store_canonical': 'for every header list (any names) in which no singleton is repeated, falcon.asgi.Request._asgi_headers is the canonical mapping lower-cased name -> comma-joined values',
    'Wr.asgi_store_closed_form': 'for EVERY header list: _asgi_headers[k] is the value of the LAST field line named k if k is a singleton header, the comma-join of all field lines named k otherwise',
    'Wr.cachedName_transparent': 'the _name_cache kwarg dict of the ASGI get_header is transparent: under the invariant "every entry maps a name to name.lower().encode()" (true of the empty cache, preserved by every call) the cached key equals the computed one, and the cache never grows beyond max(its size, 64)',
    'Wr.repeated_singleton_witness': 'Host: a + host: b gives get_header("Host") == "a,b" on WSGI and "b" on ASGI (the names are fine, only the singleton rule is violated)',
    'Wr.underscore_wire_name_witness': 'X_A: 1 + X-A: 2 gives get_header("X-A") == "1,2" on WSGI and "2" on ASGI',
    'Wr.underscore_lookup_name_witness': 'for the well-formed request X-A: 1, get_header("X_A") is "1" on WSGI and None on ASGI',
    'Wr.non_ascii_lookup_name_witness': 'for the well-formed request SS: 1, get_header("\\xdf") is "1" on WSGI ("\\xdf".upper() == "SS") and None on ASGI',
    'Wq.request_view_agree': 'for every wire request (method token, raw request-target bytes, scheme, server name/port, client address or none, mount point, field lines) of the domain wfConn - ASCII request-target '
                             '(arbitrary bytes percent-encoded, also ones that decode to invalid UTF-8), upper-case method, scheme http or https, ASCII mount point, non-empty client address if any, header names ASCII without "_" '
                             'and no repeated singleton header, the ASGI server tells its own address - for every liberty the two specifications leave to the servers '
                             '(SCRIPT_NAME / QUERY_STRING left out when empty, scope root_path left out when empty, scope scheme left out when "http", an unknown client reported by omission or as None) and all eight settings of strip_url_path_trailing_slash / '
                             'keep_blank_qs_values / auto_parse_qs_csv: method, path, query_string, params, root_path (= app), scheme, host, port, netloc, remote_addr and access_route of '
                             'falcon.Request(environ built by a PEP 3333 server) and falcon.asgi.Request(scope built by an ASGI server) are the same values, or both raise HTTPInvalidHeader (Host)',
    'Wq.path_agree': 'WITHOUT any hypothesis - every raw request-target (any bytes, any well- or ill-formed percent-escapes, escapes that decode to invalid UTF-8), both values of strip_url_path_trailing_slash, every server liberty: '
                     'req.path of falcon.Request (PATH_INFO = percent-decoded bytes tunnelled as Latin-1, re-encoded by falcon and decoded as UTF-8 with U+FFFD, isascii() fast path, "or \'/\'") equals req.path of '
                     'falcon.asgi.Request (scope["path"] = the same bytes decoded leniently by the server, "or \'/\'")',
    'Wq.wsgiPath_eq': 'closed form: the WSGI constructor undoes the Latin-1 tunnel exactly - req.path = strip(utf8-replace(percent-decode(raw path)) or "/") and it never raises',
    'Wq.strict_server_path_agree': 'an ASGI server that decodes the path strictly (and answers 400 itself when that fails) hands over the same scope["path"] whenever it calls the application: the agreement holds on its smaller domain too',
    'Wq.path_ne_nil': 'req.path is never empty (an empty path becomes "/", and "/" is never stripped)',
    'Wq.root_path_agree': 'root_path / app: SCRIPT_NAME (present, or left out because empty) = scope["root_path"] (present, or left out because empty) for an ASCII mount point',
    'Wq.root_path_agree_iff': 'exactly then: for a non-ASCII mount point the two differ (falcon returns SCRIPT_NAME without undoing the Latin-1 tunnel it undoes for PATH_INFO)',
    'Wq.query_string_agree': 'req.query_string: QUERY_STRING (or "" when the key is left out) = scope["query_string"].decode() for an ASCII request-target; the ASGI constructor does not raise',
    'Wq.query_string_agree_iff': 'exactly then: the two query strings are equal IF AND ONLY IF the raw query has no non-ASCII byte (strict UTF-8 vs Latin-1 reading)',
    'Wq.params_agree': 'req.params: both stacks call parse_query_string (Qs.parseQS of C08) on the same text with the same keep_blank_qs_values / auto_parse_qs_csv, and skip it for an empty query',
    'Wq.params_closed_form': 'and that text is the raw query: req.params = parse_query_string(raw query bytes) - every C08 theorem about the raw query string applies to both request classes',
    'Wq.method_agree_iff': 'req.method agrees IF AND ONLY IF the method token is its own upper() (ASGI hands the method over upper-cased, WSGI as sent)',
    'Wq.scheme_agree': 'req.scheme: wsgi.url_scheme = scope["scheme"] with its default "http", for EVERY scheme (the key may be left out only when it is "http")',
    'Wq.host_agree': 'req.host: parse_host(Host) / HTTPInvalidHeader, else SERVER_NAME = scope["server"][0]',
    'Wq.port_agree': 'req.port: the port in Host, else 80/443 by scheme (WSGI tests scheme == "http", ASGI scheme in (https, wss): the same on http/https), else int(SERVER_PORT) = scope["server"][1] (int(str(p)) = p)',
    'Wq.netloc_agree': 'req.netloc: Host verbatim, else name[:port] with the default port left out - WSGI compares the decimal string with "443"/"80", ASGI the int with 443/80 (str is injective on naturals)',
    'Wq.remote_addr_agree': 'req.remote_addr: REMOTE_ADDR (default 127.0.0.1) = the last element of the ASGI access_route (scope["client"][0]; 127.0.0.1 when the key is missing OR None), whatever forwarding headers are present',
    'Wq.access_route_agree': 'req.access_route: the same header-derived route (Forwarded / X-Forwarded-For / X-Real-IP: Fw.accessRoute of C09 on the same raw header values) completed with the same client address',
    'Wq.hdr_agree': 'for every header list of the Wr domain and every ASCII "_"-free name: environ[HTTP_<NAME>] and _asgi_headers[name.lower()] are both absent or hold the same value',
    'Wq.dget_environ_plain': 'a CGI / wsgi.* key of the PEP 3333 environ is read from its fixed part, whatever the header lines are (no header can shadow REQUEST_METHOD, PATH_INFO, ...)',
    'Wq.method_case_witness': 'method "get": WSGI "get", ASGI "GET" (everything else inside the domain)',
    'Wq.scheme_port_witness': 'scheme "ftp", Host: h - port 443 on WSGI, 80 on ASGI',
    'Wq.scheme_netloc_witness': 'scheme "wss", no Host, server port 443 - netloc "srv:443" on WSGI, "srv" on ASGI',
    'Wq.raw_query_witness': 'raw query bytes q=C3 A9: query_string "q=\\xc3\\xa9" on WSGI, "q=\\xe9" on ASGI',
    'Wq.raw_query_raises_witness': 'raw query byte FF: falcon.asgi.Request() raises UnicodeDecodeError, falcon.Request() does not',
    'Wq.root_path_witness': 'mount point "/\\xe9": root_path "/\\xc3\\xa9" on WSGI, "/\\xe9" on ASGI',
    'Wq.empty_client_witness': 'client address "": remote_addr "" / access_route [""] on WSGI, IndexError / [] on ASGI',
    'Wq.client_none_regression_witness': 'regression witness for F36 (fixed by 9e26a7e): with scope["client"] = None the code before the fix (except KeyError only) raised TypeError from remote_addr / access_route '
                                         'where WSGI answers 127.0.0.1; the repaired code answers 127.0.0.1 like for a missing key and the request is inside the domain',
    'Wq.access_route_agree_iff': 'the exact remaining condition (on the header domain): the two access routes are equal IF AND ONLY IF the client address is non-empty or the forwarding headers contribute at least one entry '
                                 '(the ASGI "[client] if client else []" shows only when both are empty) - in particular for every unknown client, whether the server leaves "client" out or sends None',
    'Wq.remote_addr_agree_iff': 'the same condition is exact for remote_addr (with an empty client address and no forwarding header the ASGI route[-1] is an IndexError, WSGI answers "")',
    'Wq.server_missing_witness': 'scope without "server" (or None), no Host header: ASGI host/port/netloc are localhost / 80 / "localhost", WSGI answers SERVER_NAME / SERVER_PORT',
    'Wq.repeated_host_witness': 'Host: a + host: b:81 - host "a,b" / netloc "a,b:81" on WSGI, "b" / "b:81" on ASGI',
    'Wq.underscore_route_witness': 'X_Forwarded_For: 7.7.7.7 - access_route [7.7.7.7, 127.0.0.1] on WSGI, [127.0.0.1] on ASGI',
    'Wq.strict_server_witness': '"/%ff": a strict ASGI server refuses the request itself; the lenient one and WSGI both give "/\\ufffd"',
}
TRUSTED = [
    'harness/lib_http.py: the spec-faithful WSGI and ASGI drivers (written from PEP 3333 / RFC 3875 and the ASGI HTTP spec) are what "a server" means',
    'a mounted application sees the path without the mount point on both interfaces (SCRIPT_NAME / root_path), as falcon documents',
    'Rm: the values the accessors compute are abstract (a parameter of the theorems); the reference value of an attribute is what a fresh request object returns for it when nothing else has been read',
    'Fr: a file-like object is its content plus a per-call cap on what read(n) returns (lib_respspace.Probe implements exactly that); the block size 8192 is falcon\'s _STREAM_BLOCK_SIZE / the PEP 3333 file_wrapper block size',
    'asyncio.wait_for(app, 2 s) deciding "the ASGI application did not return"',
    'wire_of (harness/props/c06.py): the HTTP request a falcon.testing call denotes, written from the docstrings of simulate_request / TestClient / ASGIConductor (defaults overridden by the call\'s headers, content_type= / json= precedence, params encoding, Host / User-Agent / Content-Length / Cookie lines, default port by scheme)',
    'Wq: Qs.parseQS (C08) as parse_query_string, Fw.accessRoute (C09) as the header-derived access route, Hp.parseHost / Hp.pyInt (C09) as parse_host / int() - each tied to the code by its own property\'s correspondence and again, end to end, by the third correspondence here',
]
ASSUMPTIONS = [
    'domain of "the same HTTP request": ASCII request-target with RFC 3986 characters (arbitrary path bytes only percent-encoded), header names are tokens without "_", values latin-1 without surrounding whitespace, singleton headers (Content-Length, Content-Type, Cookie, Expect, From, Host, Max-Forwards, Referer, User-Agent) not repeated, a non-empty body is framed by a matching Content-Length',
    'request line / connection (Wq.wfConn): additionally an upper-case method token (ASGI upper-cases, WSGI does not), scheme http or https (the "http" connection scope), an ASCII mount point, a non-empty client address when the client is known; '
    'the ASGI server percent-decodes the path and decodes it as UTF-8 LENIENTLY (U+FFFD per maximal invalid subpart: lib_http, and uvicorn / hypercorn / daphne through urllib.parse.unquote) - a strict server answers 400 itself and is covered by '
    'Wq.strict_server_path_agree; it puts its own address into scope["server"] (an unknown client may be reported by leaving "client" out or as None: no restriction since fix 9e26a7e / F36). Each exclusion has a machine-checked witness that it is necessary',
    'documented per-interface differences are normalised away: req.headers key case (compared lower-cased), chunk boundaries of body iteration (bytes compared), header order / name case of the response (compared as multiset of lower-cased pairs), reason phrase (ASGI carries only the code)',
    'requests that wsgiref.validate refuses before calling the app (malformed Content-Length) cannot be expressed through falcon.testing on WSGI and are compared on the other three paths only',
    '204/304 responses that carry a Content-Type (set by the application, or the F16 class) make wsgiref.validate inside falcon.testing raise on WSGI; they are compared on the other three paths only (C05 reports F16)',    'how falcon.testing TRANSLATES keyword arguments into one wire request is its own convention; argument combinations whose denotation is not unambiguous are not generated (one line each):',
    '(D) a call header that names a client default header in ANOTHER spelling (the case-sensitive dict merge sends both values): calls override defaults in the spelling of the default only',
    '(E) repeated names in a list of pairs when the client has default headers or content_type= / json= is passed (the dict merge keeps the last pair only): repeated field lines are drawn only where nothing is merged',
    '(A) cookies= beside a Cookie header (the header wins on WSGI, cookies= on ASGI); cookies= on OPTIONS (dropped by the helpers)',
    '(B) an explicitly empty body, body="" / b"" (Content-Length: 0 on ASGI, no Content-Length on WSGI); a Content-Length header that contradicts body=',
    '(G) cookies= as a list of pairs (the documented iterable form raises AttributeError on both stacks): cookies= is a mapping',
    'also not generated: root_path without a leading slash, custom method tokens through falcon.testing',
]
RULE = ('random wire-level requests: method x path from 0-4 segments (plain, percent-encoded UTF-8, invalid UTF-8, %2F, %20, sub-delims, empty segments, trailing slash, routed /items/{id}) x '
        'raw query (repeated keys, blanks, CSV, percent-encoded UTF-8 / invalid bytes, "+", bare keys) x 0-7 headers from 24 header grammars in random case, non-singletons repeated, latin-1 values, present-but-empty values (5 %, Accept 15 %), '
        'Host forms (name, name:port, IPv6, absent on HTTP/1.0, invalid port) x body (empty, JSON valid/invalid, urlencoded form, binary) with matching Content-Length or a malformed Content-Length on an empty body x '
        'scheme x server address x client address x root_path x request options (strip_url_path_trailing_slash, keep_blank_qs_values, auto_parse_qs_csv) x body access mode (read, sized reads, iterate, get_media, none) x '
        'C05 response plans (without SSE) x C06\'s own responder / application dimensions: the ORDER in which the responder reads the request - the 45 public attributes and 5 blocks of method calls (get_header*, get_header_as_*, get_param*, get_cookie_values, client_accepts / client_prefers) in the documented order (25 %), in a random permutation with 0-6 attributes read a second / third time, or everything in one random order and then every attribute again in another (15 %); the same script on all four paths, recorded in the case; a re-read value must equal the first and every value must have its documented type (a private sentinel is a failure) - x App(request_type=) stock or a do-nothing subclass (1/3) x App(response_type=) stock, do-nothing subclass, render_body override x media drawn in 35 % of the media plans from the falsy JSON documents {} [] 0 0.0 false "" x file-like streams that honour read(n) and return SHORT reads before the end (30 % of the file-like streams; with and without close(), optional failing call): content of 0 ... 40000 bytes (boundaries 8191/8192/8193, 16383/16384/16385), the i-th read returns at most caps[i] bytes: one byte at a time, random caps from 1 ... 30000, a pattern that changes (full blocks then short reads or the reverse), bursts of 8190 ... 8194 / 4096 / 1 bytes around the 8 KiB block size, or a regular file for comparison; the payloads are compared complete. Each case is run four times: spec WSGI driver, spec ASGI driver (random event chunking, optional keys omitted), falcon.testing.simulate_request on the WSGI app and on the ASGI app. '
        'Entry points and sequences of falcon.testing (sequence cases): ONE client object per stack - the module functions simulate_request(app, ...) / simulate_<verb>(app, path, ...) (15 %), or TestClient(app, headers=D) on the WSGI app and, on the ASGI app, '
        'TestClient(app, headers=D) (sync methods), "async with TestClient(app, headers=D) as conductor" (25 % of them entered a second time on the same client) or "async with ASGIConductor(app, headers=D)" - D = None (25 %), an empty mapping (5 %) or 1-3 default headers from 16 names in canonical or lower case; '
        'on it a sequence of 1-4 requests (mostly 2-3), each through a random spelling of the entry point (simulate_request(method, path), simulate_<verb>(path), the aliases <verb>(path) / request(method, path); on conductors 15 % of the GETs through simulate_get_stream / get_stream with the body read from the StreamedResult), '
        'each with its own keyword arguments: headers= not passed / None / {} / [] / a mapping / a list of pairs (1-3 headers in random case, values with optional whitespace, second field lines only where nothing is merged; 50 % overriding 1-2 of the client\'s defaults in the spelling of the default, 4 % an own Host), '
        'the query in the path / query_string= / params= with and without params_csv= (str, int, float, lists, empty list, reserved characters, non-ASCII) / params= overridden by query_string=, body= str or bytes with the type in headers= / content_type= / both, json= (incl. falsy documents; overriding body= and content_type=), '
        'protocol=, host=, port= (int or numeric str), remote_addr=, root_path= (None, "", mounted), http_version= (1.1, 1.0, 1, 2, 2.0), extras= (a server-defined key, 1/3 of them also the client address per interface), cookies= (not on OPTIONS, not beside a Cookie header), '
        'asgi_chunk_size=, wsgierrors= (always; the responder writes a line that must arrive in the stream of THAT call), file_wrapper=; its own response plan, read script, body mode and request options. Every request of the sequence is compared - request seen by the responder and response - with the spec-faithful driver\'s result for the wire request '
        'that this single call denotes by the documentation (client defaults overridden by the call\'s headers, nothing else carried over: no headers, cookies, extras or query of earlier calls); non-trivial = at least two requests and own headers in one of them; distinct = distinct (client, sequence of calls, plans). '
        'non-trivial = at least one header besides Host/User-Agent or a query or a body; distinct = distinct (wire request, options, plan). '
        'Header-store cases (second correspondence): 0-8 field lines drawn with repeats from a per-case pool of singleton / non-singleton / look-alike (Content-Typ, Http-Content-Type, SS) / "_" names in random '
        'per-character case, values incl. empty, latin-1, commas, Content-Length grammars (signs, underscores, NBSP); 60 % repaired into the theorem domain (singletons once, no "_"); 2-8 looked-up names per case '
        '(present names re-cased, "-"/"_" swapped, absent, latin-1 such as "\xdf"), each with get_header(n), (n, default=), (n, required=True); environ / scope built by lib_http, '
        'falcon.Request / falcon.asgi.Request constructed directly; non-trivial = at least two field lines. '
        'Read-history cases (fourth correspondence): a wire request of the first generator (no body) -> environ / scope by lib_http -> ONE falcon.Request and ONE falcon.asgi.Request (stock class, 1/3 a do-nothing subclass; the 8 option settings), on which the same history is read: 65 % a read script as above over the 45 attributes + get_cookie_values, 35 % a short script of 2-8 reads drawn with repetition from the 17 accessors that memoize or read a memoized one (if_match, if_none_match, forwarded, uri, url, relative_uri, prefix, forwarded_uri, forwarded_prefix, forwarded_scheme, forwarded_host, headers, headers_lower, cookies, get_cookie_values, access_route, remote_addr); reference = the value of each attribute on a fresh object of its own; every read must equal it (per stack), the stacks must agree read by read, types as documented; non-trivial = at least two different attributes. '
        'Target / connection cases (third correspondence): method (11 standard tokens; 6 % lower / mixed case) x raw request-target BYTES: path "/" (6 %), empty (3 %, mount point = whole path) or 1-4 segments from 39 '
        '(plain, percent-encoded UTF-8 of 2/3/4 bytes, truncated / overlong / surrogate / > U+10FFFF sequences, lone continuation bytes, malformed "%", "%zz", %2F, %3F, %25, "+") with 0-2 trailing slashes, 4 % with a raw non-ASCII byte; '
        'query from 30 (repeats, blanks, CSV, escapes, second "?", "&&", "=v"), 10 % "?" with an empty query, 6 % with raw non-ASCII bytes x scheme (http / https; 8 % ws, wss, ftp, HTTP, HTTPS, "") x 5 server names x 9 ports '
        '(0, 80, 443, 800, 4430, 8000, 8080, 8443, 65535) x client (absent, 5 addresses incl. IPv6, 3 % the empty address) x mount point ("", /app, /a/b, /app/, /A; 5 % non-ASCII) x Host header (70 %: 24 values incl. IPv6, empty and '
        'signed / padded / underscored / non-numeric ports; 4 % repeated) x X-Forwarded-For / X-Real-Ip / Forwarded (15 % each, random case, sometimes repeated) x 3 % a "_" look-alike name x the server liberties (SCRIPT_NAME / QUERY_STRING / '
        'root_path / scheme left out when they hold the default, client None instead of missing 8 %, server key missing / None 12 %) x the 8 option settings; environ / scope built by lib_http (raw non-ASCII bytes and a non-ASCII mount '
        'point by the same rules on bytes: Latin-1 tunnel / bytes), falcon.Request / falcon.asgi.Request constructed directly, 11 attributes (+ app == root_path) read from each; non-trivial = an escape in the target, a query, or no Host')
PARTIAL = ('The Lean theorems cover the response side (finalization of any response state is identical on both stacks) and, on the request side, (1) the header stores: get_header, headers / headers_lower, '
           'content_type, content_length agree for every header list of the domain (Wr.*), and (2) the request line and the connection: method, path, query_string, params, root_path / app, scheme, host, port, netloc, '
           'remote_addr, access_route agree for every wire request of the domain and every liberty of the servers, incl. scope["client"] = None (Wq.request_view_agree; path and scheme without any hypothesis; the method / query / mount-point / '
           'client-address exclusions proved exact, the others necessary); (3) the memoized accessors: under every history of reads on one request object (any order, any repetition) every read returns the value its accessor computes, on both classes, so the agreement of the stacks does not depend on the order of reads (Rm.*; the values computed by accessors outside Wr / Wq are a parameter of these theorems); and on the response side also file-like streams by their read contract: every short-read pattern is delivered completely and identically by both stacks (Fr.*). (4) URL composition: uri / url / relative_uri / prefix, the forwarded_* family, scheme, netloc, host, root_path and subdomain agree on both stacks for every environ / scope pair describing the same request and every read order (Ru.wsgi_asgi_agree; model Ru shared with C09, tied here by its own rudriver session on both stacks). The remaining request attributes (typed header accessors, cookies, body, media), the http_version '
           '(no Request attribute on either stack; only falcon.asgi.App validates scope["http_version"]) and the equivalence of falcon.testing (simulate_request, simulate_<verb>, TestClient, ASGIConductor; sequences of requests on one client object) '
           'with the spec-faithful drivers rest on the differential comparison only (translation-validation strength, not proof).')
JOBS = {'quick': 4, 'thorough': 16}

SINGLETONS = ('content-length', 'content-type', 'cookie', 'expect', 'from', 'host', 'max-forwards', 'referer', 'user-agent')

HV = {
    'Accept': ['*/*', 'application/json', 'text/html;q=0.5, application/json', 'application/xml', 'garbage', 'text/*;q=0.1', 'application/x-msgpack'],
    'Cookie': ['a=1; b=2', 'a=1; a=2', 'a="q\\"x"; b', '=x;;', 'b=\xe9'],
    'Range': ['bytes=0-5', 'bytes=-3', 'bytes=5-', 'items=1-2', 'bytes=a-b', 'bytes=1-2,3-4', 'bytes', 'bytes=5-2'],
    'If-Match': ['"a"', 'W/"a", "b"', '*', '"unterminated'],
    'If-None-Match': ['"x"', 'W/"y"', '*'],
    'If-Modified-Since': ['Sun, 06 Nov 1994 08:49:37 GMT', 'garbage', 'Sunday, 06-Nov-94 08:49:37 GMT'],
    'If-Unmodified-Since': ['Sun, 06 Nov 1994 08:49:37 GMT', '0'],
    'Date': ['Sun, 06 Nov 1994 08:49:37 GMT', 'yesterday'],
    'Forwarded': ['for=1.2.3.4;proto=https;host=h.example', 'for="[::1]:80", for=5.6.7.8', 'garbage;;,', 'for=a;by=b', 'for="1.2.3.4:_obf";proto=http', 'host=x.example;proto=HTTPS'],
    'X-Forwarded-For': ['1.1.1.1, 2.2.2.2', '3.3.3.3', 'unknown'],
    'X-Forwarded-Proto': ['HTTPS', 'http'],
    'X-Forwarded-Host': ['fh.example', 'fh.example:8443'],
    'X-Real-Ip': ['9.9.9.9'],
    'X-Custom': ['v1', 'v\xe9', 'a, b', ''],
    'X-Int': ['5', '-3', 'x', '007'],
    'User-Agent': ['ua/1.0', 'curl/8'],
    'Authorization': ['Basic xyz', 'Bearer t'],
    'Referer': ['http://r.example/p?q'],
    'Expect': ['100-continue'],
    'If-Range': ['"r"', 'Sun, 06 Nov 1994 08:49:37 GMT'],
    'Accept-Encoding': ['gzip, br'],
    'Accept-Language': ['en, fr;q=0.5'],
    'From': ['a@example.com'],
    'Max-Forwards': ['3'],
}
HOSTS = ['example.com', 'example.com:8080', '[::1]:99', 'a.b.c.example', 'example.com:443', 'example.com:80', 'EXAMPLE.com', '[2001:db8::1]', 'example.com:abc', 'example.com:']
SEGS = ['a', 'b', 'items', 'x;y=1', '%C3%A9t%C3%A9', 'a%2Fb', '%ff%fe', 'a%20b', 'sub$&+,=:@', '', 'caf%C3%A9', '%E2%82%AC', '%c3', '~._-', '%00', '%7e']
QUERIES = ['', '', 'a=1&b=2', 'a=1&a=2', 'x=%C3%A9&y=+z', 'k', 'k=&j=,', 'a=1,2,3', 'a=%ff&b=%zz', 'flag&a=true&n=42', 'a=&a=&b', 'q=a%20b&&', 'n=-7&f=1.5', 'a=1;b=2', 'x=/?:@']
BODIES = [(None, b''), ('application/json', b'{"a": 1, "b": ["x", 2]}'), ('application/json', b'{"a": '), ('application/json; charset=utf-8', '{"é": "ü"}'.encode()),
          ('application/x-www-form-urlencoded', b'a=1&b=two+words&a=3'), ('application/octet-stream', bytes(range(0, 40))), ('text/plain', b'line1\nline2\n'),
          (None, b'raw-without-type'), ('application/x-unknown', b'zzz'), ('application/json', b'')]
BODY_MODES = ['read', 'read', 'sized', 'iter', 'media', 'media', 'media-default', 'none']

ATTRS = ['method', 'path', 'query_string', 'params', 'content_type', 'content_length', 'host', 'port', 'netloc', 'scheme', 'forwarded_scheme',
         'forwarded_host', 'subdomain', 'root_path', 'app', 'uri', 'url', 'relative_uri', 'prefix', 'forwarded_uri', 'forwarded_prefix', 'forwarded',
         'accept', 'user_agent', 'auth', 'expect', 'if_range', 'referer', 'date', 'if_match', 'if_none_match', 'if_modified_since',
         'if_unmodified_since', 'range', 'range_unit', 'cookies', 'access_route', 'remote_addr', 'headers_lower', 'headers',
         'client_accepts_json', 'client_accepts_xml', 'client_accepts_msgpack', 'uri_template', 'is_websocket']


# ---------------------------------------------------------------------- generators
def gen_wire(rnd, H):
    method = rnd.choice(['GET', 'GET', 'POST', 'PUT', 'HEAD', 'DELETE', 'PATCH', 'OPTIONS'])
    r = rnd.random()
    if r < 0.12:
        path = '/items/' + rnd.choice(['42', 'caf%C3%A9', 'a%2Fb', '%ff']) + rnd.choice(['', '', '/', '/sub/7', '/sub/x'])
    elif r < 0.18:
        path = '/'
    else:
        path = '/' + '/'.join(rnd.choice(SEGS) for _ in range(rnd.randint(1, 4))) + rnd.choice(['', '', '/'])
    query = rnd.choice(QUERIES)
    target = path + ('?' + query if query or rnd.random() < 0.05 else '')
    names = rnd.sample([h for h in HV if h != 'User-Agent'], rnd.randint(0, 6))
    headers = []
    for n in names:
        nm = rnd.choice([n, n.lower(), n.upper()])
        # a field line that is present but empty ("Accept:") is legal HTTP; Accept gets it more often (its absent/empty defaulting is per-stack code)
        headers.append((nm, '' if rnd.random() < (0.15 if n == 'Accept' else 0.05) else rnd.choice(HV[n])))
        if rnd.random() < 0.2 and n.lower() not in SINGLETONS:
            headers.append((rnd.choice([nm, n.lower()]), '' if rnd.random() < 0.05 else rnd.choice(HV[n])))
    headers.append((rnd.choice(['User-Agent', 'user-agent']), '' if rnd.random() < 0.03 else rnd.choice(HV['User-Agent'])))
    http10 = rnd.random() < 0.05
    if not http10:
        headers.insert(rnd.randint(0, len(headers)), (rnd.choice(['Host', 'host', 'HOST']), rnd.choice(HOSTS[:8]) if rnd.random() < 0.93 else rnd.choice(HOSTS[8:])))
    ctype, body = rnd.choice(BODIES) if method in ('POST', 'PUT', 'PATCH', 'DELETE') or rnd.random() < 0.1 else (None, b'')
    if ctype is not None:
        headers.append((rnd.choice(['Content-Type', 'content-type']), ctype))
    if body:
        headers.append((rnd.choice(['Content-Length', 'content-length']), str(len(body))))
    else:
        r = rnd.random()
        if r < 0.15:
            headers.append(('Content-Length', '0'))
        elif r < 0.21:
            headers.append(('Content-Length', rnd.choice(['x', '-1', '', '1e3', '5'])))
    rnd.shuffle(headers)
    scheme = rnd.choice(['http', 'http', 'https'])
    server = (rnd.choice(['falconframework.org', 'localhost', '10.0.0.5']), rnd.choice([80, 443, 8080]))
    client = rnd.choice([None, ('10.0.0.1', 5555), ('192.0.2.7', 40000), ('1.1.1.1', 1)])
    w = H.Wire(method, target, headers, body, scheme, server, client, rnd.choice(['', '', '/app', '/a/b']))
    w.http10 = http10
    return w


# ---------------------------------------------------------------------- falcon.testing: entry points, call arguments, sequences on one client
# A *call* is what a test author writes: the keyword arguments of one simulate_*() call.  `wire_of` is the HTTP request that call denotes by the
# documentation of falcon.testing (docstrings of simulate_request / TestClient / ASGIConductor / create_environ / create_scope) - written from the docs,
# not from the helpers - as a lib_http.Wire, i.e. what a spec-faithful server would have parsed off the socket for it.
HVX = dict(HV, **{'Content-Type': ['text/plain', 'application/json', 'application/x-www-form-urlencoded'], 'X-Api-Version': ['3', '4'], 'X-Trace': ['abc', 'xyz']})
SEQ_DEFAULT_POOL = ['Accept', 'X-Custom', 'Authorization', 'X-Forwarded-For', 'Accept-Language', 'X-Int', 'User-Agent', 'If-None-Match', 'Range',
                    'X-Forwarded-Proto', 'Referer', 'Forwarded', 'Content-Type', 'X-Api-Version', 'X-Real-Ip', 'If-Modified-Since']
SEQ_OWN_POOL = [h for h in HVX if h not in ('Content-Type',)]
SEQ_PARAMS = [{'a': '1', 'b': 'two words'}, {'a': ['1', '2', '3']}, {'x': '\xe9', 'n': 42}, {'k': ''}, {'a': [1, 'x,y'], 'flag': 'true'}, {'q': 'a&b=c', 'f': 1.5},
              {}, {'a': []}, {'k k': 'v/v', 'n': -7}, {'a': ['only']}]
SEQ_JSON = [{'a': 1, 'b': ['x', 2]}, [1, '\xe9'], 'str', 0, {}, [], False, {'\xe9': '\xfc'}]
SEQ_VERBS = ('GET', 'HEAD', 'POST', 'PUT', 'OPTIONS', 'PATCH', 'DELETE')     # the methods that have simulate_<verb>() / <verb>() entry points
DEFAULT_HOST = 'falconframework.org'                                          # documented default of host=


def gen_defaults(rnd):
    """headers= of TestClient(app, headers=...) / ASGIConductor(app, headers=...): None, an empty mapping, or 1-3 default headers"""
    r = rnd.random()
    if r < 0.25:
        return None
    if r < 0.3:
        return {}
    d = {}
    for n in rnd.sample(SEQ_DEFAULT_POOL, rnd.randint(1, 3)):
        d[rnd.choice([n, n, n.lower()])] = rnd.choice(HVX[n])
    return d


def gen_call(rnd, defaults, idx):
    """One simulate_*() call: method, path and the keyword arguments (only those the author passes are present)."""
    method = rnd.choice(['GET', 'GET', 'GET', 'POST', 'PUT', 'HEAD', 'DELETE', 'PATCH', 'OPTIONS'])
    r = rnd.random()
    if r < 0.15:
        path = '/items/' + rnd.choice(['42', 'caf%C3%A9', 'a%2Fb', '%ff']) + rnd.choice(['', '', '/', '/sub/7', '/sub/x'])
    elif r < 0.22:
        path = '/'
    else:
        path = '/' + '/'.join(rnd.choice(SEGS) for _ in range(rnd.randint(1, 3))) + rnd.choice(['', '', '/'])
    kw = {}
    # ---- the query: in the path, query_string=, params= (+ params_csv=), or params= overridden by query_string=
    qform = rnd.choice(['none', 'none', 'in_path', 'query_string', 'params', 'params_csv', 'params+query_string'])
    query = rnd.choice(QUERIES[2:])
    if qform == 'in_path':
        path += '?' + query
    elif qform == 'query_string':
        kw['query_string'] = rnd.choice([query, query, ''])
    elif qform in ('params', 'params_csv', 'params+query_string'):
        kw['params'] = dict(rnd.choice(SEQ_PARAMS))
        if qform == 'params_csv' or rnd.random() < 0.2:
            kw['params_csv'] = qform == 'params_csv' or rnd.random() < 0.5
        if qform == 'params+query_string':
            kw['query_string'] = rnd.choice([query, ''])
    # ---- content: body= (str / bytes), json=, content_type=
    bodyless = method in ('GET', 'HEAD', 'OPTIONS')
    ctype, how = None, 'none'
    r = rnd.random()
    if r < (0.8 if bodyless else 0.25):
        pass
    elif r < (0.9 if bodyless else 0.6):
        ctype, body = rnd.choice(BODIES[1:9])
        kw['body'] = body if rnd.random() < 0.7 else body.decode('latin-1')           # a str body is sent UTF-8 encoded
        how = rnd.choice(['header', 'content_type', 'both', 'none']) if ctype else 'none'
    else:
        kw['json'] = rnd.choice(SEQ_JSON)
        if rnd.random() < 0.3:
            kw['content_type'] = 'text/x-overridden-by-json'
        if rnd.random() < 0.2:
            kw['body'] = 'overridden by json='
    # ---- headers of this call: not passed / None / empty / mapping / list of pairs
    dnames = {n.lower(): n for n in (defaults or {})}
    own = []
    hform = rnd.choice(['absent', 'absent', 'None', 'empty', 'dict', 'dict', 'dict', 'list', 'list', 'list'])
    if hform in ('dict', 'list'):
        # where falcon.testing merges the call's headers with something (client defaults, content_type=, json=) names are not repeated (see ASSUMPTIONS)
        merged = bool(defaults) or how in ('content_type', 'both') or 'json' in kw
        for n in rnd.sample(SEQ_OWN_POOL, rnd.randint(1, 3)):
            if n.lower() in dnames:
                continue
            nm = rnd.choice([n, n.lower(), n.upper()])
            val = '' if rnd.random() < 0.05 else rnd.choice(HVX[n])
            if rnd.random() < 0.05 and val:
                val = rnd.choice([' ' + val, val + ' ', '\t' + val + '  '])           # optional whitespace around a field value is not part of it (RFC 9110 5.5)
            own.append([nm, val])
            if hform == 'list' and not merged and n.lower() not in SINGLETONS and rnd.random() < 0.3:
                own.append([rnd.choice([n, n.lower(), n.upper(), nm]), rnd.choice(HVX[n])])      # a second field line with that name (list form only)
        if defaults and rnd.random() < 0.5:
            # "These defaults may be overridden by passing values for the same headers to one of the simulate_*() methods" (in the spelling of the default)
            for low in rnd.sample(sorted(dnames), rnd.randint(1, min(2, len(dnames)))):
                canon_name = next(k for k in HVX if k.lower() == low)
                own.append([dnames[low], rnd.choice(HVX[canon_name])])
        if rnd.random() < 0.04:
            own.append(['Host', rnd.choice(HOSTS[:6])])
        rnd.shuffle(own)
        if hform == 'dict':
            seen = set()
            own = [h for h in own if not (h[0] in seen or seen.add(h[0]))]
    kw_headers = {'absent': 'absent', 'None': None, 'empty': rnd.choice(['{}', '[]'])}.get(hform, own)
    if how in ('header', 'both') and isinstance(kw_headers, list) and 'content-type' not in dnames:
        kw_headers.append([rnd.choice(['Content-Type', 'content-type']), ctype if how == 'header' else 'text/x-overridden'])
    elif how == 'header':
        how = 'content_type'
    if how in ('content_type', 'both'):
        kw['content_type'] = ctype
    if kw_headers != 'absent':
        kw['headers'] = kw_headers
    # ---- connection
    if rnd.random() < 0.35:
        kw['protocol'] = rnd.choice(['http', 'https', 'https'])
    if rnd.random() < 0.35:
        kw['host'] = rnd.choice(['example.com', 'localhost', '10.0.0.5', 'a.b.c.example'])
    if rnd.random() < 0.3:
        kw['port'] = rnd.choice([80, 443, 8080, '8443', 65535])
    if rnd.random() < 0.35:
        kw['remote_addr'] = rnd.choice([None, '10.0.0.1', '192.0.2.7', '2001:db8::1'])
    if rnd.random() < 0.3:
        kw['root_path'] = rnd.choice([None, '', '/app', '/a/b'])
    if rnd.random() < 0.25:
        kw['http_version'] = rnd.choice(['1.1', '1.0', '1', '2', '2.0'])
    r = rnd.random()
    if r < 0.25:
        kw['extras'] = {'verif.extra': f'token-{idx}-{rnd.randint(0, 999)}'}        # rendered per interface by call_kwargs
        if r < 0.08:
            kw['extras']['client-address'] = rnd.choice(['9.9.9.9', '198.51.100.2'])
    has_cookie_header = any(h[0].lower() == 'cookie' for h in own) or 'cookie' in dnames
    if method != 'OPTIONS' and not has_cookie_header and rnd.random() < 0.25:
        kw['cookies'] = rnd.choice([{'sid': 'abc'}, {'a': '1', 'b': '2'}, {'a': 'x y', 'k': 'v'}, {}])
    style = rnd.choice(['simulate_request', 'simulate_<verb>', 'simulate_<verb>', '<verb>', 'request'])
    return {'method': method, 'path': path, 'kw': kw, 'header_form': hform, 'style': style, 'asgi_chunk_size': rnd.choice([None, 1, 3, 4096])}


def wire_of(H, call, defaults, user_agent):
    """The HTTP request (lib_http.Wire) + server-defined keys that the call denotes, by the documentation of falcon.testing."""
    import json as _json
    from urllib.parse import quote
    kw = call['kw']
    path, _, query = call['path'].partition('?')
    if 'query_string' in kw and kw['query_string'] is not None:                      # "If specified, overrides params"
        query = kw['query_string']
    elif kw.get('params'):
        parts = []
        for k, v in kw['params'].items():
            if isinstance(v, list):
                if kw.get('params_csv', False):                                         # 'thing=1,2,3'
                    parts.append(quote(k, safe='') + '=' + ','.join(quote(str(x), safe='') for x in v))
                else:                                                                   # 'thing=1&thing=2&thing=3'
                    parts += [quote(k, safe='') + '=' + quote(str(x), safe='') for x in v]
            else:
                parts.append(quote(k, safe='') + '=' + quote(str(v), safe=''))
        query = '&'.join(parts)
    own = kw.get('headers')
    own = [] if own in (None, '{}', '[]') else [(n, v) for n, v in own]
    headers = []
    if defaults:                                   # "Default headers to set on every request ... may be overridden by passing values for the same headers";
        given = {n.lower() for n, _ in own}        # "Header names are not case-sensitive"
        headers += [(n, v) for n, v in defaults.items() if n.lower() not in given]
    headers += own
    body = kw.get('body')
    body = b'' if body is None else body.encode('utf-8') if isinstance(body, str) else body
    if kw.get('content_type') is not None:         # "takes precedence over any value set for the Content-Type header in the headers keyword argument"
        headers = [h for h in headers if h[0].lower() != 'content-type'] + [('Content-Type', kw['content_type'])]
    if kw.get('json') is not None:                 # "overrides body and sets the Content-Type header to 'application/json', overriding ... content_type or headers"
        body = _json.dumps(kw['json'], ensure_ascii=False).encode('utf-8')
        headers = [h for h in headers if h[0].lower() != 'content-type'] + [('Content-Type', 'application/json')]
    headers = [(n, (v or '').strip()) for n, v in headers]
    if not any(n.lower() == 'user-agent' for n, _ in headers):                          # "If a User-Agent header is not provided, it will default to ..."
        headers.append(('User-Agent', user_agent))
    if kw.get('cookies') is not None:
        headers.append(('Cookie', '; '.join(f'{k}={v}' for k, v in kw['cookies'].items())))
    if body:
        headers.append(('Content-Length', str(len(body))))
    scheme = kw.get('protocol', 'http')
    host = kw.get('host', DEFAULT_HOST)
    port = int(kw['port']) if kw.get('port') is not None else (80 if scheme == 'http' else 443)   # "Defaults to the standard port used by the given scheme"
    http10 = kw.get('http_version', '1.1') in ('1.0', '1')
    if not http10 and not any(n.lower() == 'host' for n, _ in headers):                  # "If set to '1.0', the Host header will not be added"
        headers.append(('Host', host if port == (80 if scheme == 'http' else 443) else f'{host}:{port}'))
    client = (kw['remote_addr'], 49152) if kw.get('remote_addr') else None            # unknown client: falcon documents 127.0.0.1 as what the app sees
    extra = {}
    if kw.get('extras'):
        extra['verif.extra'] = kw['extras']['verif.extra']
        if 'client-address' in kw['extras']:                                             # "Additional values to add to the WSGI environ dictionary or the ASGI scope"
            client = (kw['extras']['client-address'], 4321)
    w = H.Wire(call['method'], path + ('?' + query if query else ''), headers, body, scheme, (host, port), client, kw.get('root_path') or '')
    w.http10 = http10
    return w, extra


def call_kwargs(call, asgi, H, file_wrapper):
    """The keyword arguments exactly as the author passes them, as fresh objects (so that nothing a call does to them can reach another call)."""
    import copy
    import io
    kw = copy.deepcopy(call['kw'])
    if 'headers' in kw:
        h = kw['headers']
        kw['headers'] = {} if h == '{}' else [] if h == '[]' else h if h is None else ([tuple(x) for x in h] if call['header_form'] == 'list' else dict(h))
    if 'extras' in kw:
        ex = {'verif.extra': kw['extras']['verif.extra']}
        if 'client-address' in kw['extras']:
            ex.update({'client': [kw['extras']['client-address'], 4321]} if asgi else {'REMOTE_ADDR': kw['extras']['client-address']})
        kw['extras'] = ex
    if asgi:
        if call['asgi_chunk_size'] is not None:
            kw['asgi_chunk_size'] = call['asgi_chunk_size']
    else:
        kw['wsgierrors'] = io.StringIO()
        if file_wrapper:
            kw['file_wrapper'] = H.FileWrapper
    return kw


# ---------------------------------------------------------------------- what a responder reads, and in which order
# the method-call probes, as blocks that a read script places between the attribute reads
GROUPS = ['get_header*', 'get_header_as*', 'get_param*', 'get_cookie_values*', 'client_accepts*']
_STR = {'method', 'path', 'query_string', 'host', 'netloc', 'scheme', 'forwarded_scheme', 'forwarded_host', 'root_path', 'app', 'uri', 'url',
        'relative_uri', 'prefix', 'forwarded_uri', 'forwarded_prefix', 'accept', 'remote_addr'}
_OPT_STR = {'content_type', 'subdomain', 'user_agent', 'auth', 'expect', 'if_range', 'referer', 'range_unit', 'uri_template'}
_OPT_DT = {'date', 'if_modified_since', 'if_unmodified_since'}
_BOOL = {'client_accepts_json', 'client_accepts_xml', 'client_accepts_msgpack', 'is_websocket'}
_STR_MAP = {'cookies', 'headers', 'headers_lower'}


def canon(v):
    """a request attribute value as plain data (so that values of two request objects can be compared)"""
    if hasattr(v, 'is_weak'):  # ETag
        return ['etag', str(v), bool(v.is_weak)]
    if isinstance(v, (str, int, float, bool, bytes)) or v is None:
        return v
    if isinstance(v, dict):
        return {str(k): canon(x) for k, x in sorted(v.items(), key=lambda kv: str(kv[0]))}
    if isinstance(v, (list, tuple)):
        return [canon(x) for x in v]
    if hasattr(v, 'src') and hasattr(v, 'dest'):  # Forwarded
        return ['fwd', v.src, v.dest, v.host, v.scheme]
    if hasattr(v, 'isoformat'):
        return ['dt', v.isoformat()]
    return ['obj', type(v).__name__]


def doc_type_ok(a, v):
    """Is `v` a value of the type the API reference documents for the public request attribute `a` (falcon.Request and
    falcon.asgi.Request document the same types)?  Anything else - in particular a private sentinel - is not a request
    attribute value an application can be expected to handle."""
    import datetime
    from collections.abc import Mapping
    import falcon
    if a in _STR:
        return isinstance(v, str)
    if a in _OPT_STR:
        return v is None or isinstance(v, str)
    if a in _OPT_DT:
        return v is None or isinstance(v, datetime.datetime)
    if a in _BOOL:
        return isinstance(v, bool)
    if a in _STR_MAP:
        return isinstance(v, Mapping) and all(isinstance(k, str) and isinstance(x, str) for k, x in v.items())
    if a == 'content_length':
        return v is None or (isinstance(v, int) and not isinstance(v, bool))
    if a == 'port':
        return isinstance(v, int) and not isinstance(v, bool)
    if a in ('if_match', 'if_none_match'):
        return v is None or (isinstance(v, list) and all(isinstance(x, falcon.ETag) or x == '*' for x in v))
    if a == 'forwarded':
        return v is None or (isinstance(v, list) and all(isinstance(x, falcon.Forwarded) for x in v))
    if a == 'range':
        return v is None or (isinstance(v, tuple) and len(v) == 2 and all(isinstance(x, int) and not isinstance(x, bool) for x in v))
    if a == 'params':
        return isinstance(v, dict) and all(isinstance(k, str) and (isinstance(x, str) or (isinstance(x, list) and all(isinstance(y, str) for y in x)))
                                           for k, x in v.items())
    if a == 'access_route':
        return isinstance(v, list) and all(isinstance(x, str) for x in v)
    return True


def gen_reads(rnd, names, groups=()):
    """A read script: the order in which one responder looks at the request.  Every name is read at least once.
    documented (25 %): the fixed order of the API reference; permutation: a random order, 0-6 names read a second or third
    time at random later or earlier positions; twice: everything in one random order, then everything again in another
    (every attribute is re-read after every other one has been read)."""
    r = rnd.random()
    if r < 0.25:
        return 'documented order'
    reads = list(names) + list(groups)
    rnd.shuffle(reads)
    if r < 0.4:
        again = list(names)
        rnd.shuffle(again)
        return reads + again
    for _ in range(rnd.choice([0, 1, 2, 3, 6])):
        reads.insert(rnd.randint(0, len(reads)), rnd.choice(names))
    return reads


def digest_faults(d):
    """What is wrong with ONE responder's view of ONE request object, whatever the other stack says: an attribute that was
    read again gave another value, or a value is not of the documented type."""
    bad = []
    for k, v in d.items():
        if v and v[0] == 'UNDOCUMENTED TYPE':
            bad.append(f'{k}: a {v[1]} ({v[2]}) is not a documented value of this attribute')
        if ' (read #' in k:
            first = d.get(k[:k.index(' (read #')])
            if first != v:
                bad.append(f'{k}: {v!r}, first read: {first!r}')
    return bad


def run(ctx):
    import asyncio
    import io
    import json
    import falcon
    import falcon.asgi
    import falcon.testing as ft
    import lib_http as H
    import lib_respspace as R
    import warnings
    warnings.simplefilter('ignore')
    rnd = ctx.rng
    loop = asyncio.new_event_loop()
    asyncio.set_event_loop(loop)
    CUR = {}

    # ------------------------------------------------------------------ what the responder sees
    def guard(d, key, fn, doc=None):
        try:
            v = fn()
            if doc is not None and not doc_type_ok(doc, v):
                d[key] = ['UNDOCUMENTED TYPE', type(v).__name__, repr(v)[:60]]
            else:
                d[key] = ['ok', canon(v)]
        except falcon.HTTPError as e:
            d[key] = ['http', e.status if isinstance(e.status, (int, str)) else str(e.status), e.title, e.description]
        except Exception as e:  # noqa
            d[key] = ['EXC', type(e).__name__]

    def probe_group(d, req, g):
        if g == 'get_header*':
            for hn in ['X-Custom', 'x-custom', 'X-CUSTOM', 'Content-Type', 'content-length', 'Cookie', 'Host', 'Accept', 'X-Missing', 'Forwarded']:
                guard(d, 'get_header:' + hn, lambda hn=hn: req.get_header(hn))
            guard(d, 'get_header:default', lambda: req.get_header('X-Missing', default='dflt'))
            guard(d, 'get_header:required', lambda: req.get_header('X-Missing', required=True))
        elif g == 'get_header_as*':
            for hn in ['X-Int', 'Content-Length', 'Max-Forwards']:
                guard(d, 'get_header_as_int:' + hn, lambda hn=hn: req.get_header_as_int(hn))
            for hn in ['Date', 'If-Range', 'X-Custom']:
                guard(d, 'get_header_as_datetime:' + hn, lambda hn=hn: req.get_header_as_datetime(hn))
        elif g == 'get_param*':
            for pn in ['a', 'b', 'k', 'x', 'n', 'flag', 'q', 'missing']:
                guard(d, 'get_param:' + pn, lambda pn=pn: req.get_param(pn))
                guard(d, 'get_param_as_list:' + pn, lambda pn=pn: req.get_param_as_list(pn))
                guard(d, 'has_param:' + pn, lambda pn=pn: req.has_param(pn))
            guard(d, 'get_param_as_int:n', lambda: req.get_param_as_int('n'))
            guard(d, 'get_param_as_int:a', lambda: req.get_param_as_int('a'))
            guard(d, 'get_param_as_float:f', lambda: req.get_param_as_float('f'))
            guard(d, 'get_param_as_bool:a', lambda: req.get_param_as_bool('a'))
            guard(d, 'get_param_as_bool:flag', lambda: req.get_param_as_bool('flag', blank_as_true=True))
            guard(d, 'get_param:required', lambda: req.get_param('missing', required=True))
        elif g == 'get_cookie_values*':
            for cn in ['a', 'b', 'zz']:
                guard(d, 'get_cookie_values:' + cn, lambda cn=cn: req.get_cookie_values(cn))
        elif g == 'client_accepts*':
            for mt in ['application/json', 'text/html', 'application/xml']:
                guard(d, 'client_accepts:' + mt, lambda mt=mt: req.client_accepts(mt))
            guard(d, 'client_prefers', lambda: req.client_prefers(['text/html', 'application/json']))

    def read_attr(d, req, a, nth):
        """the nth read (1-based) of public attribute a on this request object"""
        again = '' if nth == 1 else f' (read #{nth})'
        if a == 'headers':
            def f():
                h = req.headers
                # the documented per-interface difference (upper- vs lower-case names) is normalised away, the type is not
                return {k.lower(): v for k, v in h.items()} if doc_type_ok('headers', h) else h
            guard(d, 'headers(lower-cased keys)' + again, f, 'headers')
        else:
            guard(d, a + again, lambda: getattr(req, a), a)

    def digest_sync(req, kwargs):
        """Everything the responder looks at, in the order the case's read script says."""
        d, reads, times = {}, CUR['reads'], {}
        if reads == 'documented order':
            reads = ATTRS + GROUPS
        for tok in reads:
            if tok in GROUPS:
                probe_group(d, req, tok)
            else:
                times[tok] = times.get(tok, 0) + 1
                read_attr(d, req, tok, times[tok])
        d['route_params'] = ['ok', canon(kwargs)]
        return d

    def body_sync(req, mode, d):
        if mode == 'read':
            guard(d, 'body', lambda: req.bounded_stream.read())
        elif mode == 'sized':
            def f():
                out = b''
                while True:
                    c = req.bounded_stream.read(7)
                    if not c:
                        return out
                    out += c
            guard(d, 'body', f)
        elif mode == 'iter':
            guard(d, 'body', lambda: b''.join(req.bounded_stream))
        elif mode == 'media':
            guard(d, 'media', lambda: req.get_media())
            guard(d, 'media(2nd)', lambda: req.get_media())
            # later accesses with a default, the falsy ones and None included: the same on both stacks
            guard(d, 'media(3rd, default None)', lambda: req.get_media(default_when_empty=None))
            guard(d, 'media(4th, default 0)', lambda: req.get_media(default_when_empty=0))
            guard(d, 'media(5th)', lambda: req.media)
        elif mode == 'media-default':
            guard(d, 'media', lambda: req.get_media(default_when_empty={'dflt': 1}))

    async def body_async(req, mode, d):
        async def aguard(key, co):
            try:
                d[key] = ['ok', canon(await co())]
            except falcon.HTTPError as e:
                d[key] = ['http', e.status if isinstance(e.status, (int, str)) else str(e.status), e.title, e.description]
            except Exception as e:  # noqa
                d[key] = ['EXC', type(e).__name__]
        if mode == 'read':
            await aguard('body', lambda: req.bounded_stream.read())
        elif mode == 'sized':
            async def f():
                out = b''
                while True:
                    c = await req.bounded_stream.read(7)
                    if not c:
                        return out
                    out += c
            await aguard('body', f)
        elif mode == 'iter':
            async def f():
                out = b''
                async for c in req.bounded_stream:
                    out += c
                return out
            await aguard('body', f)
        elif mode == 'media':
            await aguard('media', lambda: req.get_media())
            await aguard('media(2nd)', lambda: req.get_media())
            await aguard('media(3rd, default None)', lambda: req.get_media(default_when_empty=None))
            await aguard('media(4th, default 0)', lambda: req.get_media(default_when_empty=0))
            await aguard('media(5th)', lambda: req.get_media())
        elif mode == 'media-default':
            await aguard('media', lambda: req.get_media(default_when_empty={'dflt': 1}))

    def w_handle(req, resp, kwargs):
        d = digest_sync(req, kwargs)
        if CUR.get('seq'):
            d['server-defined key verif.extra'] = ['ok', canon(req.env.get('verif.extra'))]
            req.env['wsgi.errors'].write('verif: a line for the error log\n')
            d['what the responder writes to wsgi.errors reaches the stream given for this request'] = ['ok', CUR['errs'].getvalue().count('verif: a line for the error log\n') == 1]
        body_sync(req, CUR['mode'], d)
        CUR['digest'] = d
        CUR['probe'] = R.fill(resp, CUR['plan'], False, CUR['snap'])

    async def a_handle(req, resp, kwargs):
        d = digest_sync(req, kwargs)
        if CUR.get('seq'):
            d['server-defined key verif.extra'] = ['ok', canon(req.scope.get('verif.extra'))]
            d['what the responder writes to wsgi.errors reaches the stream given for this request'] = ['ok', True]
        await body_async(req, CUR['mode'], d)
        CUR['digest'] = d
        CUR['probe'] = R.fill(resp, CUR['plan'], True, CUR['snap'])

    class WItem:
        def on_get(self, req, resp, **kw):
            w_handle(req, resp, kw)
        on_head = on_post = on_put = on_delete = on_patch = on_options = on_get

    class AItem:
        async def on_get(self, req, resp, **kw):
            await a_handle(req, resp, kw)
        on_head = on_post = on_put = on_delete = on_patch = on_options = on_get

    def w_sink(req, resp, **kw):
        w_handle(req, resp, kw)

    async def a_sink(req, resp, **kw):
        await a_handle(req, resp, kw)

    class SubW(falcon.Response):
        pass

    class RenderW(falcon.Response):
        def render_body(self):
            b = super().render_body()
            return None if b is None else b'<<' + b + b'>>'

    class SubA(falcon.asgi.Response):
        pass

    class RenderA(falcon.asgi.Response):
        async def render_body(self):
            b = await super().render_body()
            return None if b is None else b'<<' + b + b'>>'
    RC = {(False, 'std'): None, (False, 'sub'): SubW, (False, 'render'): RenderW,
          (True, 'std'): None, (True, 'sub'): SubA, (True, 'render'): RenderA}

    class SubReqW(falcon.Request):          # what `request_type=` is for: a subclass (here one that changes nothing)
        pass

    class SubReqA(falcon.asgi.Request):
        pass
    QC = {(False, 'std'): None, (False, 'sub'): SubReqW, (True, 'std'): None, (True, 'sub'): SubReqA}
    apps = {}

    def get_app(asgi, p, opts):
        key = (asgi, p['dflt'], p['resp_class'], p['req_class'])
        if key not in apps:
            kw = {'media_type': p['dflt']}
            if RC[(asgi, p['resp_class'])] is not None:
                kw['response_type'] = RC[(asgi, p['resp_class'])]
            if QC[(asgi, p['req_class'])] is not None:
                kw['request_type'] = QC[(asgi, p['req_class'])]
            a = (falcon.asgi.App if asgi else falcon.App)(**kw)
            a.add_route('/items/{item}', AItem() if asgi else WItem())
            a.add_route('/items/{item}/sub/{n:int}', AItem() if asgi else WItem())
            a.add_sink(a_sink if asgi else w_sink, '/')
            apps[key] = a
        a = apps[key]
        a.req_options.strip_url_path_trailing_slash = opts['strip']
        a.req_options.keep_blank_qs_values = opts['keep_blank']
        a.req_options.auto_parse_qs_csv = opts['csv']
        return a

    def malformed_cl(w):
        v = [v for k, v in w.headers if k.lower() == 'content-length']
        return bool(v) and not (v[0].isdigit() and v[0].isascii())

    # ------------------------------------------------------------------ the four ways to deliver one request
    def norm_resp(code, pairs, body, raised):
        return {'status': code, 'headers': sorted([k.lower(), R.norm_cookie(v) if k.lower() == 'set-cookie' else v] for k, v in pairs), 'body': body, 'raised': raised}

    def setup(p, mode):
        CUR.update(plan=p, mode=mode, snap={}, probe=None, digest=None, reads=p['reads'], seq=bool(p.get('seq')))

    def via_spec_wsgi(w, p, mode, opts, extra=None):
        def once():
            setup(p, mode)
            CUR['errs'] = io.StringIO()
            env = H.wsgi_environ(w, file_wrapper=H.FileWrapper if p['fw'] else None, errors=CUR['errs'])
            env.update(extra or {})      # PEP 3333: "server-defined variables" / ASGI: extension keys - a server may add its own
            return H.drive_wsgi(get_app(False, p, opts), env)
        rec, hung = H.guarded(once)
        if hung:
            return CUR['digest'], {'hang': True}, None
        if rec['app_exc'] is not None:
            return CUR['digest'], {'app_raised': type(rec['app_exc']).__name__ + ': ' + str(rec['app_exc'])[:200]}, rec
        st, hl, _ = rec['start'][0]
        return CUR['digest'], norm_resp(int(st[:3]), hl, b''.join(rec['chunks']), type(rec['iter_exc']).__name__ if rec['iter_exc'] else None), rec

    def via_spec_asgi(w, p, mode, opts, extra=None):
        setup(p, mode)
        cuts = sorted(rnd.randint(0, len(w.body)) for _ in range(rnd.choice([0, 0, 1, 2, 5]))) if w.body else ([0] if rnd.random() < 0.2 else [])
        evs = H.asgi_events(w.body, cuts)
        for e in evs:  # optional keys may be omitted by a server
            if e['body'] == b'' and rnd.random() < 0.3:
                del e['body']
            if not e['more_body'] and rnd.random() < 0.5:
                del e['more_body']
        scope = H.asgi_scope(w)
        scope.update(extra or {})
        if rnd.random() < 0.2:
            del scope['raw_path']  # optional in the spec
        for timeout in (3.0, 20.0):
            setup(p, mode)
            rec = loop.run_until_complete(H.drive_asgi(get_app(True, p, opts), dict(scope), [dict(e) for e in evs], timeout=timeout))
            if not rec['hang']:
                break
        if rec['hang']:
            return CUR['digest'], {'hang': True}, rec
        r = H.asgi_response(rec)
        if r is None:
            return CUR['digest'], {'app_raised': type(rec['app_exc']).__name__ + ': ' + str(rec['app_exc'])[:200]}, rec
        return CUR['digest'], norm_resp(r[0], r[1], b''.join(r[2]), type(rec['app_exc']).__name__ if rec['app_exc'] else None), rec

    def via_testing(asgi, w, p, mode, opts):
        setup(p, mode)
        path_raw, _, query = w.target.partition('?')
        kw = dict(method=w.method, path=path_raw, query_string=query, headers=list(w.headers), body=(w.body or None),
                  protocol=w.scheme, host=w.server[0], port=w.server[1], remote_addr=(w.client[0] if w.client else None),
                  root_path=(w.root_path or None), http_version='1.0' if w.http10 else '1.1')
        if asgi:
            kw['asgi_chunk_size'] = rnd.choice([1, 3, 4096])
        else:
            kw['wsgierrors'] = io.StringIO()
            if p['fw']:
                kw['file_wrapper'] = H.FileWrapper
        def once():
            setup(p, mode)
            if 'wsgierrors' in kw:
                kw['wsgierrors'] = io.StringIO()
            try:
                return ft.simulate_request(get_app(asgi, p, opts), **kw)
            except Exception as e:  # noqa
                return e
        res, hung = H.guarded(once, (5.0, 30.0))
        try:
            if hung:
                return CUR['digest'], {'hang': True}
            if isinstance(res, Exception):
                raise res
        except R.StreamFault:
            return CUR['digest'], {'raised': 'StreamFault'}
        except (AssertionError, ValueError) as e:
            return CUR['digest'], {'testing_raised': type(e).__name__ + ': ' + str(e)[:200]}
        except Exception as e:  # noqa
            return CUR['digest'], {'app_raised': type(e).__name__ + ': ' + str(e)[:200]}
        return CUR['digest'], {'status': res.status_code, 'headers': {k.lower(): (R.norm_cookie(v) if k.lower() == 'set-cookie' else v) for k, v in res.headers.items()},
                               'cookies': sorted(res.cookies), 'body': res.content}

    def as_testing_view(nr):
        """What falcon.testing.Result can show of a normalised spec-driver response (header dict: later wins; cookie names)."""
        if 'status' not in nr:
            return nr
        if nr['raised']:
            return {'raised': nr['raised']}
        hd = {}
        for k, v in nr['headers_in_order']:
            hd[k.lower()] = R.norm_cookie(v) if k.lower() == 'set-cookie' else v
        return {'status': nr['status'], 'headers': hd, 'cookies': sorted({v.split('=', 1)[0] for k, v in nr['headers_in_order'] if k.lower() == 'set-cookie'}),
                'body': nr['body']}

    def diff(a, b):
        if a is None or b is None:
            return 'responder not reached on one side' if (a is None) != (b is None) else None
        ks = [k for k in sorted(set(a) | set(b)) if a.get(k) != b.get(k)]
        if not ks:
            return None
        k = ks[0]
        return f'{len(ks)} attribute(s) differ, first: {k}: {a.get(k)!r} vs {b.get(k)!r}'

    # ------------------------------------------------------------------ falcon.testing: every entry point, sequences of requests on ONE client object
    UA = 'falcon-client/' + falcon.__version__
    A_KINDS = ['TestClient', 'TestClient', 'async with TestClient', 'async with TestClient', 'ASGIConductor', 'ASGIConductor', 'ASGIConductor']

    def sim_outcome(res):
        """a Result / an exception -> the view compared with the spec driver (as in via_testing)"""
        if isinstance(res, BaseException):
            if isinstance(res, R.StreamFault):
                return {'raised': 'StreamFault'}
            if isinstance(res, asyncio.TimeoutError):
                return {'hang': True}
            if isinstance(res, (AssertionError, ValueError)):
                return {'testing_raised': type(res).__name__ + ': ' + str(res)[:200]}
            return {'app_raised': type(res).__name__ + ': ' + str(res)[:200]}
        return {'status': res['status_code'], 'headers': {k.lower(): (R.norm_cookie(v) if k.lower() == 'set-cookie' else v) for k, v in res['headers'].items()},
                'cookies': sorted(res['cookies']), 'body': res['content']}

    def plain(res):
        return {'status_code': res.status_code, 'headers': dict(res.headers), 'cookies': list(res.cookies), 'content': res.content}

    def sync_call(target, app, call, kw):
        """one request through the synchronous API: the module functions (target None) or a TestClient"""
        verb, st = call['method'].lower(), call['style']
        if target is None:
            if st in ('simulate_request', 'request'):
                return ft.simulate_request(app, call['method'], call['path'], **kw) if st == 'request' else ft.simulate_request(app, method=call['method'], path=call['path'], **kw)
            return getattr(ft, 'simulate_' + verb)(app, call['path'], **kw)
        if st == 'simulate_request':
            return target.simulate_request(call['method'], call['path'], **kw)
        if st == 'request':
            return target.request(call['method'], call['path'], **kw)
        return getattr(target, ('simulate_' if st == 'simulate_<verb>' else '') + verb)(call['path'], **kw)

    async def conductor_call(c, call, kw):
        verb, st = call['method'].lower(), call['style']
        if call.get('stream_api'):
            # simulate_get_stream(): "an async context manager that can be used to obtain a managed StreamedResult"
            async with (c.simulate_get_stream if st != '<verb>' else c.get_stream)(call['path'], **kw) as sr:
                first = await sr.stream.read()
            rest = await sr.stream.read()
            return {'status_code': sr.status_code, 'headers': dict(sr.headers), 'cookies': list(sr.cookies), 'content': first + rest}
        if st == 'simulate_request':
            return plain(await c.simulate_request(call['method'], call['path'], **kw))
        if st == 'request':
            return plain(await c.request(call['method'], call['path'], **kw))
        return plain(await getattr(c, ('simulate_' if st == 'simulate_<verb>' else '') + verb)(call['path'], **kw))

    def run_client(asgi, kind, defaults, steps, opts_of):
        """ONE client object of the given kind, the calls of the sequence in order; per request: (what the responder saw, outcome)."""
        app = get_app(asgi, steps[0]['plan'], opts_of[0])
        out = []

        def before(i):
            st = steps[i]
            get_app(asgi, st['plan'], opts_of[i])          # (the request options are attributes of the app the client holds)
            setup(st['plan'], st['mode'])
            kw = call_kwargs(st['call'], asgi, H, st['plan']['fw'])
            CUR['errs'] = kw.get('wsgierrors')
            return kw

        def after(res):
            out.append((CUR['digest'], sim_outcome(res)))

        def mk_defaults():
            return None if defaults is None else dict(defaults)

        if kind in ('module functions', 'TestClient'):
            target = None if kind == 'module functions' else ft.TestClient(app, headers=mk_defaults())
            for i in range(len(steps)):
                kw = before(i)
                try:
                    res = plain(sync_call(target, app, steps[i]['call'], kw))
                except Exception as e:  # noqa
                    res = e
                after(res)
            return out

        async def go():
            async def one(c, i):
                kw = before(i)
                try:
                    res = await asyncio.wait_for(conductor_call(c, steps[i]['call'], kw), 8.0)
                except Exception as e:  # noqa
                    res = e
                after(res)
                return isinstance(res, asyncio.TimeoutError)
            if kind == 'ASGIConductor':
                async with ft.ASGIConductor(app, headers=mk_defaults()) as c:
                    for i in range(len(steps)):
                        if await one(c, i):
                            break
            else:
                client = ft.TestClient(app, headers=mk_defaults())
                # the documented pattern: "async with client as conductor"; the client object is reusable for a second context, and
                # its synchronous methods remain available
                cut = steps[0].get('second_context_at')
                for lo, hi in ((0, cut), (cut, len(steps))) if cut else ((0, len(steps)),):
                    async with client as c:
                        for i in range(lo, hi):
                            if await one(c, i):
                                return
        loop.run_until_complete(go())
        return out

    def sequences_part():
        NAME = 'falcon.testing, every entry point, sequences of requests on one client object = spec driver for that single request ({stack}): {what}'
        for si in range(ctx.n(1500, 20000)):
            if hangs[0] >= 2:
                break
            # the module functions simulate_request(app, ...) / simulate_<verb>(app, ...) (no client object, hence no client headers), or one client object per stack
            wkind, akind = ('module functions', 'module functions') if rnd.random() < 0.15 else ('TestClient', rnd.choice(A_KINDS))
            defaults = None if wkind == 'module functions' else gen_defaults(rnd)
            n = rnd.choice([1, 2, 2, 3, 3, 4])
            shared = R.gen_plan(rnd, sse_ok=False)           # one client object = one app: what is fixed at App() construction is shared by the sequence
            steps, opts_of = [], []
            for i in range(n):
                call = gen_call(rnd, defaults, i)
                p = R.gen_plan(rnd, sse_ok=False)
                p.update(method=call['method'], dflt=shared['dflt'], resp_class=shared['resp_class'], req_class=rnd.choice(['std', 'sub']) if i == 0 else steps[0]['plan']['req_class'],
                         reads=rnd.choice(['documented order', 'documented order', None]), seq=True)
                if p['reads'] is None:
                    p['reads'] = gen_reads(rnd, ATTRS, GROUPS)
                if p['stream'] is not None and p['stream']['fail'] is not None and rnd.random() < 0.7:
                    p['stream']['fail'] = None
                mode = rnd.choice(BODY_MODES)
                w, extra = wire_of(H, call, defaults, UA)
                steps.append({'call': call, 'plan': p, 'mode': mode, 'wire': w, 'extra': extra})
                opts_of.append({'strip': rnd.random() < 0.3, 'keep_blank': rnd.random() < 0.5, 'csv': rnd.random() < 0.5})
            if akind != 'module functions' and akind != 'TestClient':
                for st in steps:
                    if st['call']['method'] == 'GET' and rnd.random() < 0.15:
                        st['call']['stream_api'] = True
                if akind == 'async with TestClient' and n >= 2 and rnd.random() < 0.25:
                    steps[0]['second_context_at'] = rnd.randint(1, n - 1)
            case = {'client_headers': defaults, 'wsgi_client': wkind, 'asgi_client': akind,
                    'sequence': [{'call': st['call'], 'denotes_wire_request': st['wire'].describe(), 'server_defined_keys': st['extra'], 'http10_without_host': st['wire'].http10,
                                  'options': opts_of[i], 'body_mode': st['mode'], 'plan': st['plan']} for i, st in enumerate(steps)]}

            # the reference: every request of the sequence on its own, through the spec-faithful drivers
            ref = {False: [], True: []}
            for i, st in enumerate(steps):
                dw, rw, wrec = via_spec_wsgi(st['wire'], st['plan'], st['mode'], opts_of[i], extra=st['extra'])
                ex = dict(st['extra'])
                da, ra, arec = via_spec_asgi(st['wire'], st['plan'], st['mode'], opts_of[i], extra=ex)
                if 'hang' in rw or 'hang' in ra:
                    hangs[0] += 1
                ref[False].append((dw, rw, wrec))
                ref[True].append((da, ra, arec))
                what = diff(dw, da)
                ctx.oracle('stacks agree: request seen by the responder', what is None, what, dict(case, request_index=i))
                what = None if rw == ra else f'WSGI {rw!r} vs ASGI {ra!r}'
                ctx.oracle('stacks agree: response', what is None, what, dict(case, request_index=i))

            for asgi, kind in ((False, wkind), (True, akind)):
                stack = 'asgi' if asgi else 'wsgi'
                got, hung = H.guarded(lambda: run_client(asgi, kind, defaults, steps, opts_of), (20.0, 90.0))
                if hung:
                    hangs[0] += 1
                    ctx.oracle(NAME.format(stack=stack, what='request seen by the responder'), False, 'the sequence did not return', case)
                    continue
                for i, st in enumerate(steps):
                    dspec, rspec, rec = ref[asgi][i]
                    if i >= len(got):
                        ctx.oracle(NAME.format(stack=stack, what='request seen by the responder'), False, f'request #{i + 1} was not made: an earlier request of the sequence did not return', dict(case, request_index=i))
                        break
                    dt, rt = got[i]
                    if 'hang' in rt:
                        hangs[0] += 1
                    if ('testing_raised' in rt and not asgi and 'Content-Type header found in a' in rt['testing_raised'] and rspec.get('status') in R.TYPELESS
                            and any(k == 'content-type' for k, _ in rspec['headers'])):
                        ctx.count('testing_wsgi_refused_by_wsgiref_validate(204/304 response with a Content-Type)')
                        continue
                    where = f'request #{i + 1} of {len(steps)} on one {kind} ({st["call"]["style"]}{", streamed result" if st["call"].get("stream_api") and asgi and kind not in ("module functions", "TestClient") else ""}): '
                    what = diff(dspec, dt)
                    ctx.oracle(NAME.format(stack=stack, what='request seen by the responder'), what is None, None if what is None else where + 'spec driver vs falcon.testing: ' + what, dict(case, request_index=i))
                    if 'status' in rspec:
                        pairs = (rec['start'][0][1] if not asgi else H.asgi_response(rec)[1])
                        view = as_testing_view(dict(rspec, headers_in_order=pairs))
                    else:
                        view = rspec
                    what = None if view == rt else where + f'spec driver {view!r} vs falcon.testing {rt!r}'
                    ctx.oracle(NAME.format(stack=stack, what='response'), what is None, what, dict(case, request_index=i))

            # ---- what the evidence says about the distribution
            own_names = [{h[0].lower() for h in (st['call']['kw'].get('headers') or []) if isinstance(h, list)} for st in steps]
            ctx.seen(json.dumps(['seq', case], sort_keys=True, default=repr), n >= 2 and any(own_names))
            ctx.count(f'seq_length_{n}')
            ctx.count('seq_wsgi_client_' + wkind.replace(' ', '_'))
            ctx.count('seq_asgi_client_' + akind.replace(' ', '_'))
            ctx.count('seq_client_headers_' + ('None' if defaults is None else 'empty_mapping' if not defaults else 'given'))
            if defaults and any(own_names[j] - own_names[i] for i in range(n) for j in range(i)):
                ctx.count('seq_client_with_default_headers:_a_later_request_lacks_a_header_an_earlier_one_passed')
            if defaults and any({k.lower() for k in defaults} & o for o in own_names):
                ctx.count('seq_with_a_default_header_overridden_by_a_call')
            if steps[0].get('second_context_at'):
                ctx.count('seq_TestClient_entered_twice_as_conductor_context')
            for st in steps:
                c = st['call']
                ctx.count('seq_call_style_' + c['style'] + ('(+simulate_get_stream on conductors)' if c.get('stream_api') else ''))
                ctx.count('seq_call_headers_' + c['header_form'])
                for k in c['kw']:
                    if k != 'headers':
                        ctx.count('seq_call_passes_' + k + '=')
            if si < 1:
                ctx.sample({'sequence_case': case})

    sess = ctx.session('response finalization through the spec-faithful drivers = Fz model (both stacks)', 'fzdriver')

    hangs = [0]
    for ci in range(ctx.n(6000, 80000)):
        if hangs[0] >= 2:
            ctx.notes.append(f'shard {ctx.shard[0]}: stopped after case {ci}: the application repeatedly did not return (reported as oracle failures)')
            break
        w = gen_wire(rnd, H)
        p = R.gen_plan(rnd, sse_ok=False)
        if w.method != p['method']:
            p['method'] = w.method
        # dimensions of the responder / application that C06 adds to C05's response plans
        p['req_class'] = rnd.choice(['std', 'std', 'sub'])                       # App(request_type=<do-nothing subclass>)
        if p['media'] not in (None, 'unserialisable') and rnd.random() < 0.35:   # the "empty" JSON documents: [] {} 0 0.0 false ""
            p['media'] = rnd.choice(R.FALSY_MEDIA)
        if p['stream'] is not None and p['stream']['kind'].startswith('file') and rnd.random() < 0.3:
            p['stream']['reader'] = R.gen_reader(rnd)                            # a file-like object with short reads before the end
            p['stream']['chunks'] = []
        p['reads'] = gen_reads(rnd, ATTRS, GROUPS)                               # the order in which the responder reads the request
        mode = rnd.choice(BODY_MODES)
        if malformed_cl(w):
            # RFC 9112 6.3: a server answers 400 itself when Content-Length is unparsable (it cannot frame the message), so such a
            # request reaches an application on neither interface; keep the header for the header accessors but leave the body alone
            mode = 'none'
            ctx.count('malformed_content_length(body not touched)')
        opts = {'strip': rnd.random() < 0.3, 'keep_blank': rnd.random() < 0.5, 'csv': rnd.random() < 0.5}
        case = {'wire': w.describe(), 'http10_without_host': w.http10, 'options': opts, 'body_mode': mode, 'plan': p}

        dw, rw, wrec = via_spec_wsgi(w, p, mode, opts)
        wsnap = CUR['snap']
        da, ra, arec = via_spec_asgi(w, p, mode, opts)
        asnap = CUR['snap']

        # (a) the two stacks, same wire request through the spec-faithful drivers
        if 'hang' in rw or 'hang' in ra:
            hangs[0] += 1
        what = diff(dw, da)
        ctx.oracle('stacks agree: request seen by the responder', what is None, what, case)
        for stack, dg in (('wsgi', dw), ('asgi', da)):
            if dg is not None:
                bad = digest_faults(dg)
                ctx.oracle(f'one request object ({stack}): an attribute read again gives the same value; every value has its documented type',
                           not bad, '; '.join(bad[:4]) or None, case)
        what = None if rw == ra else f'WSGI {rw!r} vs ASGI {ra!r}'
        ctx.oracle('stacks agree: response', what is None, what, case)

        # (b) falcon.testing vs the spec-faithful driver, per stack
        for asgi, dspec, rspec, rec in ((False, dw, rw, wrec), (True, da, ra, arec)):
            stack = 'asgi' if asgi else 'wsgi'
            dt, rt = via_testing(asgi, w, p, mode, opts)
            if 'hang' in rt:
                hangs[0] += 1
            if 'testing_raised' in rt and not asgi and dt is None and malformed_cl(w):
                ctx.count('testing_wsgi_refused_by_wsgiref_validate(malformed Content-Length)')
                continue
            if ('testing_raised' in rt and not asgi and 'Content-Type header found in a' in rt['testing_raised'] and rspec.get('status') in R.TYPELESS
                    and any(k == 'content-type' for k, _ in rspec['headers'])):
                # wsgiref.validate (inside falcon.testing) refuses any Content-Type on 204/304, also one the application set itself
                ctx.count('testing_wsgi_refused_by_wsgiref_validate(204/304 response with a Content-Type)')
                continue
            what = diff(dspec, dt)
            ctx.oracle(f'falcon.testing = spec driver ({stack}): request seen by the responder', what is None, what, case)
            if 'status' in rspec:
                pairs = (rec['start'][0][1] if not asgi else H.asgi_response(rec)[1])
                view = as_testing_view(dict(rspec, headers_in_order=pairs))
            else:
                view = rspec
            what = None if view == rt else f'spec driver {view!r} vs falcon.testing {rt!r}'
            ctx.oracle(f'falcon.testing = spec driver ({stack}): response', what is None, what, case)

        # response-side correspondence with the Lean model, through the spec drivers
        if R.in_model(p) and 'status' in rw and 'status' in ra and 'hdr' in wsnap and wsnap == asnap:
            st, hl, _ = wrec['start'][0]
            W = R.fz_show(int(st[:3]), hl, wrec['chunks'], wrec['iter_exc'] is not None)
            code, hs_, chunks = H.asgi_response(arec)
            A = R.fz_show(code, hs_, chunks, arec['app_exc'] is not None)
            sess.case(case)
            sess.op(R.fz_line(p, wsnap), f'W {W} A {A}')

        nontriv = len(w.headers) > 2 or '?' in w.target or bool(w.body)
        ctx.seen(json.dumps(case, sort_keys=True, default=repr), nontriv)
        ctx.count('method_' + w.method)
        ctx.count('body_mode_' + mode)
        ctx.count('with_body' if w.body else 'without_body')
        ctx.count('attribute_reads_' + ('documented_order' if p['reads'] == 'documented order' else
                                        'everything_twice_in_two_random_orders' if len(p['reads']) >= 2 * len(ATTRS) else 'random_permutation_with_re-reads'))
        ctx.count('request_type_' + p['req_class'] + '/response_type_' + p['resp_class'])
        if p['media'] in R.FALSY_MEDIA:
            ctx.count('media_falsy_document_' + p['media'] + ('(custom response_type)' if p['resp_class'] != 'std' else ''))
        if p['stream'] is not None and p['stream'].get('reader'):
            rd = p['stream']['reader']
            hand = R.reader_handouts(rd)
            ctx.count('file_stream_short_reads_' + rd['pattern'] + ('' if p['stream']['kind'] == 'file' else '(no close())'))
            if any(0 < len(c) < R.BLOCK for c in hand[:-2]):
                ctx.count('file_stream_with_a_short_read_before_the_end')
            if rd['size'] > R.BLOCK:
                ctx.count('file_stream_longer_than_one_8KiB_block')
        if any(v == '' for _, v in w.headers):
            ctx.count('with_a_present_but_empty_header')
        if any(k.lower() == 'accept' and v == '' for k, v in w.headers):
            ctx.count('with_an_empty_Accept' + ('_and_an_HTTPError_to_render' if p.get('raise') in ('notfound', 'httperror') else ''))
        if ci < 1:
            ctx.sample({'case': case, 'what_the_responder_saw (identical on all four paths)': dw, 'response (identical)': rw})
    sequences_part()
    sess.finish()
    header_lookup_part(ctx, rnd, falcon, H, json)
    target_part(ctx, rnd, falcon, H, json)
    read_history_part(ctx, rnd, falcon, H, json)
    loop.close()


# ---------------------------------------------------------------------- request side: the two header stores vs the Wr model
H_SINGLE = ['Content-Type', 'Content-Length', 'Cookie', 'Expect', 'From', 'Host', 'Max-Forwards', 'Referer', 'User-Agent']
H_MULTI = ['Accept', 'X-Custom', 'X-A', 'Forwarded', 'Accept-Language', 'If-Match', 'X-Forwarded-For', 'Via', 'SS', 'S', 'Http-Content-Type',
           'Content-Typ', 'Content-Type-X', 'Content', "X!#$%&'*+.^`|~9", 'A', 'X-', '-', 'Http-Host', 'Cookie2']
H_UNDERSCORE = ['X_Custom', 'X_A', 'Content_Type', 'Content_Length', 'User_Agent', '_', 'X-Custom_', 'Http_Host']
H_VALUES = ['', '', 'a', 'b', 'a, b', 'text/html', 'application/json', 'v\xe9', '\xff', 'x=1; y=2', '12', '0', ',', 'a b', '*/*']
H_CL_VALUES = ['12', '0', '', 'x', '-1', '1_0', '+5', '007', '1__0', '99999999999999999999', ' 7', '7\t', '\xa05', '5\x85', '\x1c5', '-0', '1 2', '\xb2']
H_LOOKUPS = ['Content-Type', 'CONTENT-LENGTH', 'content-length', 'Content_Type', 'CONTENT_LENGTH', 'X-Missing', 'Host', 'accept', 'Http-Content-Type',
             'HTTP_CONTENT_TYPE', '\xdf', 'SS', 'ss', '\xb5', '\xff', '\xc9', '\xe9', '', 'X-Custom', 'x_custom', 'User-Agent', 'Cookie']
H_EXOTIC = set('\x85\xa0')  # what int(str) skips and int(bytes) does not


def header_lookup_part(ctx, rnd, falcon, H, json):
    """Field lines -> (PEP 3333 environ, ASGI scope) by the spec-faithful drivers -> falcon.Request / falcon.asgi.Request;
    get_header (3 call forms x several spellings), headers, headers_lower, content_type, content_length of the real objects
    against the Lean model `Wr` of both views (correspondence, also OUTSIDE the domain of the theorems, where the model predicts the
    difference), and against each other inside the domain (oracle: the statement of Wr.header_lookup_agree etc.)."""
    import falcon.asgi

    def enc(t):
        return '.' + '.'.join(str(ord(c)) for c in t)

    def enc_d(d):
        return ';'.join(enc(k) + ':' + enc(v) for k, v in d.items()) or '-'

    def res(f):
        try:
            v = f()
        except falcon.HTTPMissingHeader:
            return '!'
        except Exception as e:  # noqa
            return 'EXC:' + type(e).__name__
        return '~' if v is None else (enc(v) if isinstance(v, str) else 'TYPE:' + type(v).__name__)

    def cl(req):
        try:
            v = req.content_length
        except falcon.HTTPInvalidHeader:
            return 'bad'
        except Exception as e:  # noqa
            return 'EXC:' + type(e).__name__
        return '~' if v is None else str(v)

    def recase(n):
        r = rnd.random()
        if r < 0.25:
            return n
        if r < 0.45:
            return n.lower()
        if r < 0.65:
            return n.upper()
        return ''.join(c.upper() if rnd.random() < 0.5 else c.lower() for c in n)

    async def receive():  # never awaited: no body is read
        raise AssertionError('receive() called')

    sess = ctx.session('header stores: falcon.Request(environ) and falcon.asgi.Request(scope) = Wr model (get_header, headers, headers_lower, content_type, content_length)', 'wrdriver')
    # str.upper()/str.lower() of the model = Python's on every code point < 256
    allc = ''.join(chr(i) for i in range(256))
    sess.case({'selftest': 'upper/lower tables'})
    sess.op('u ' + enc(allc), enc(allc.upper()) + '/' + enc(allc.lower()))
    for i in range(ctx.shard[0], 256, ctx.shard[1]):
        sess.op('u ' + enc(chr(i)), enc(chr(i).upper()) + '/' + enc(chr(i).lower()))

    for ci in range(ctx.n(3000, 40000)):
        pool = rnd.sample(H_SINGLE, rnd.randint(0, 3)) + rnd.sample(H_MULTI, rnd.randint(0, 3))
        if rnd.random() < 0.2:
            pool += rnd.sample(H_UNDERSCORE, rnd.randint(1, 2))
        headers = []
        for _ in range(rnd.randint(0, 8) if pool else 0):
            n = rnd.choice(pool)
            headers.append((recase(n), rnd.choice(H_CL_VALUES if n.lower().replace('_', '-') == 'content-length' else H_VALUES)))
        if rnd.random() < 0.6:  # bring the request into the domain of the theorems: no '_' names, singletons once
            seen, kept = set(), []
            for n, v in headers:
                n = n.replace('_', '-')
                if n.lower() in SINGLETONS:
                    if n.lower() in seen:
                        continue
                    seen.add(n.lower())
                kept.append((n, v))
            headers = kept
        method = rnd.choice(['GET', 'GET', 'POST', 'HEAD', 'PUT'])
        fw, has_client = rnd.random() < 0.3, rnd.random() < 0.5
        present = [n for n, _ in headers]
        lookups = []
        for _ in range(rnd.randint(2, 6)):
            r = rnd.random()
            if present and r < 0.45:
                lookups.append(recase(rnd.choice(present)))
            elif present and r < 0.55:
                n = rnd.choice(present)
                lookups.append(recase(n.replace('-', '_') if '-' in n else n.replace('_', '-')))
            elif r < 0.8:
                lookups.append(rnd.choice(H_LOOKUPS))
            else:
                lookups.append(recase(rnd.choice(H_SINGLE + H_MULTI)))
        for n in ('Content-Type', 'Content-Length'):
            if rnd.random() < 0.3:
                lookups.append(recase(n))

        w = H.Wire(method, '/', headers, b'', 'http', ('localhost', 80), ('10.0.0.1', 5555) if has_client else None, '')
        env = H.wsgi_environ(w, file_wrapper=H.FileWrapper if fw else None)
        scope = H.asgi_scope(w)
        case = {'wire': w.describe(), 'wsgi.file_wrapper': fw, 'lookups': lookups}
        try:
            wreq = falcon.Request(env)
            areq = falcon.asgi.Request(scope, receive)
        except Exception as e:  # noqa
            ctx.oracle('stacks agree: header lookups on Request objects built from the spec-faithful environ / scope', False,
                       f'constructing the Request objects raised {type(e).__name__}: {e}', case)
            continue
        got = {}
        for n in lookups:
            got[n] = ([res(lambda: wreq.get_header(n)), res(lambda: wreq.get_header(n, default='dflt')), res(lambda: wreq.get_header(n, required=True))],
                      [res(lambda: areq.get_header(n)), res(lambda: areq.get_header(n, default='dflt')), res(lambda: areq.get_header(n, required=True))])
        try:
            hw, hl, ha = dict(wreq.headers), dict(wreq.headers_lower), dict(areq.headers)
            ha2 = dict(areq.headers_lower)
            ctw, cta = wreq.content_type, areq.content_type
        except Exception as e:  # noqa
            ctx.oracle('stacks agree: header lookups on Request objects built from the spec-faithful environ / scope', False,
                       f'reading headers, headers_lower (in that order) and content_type raised {type(e).__name__}: {e}', case)
            continue
        clw, cla = cl(wreq), cl(areq)
        expect = ('g=' + ('|'.join(','.join(got[n][0]) + '/' + ','.join(got[n][1]) for n in lookups) or '-')
                  + ' HW=' + enc_d(hw) + ' HL=' + enc_d(hl) + ' HA=' + enc_d(ha)
                  + ' CT=' + ('~' if ctw is None else enc(ctw)) + '/' + ('~' if cta is None else enc(cta))
                  + ' CL=' + clw + '/' + cla)
        sess.case(case)
        sess.op(f"h fw={int(fw)} cl={int(has_client)} m={enc(method)} hs={';'.join(enc(k) + ':' + enc(v) for k, v in headers) or '-'} q={','.join(enc(n) for n in lookups)}",
                expect)

        # ---- the property itself, inside its domain
        def tok(n):
            return n.isascii() and '_' not in n
        lows = [n.lower() for n, _ in headers]
        in_domain = all(tok(n) for n, _ in headers) and all(lows.count(x) <= 1 for x in SINGLETONS)
        if in_domain:
            bad = [f'get_header({n!r}): WSGI {got[n][0]} vs ASGI {got[n][1]}' for n in lookups if tok(n) and got[n][0] != got[n][1]]
            if hl != ha or ha != ha2:
                bad.append(f'headers_lower: WSGI {hl!r} vs ASGI {ha!r} (ASGI .headers_lower {ha2!r})')
            if {k.lower(): v for k, v in hw.items()} != ha:
                bad.append(f'headers (keys lower-cased): WSGI {hw!r} vs ASGI {ha!r}')
            if ctw != cta:
                bad.append(f'content_type: WSGI {ctw!r} vs ASGI {cta!r}')
            if clw != cla and not any(n.lower() == 'content-length' and (set(v) & H_EXOTIC) for n, v in headers):
                bad.append(f'content_length: WSGI {clw} vs ASGI {cla}')
            ctx.oracle('stacks agree: header lookups on Request objects built from the spec-faithful environ / scope', not bad, '; '.join(bad) or None, case)
            ctx.count('hdr_case_in_domain')
        else:
            ctx.count('hdr_case_outside_domain(repeated singleton or "_" name: model predicts the difference)')
        if any(lows.count(x) > 1 for x in set(lows)):
            ctx.count('hdr_case_with_repeated_name')
        ctx.seen(json.dumps(['hdr', case], sort_keys=True, default=repr), len(headers) >= 2)
    sess.finish()


# ---------------------------------------------------------------------- request side: histories of reads on one request object vs the Rm model
MEMO_NAMES = ['if_match', 'if_none_match', 'forwarded', 'uri', 'url', 'relative_uri', 'prefix', 'forwarded_uri', 'forwarded_prefix', 'forwarded_scheme',
              'forwarded_host', 'headers', 'headers_lower', 'cookies', 'get_cookie_values', 'access_route', 'remote_addr']


def read_history_part(ctx, rnd, falcon, H, json):
    """One wire request -> environ / scope by the spec-faithful drivers -> ONE falcon.Request and ONE falcon.asgi.Request object (stock
    class or a do-nothing subclass), on which the same history of reads is performed: every public attribute the check compares (+
    get_cookie_values) in a random order, some several times, or a short script over the memoized accessors.  Oracles (direct readings
    of "sees the same request"): every read returns what a FRESH object returns for that attribute when nothing else was read before
    (the value does not depend on the order or repetition of reads), WSGI and ASGI agree read by read, every value has its documented
    type.  Correspondence: the Lean model Rm (ReqMemo.lean: which private cell each accessor tests / assigns / returns and which
    accessors it reads meanwhile) predicts every read of every history."""
    import inspect
    import falcon.asgi
    import warnings
    warnings.simplefilter('ignore')

    class SubW(falcon.Request):
        pass

    class SubA(falcon.asgi.Request):
        pass
    CLS = {'std': (falcon.Request, falcon.asgi.Request), 'sub': (SubW, SubA)}
    NAMES = ATTRS + ['get_cookie_values']

    def alias_of(cls, name):
        """`url = uri`: the very same property object under a second name"""
        me = inspect.getattr_static(cls, name)
        for n in NAMES:
            if n == name:
                return name
            if inspect.getattr_static(cls, n) is me:
                return n
    ALIAS = {k: {n: alias_of(c, n) for n in NAMES} for k, c in (('w', falcon.Request), ('a', falcon.asgi.Request))}

    async def receive():  # never awaited: no body is read
        raise AssertionError('receive() called')

    def get(req, name):
        try:
            v = req.get_cookie_values('a') if name == 'get_cookie_values' else getattr(req, name)
        except falcon.HTTPError as e:
            return ['http', e.status if isinstance(e.status, (int, str)) else str(e.status), e.title, e.description], None
        except Exception as e:  # noqa
            return ['EXC', type(e).__name__], None
        if not doc_type_ok(name, v):
            return ['UNDOCUMENTED TYPE', type(v).__name__, repr(v)[:60]], v
        return ['ok', canon(v)], v

    OPTS = {}
    for strip in (False, True):
        for kb in (False, True):
            for csv in (False, True):
                o = falcon.RequestOptions()
                o.strip_url_path_trailing_slash, o.keep_blank_qs_values, o.auto_parse_qs_csv = strip, kb, csv
                OPTS[(strip, kb, csv)] = o

    sess = ctx.session('histories of attribute reads on one request object: falcon.Request and falcon.asgi.Request = Rm model (memoized accessors)', 'rmdriver')
    for ci in range(ctx.n(1500, 20000)):
        w = gen_wire(rnd, H)
        w.body = b''
        kind = rnd.choice(['std', 'std', 'sub'])
        ok_ = (rnd.random() < 0.3, rnd.random() < 0.5, rnd.random() < 0.5)
        if rnd.random() < 0.35:
            hist = [rnd.choice(MEMO_NAMES) for _ in range(rnd.randint(2, 8))]
            shape = 'short_script_over_memoized_accessors'
        else:
            hist = gen_reads(rnd, NAMES)
            shape = 'documented_order' if hist == 'documented order' else 'everything_twice_in_two_random_orders' if len(hist) >= 2 * len(NAMES) else 'random_permutation_with_re-reads'
            if hist == 'documented order':
                hist = list(NAMES)
        env, scope = H.wsgi_environ(w), H.asgi_scope(w)
        mk = {'w': lambda: CLS[kind][0](dict(env), options=OPTS[ok_]), 'a': lambda: CLS[kind][1](dict(scope), receive, options=OPTS[ok_])}
        case = {'wire': w.describe(), 'request_class': 'stock' if kind == 'std' else 'do-nothing subclass',
                'options': {'strip': ok_[0], 'keep_blank': ok_[1], 'csv': ok_[2]}, 'reads_in_order': hist}
        try:
            fresh = {st: {n: get(mk[st](), n)[0] for n in set(hist)} for st in 'wa'}      # each attribute on an object of its own
            objs = {st: mk[st]() for st in 'wa'}
        except Exception as e:  # noqa
            ctx.oracle('one request object: the value of an attribute does not depend on the order / repetition of reads', False,
                       f'constructing the Request objects raised {type(e).__name__}: {e}', case)
            continue
        seen = {st: [get(objs[st], n) for n in hist] for st in 'wa'}

        bad_order, bad_type = [], []
        for st, stack in (('w', 'WSGI'), ('a', 'ASGI')):
            for i, n in enumerate(hist):
                got = seen[st][i][0]
                if got[0] == 'UNDOCUMENTED TYPE':
                    bad_type.append(f'{stack} read #{i + 1} ({n}): a {got[1]} ({got[2]}) is not a documented value of this attribute')
                if got != fresh[st][n]:
                    bad_order.append(f'{stack} read #{i + 1} ({n}) after {hist[max(0, i - 3):i]!r}: {got!r}, on a fresh object: {fresh[st][n]!r}')
        ctx.oracle('one request object: the value of an attribute does not depend on the order / repetition of reads', not bad_order, '; '.join(bad_order[:3]) or None, case)
        ctx.oracle('one request object: every value read has its documented type', not bad_type, '; '.join(bad_type[:3]) or None, case)

        def lowered(n, g):
            return ['ok', {k.lower(): v for k, v in g[1].items()}] if n == 'headers' and g[0] == 'ok' else g
        bad = [f'read #{i + 1} ({n}): WSGI {seen["w"][i][0]!r} vs ASGI {seen["a"][i][0]!r}' for i, n in enumerate(hist)
               if lowered(n, seen['w'][i][0]) != lowered(n, seen['a'][i][0])]
        ctx.oracle('stacks agree: the same history of attribute reads on Request objects built from the spec-faithful environ / scope', not bad, '; '.join(bad[:3]) or None, case)

        # ---- the Lean model of the memo cells predicts every read
        sess.case(case)
        for st in 'wa':
            names = [ALIAS[st][n] for n in hist]
            nones = sorted({ALIAS[st][n] for n in set(hist) if fresh[st][n] == ['ok', None]})
            exp = []
            for i, n in enumerate(hist):
                got, raw = seen[st][i]
                if got == fresh[st][n]:
                    exp.append('~' if got == ['ok', None] else '=')
                else:
                    exp.append('U' if type(raw).__name__ == '_Unset' else '~' if got == ['ok', None] else 'X:' + (type(raw).__name__ if got[0] != 'EXC' else got[1]))
            sess.op(f"m st={st} none={','.join(nones) or '-'} h={','.join(names)}", ','.join(exp))

        ctx.count('read_history_' + shape)
        ctx.count('read_history_request_class_' + ('stock' if kind == 'std' else 'do-nothing_subclass'))
        if any(hist.index(n) < i for i, n in enumerate(hist)):
            ctx.count('read_history_with_a_repeated_read')
        if 'if_none_match' in hist and 'if_match' in hist[hist.index('if_none_match'):]:
            ctx.count('read_history_reads_if_match_after_if_none_match')
        ctx.seen(json.dumps(['hist', case], sort_keys=True, default=repr), len(set(hist)) >= 2)
    sess.finish()


# ---------------------------------------------------------------------- request side: target and connection attributes vs the Wq model
T_SEGS = SEGS + ['%', '%4', '%zz', '%C3', '%A9', '%e2%82', '%F0%9F%98%80', '%ED%A0%80', '%C0%AF', '%F4%90%80%80', '%3F', '%2f', 'A', '..', '.', '%25', '%41',
                 '%e9', '%C3%A9%C3', '+', 'a+b', '%80%80', '%E2%82%ACx']
T_QUERIES = QUERIES + ['a=1?b=2', '?', '%', 'a=%', 'k=%C3', 'a=b=c', '=v', '&&', 'a=1&', 'x=%F0%9F%98%80', 'a=,', 'a=1,,2&a=3', 'A=1&a=2', 'sp=a+b%2Bc', 'u=%E2%82%AC,%2C']
T_RAW = [b'\xc3\xa9', b'\xff', b'\xe9', b'\xe2\x82\xac', b'\x80', b'\xc3']          # raw (unescaped) non-ASCII bytes: outside RFC 3986
T_HOSTS = HOSTS + ['h', 'h:0', 'h:65535', 'h:+5', 'h: 7', '[::1]', '[::1]:', '[::1]:x', 'a:b:c', '', ':', ':80', 'example.com:080', 'h:1_0']
T_METHODS = ['GET', 'GET', 'POST', 'PUT', 'HEAD', 'DELETE', 'PATCH', 'OPTIONS', 'CONNECT', 'TRACE', 'PROPFIND']
T_SCHEMES_OUT = ['ws', 'wss', 'ftp', 'HTTP', 'HTTPS', '']
T_ROOTS = ['', '', '', '/app', '/a/b', '/app/', '/A']
T_FWD = [('X-Forwarded-For', ['1.1.1.1, 2.2.2.2', '3.3.3.3', 'unknown', '', ' 4.4.4.4 ,5.5.5.5', '10.0.0.1']),
         ('X-Real-Ip', ['9.9.9.9', '', '10.0.0.1']),
         ('Forwarded', ['for=1.2.3.4;proto=https;host=h.example', 'for="[::1]:80", for=5.6.7.8', 'garbage;;,', 'for=a;by=b', 'for="1.2.3.4:_obf"', 'host=x', 'for=10.0.0.1'])]


def target_part(ctx, rnd, falcon, H, json):
    """Wire request (method, raw request-target bytes, scheme, server / client address, mount point, Host or not) -> PEP 3333 environ and
    ASGI scope by the spec-faithful drivers (with the liberties the two specs leave to a server: optional keys left out) -> falcon.Request /
    falcon.asgi.Request; method, path, query_string, params, root_path (= app), scheme, host, port, netloc, remote_addr, access_route of the
    real objects against the Lean model `Wq` of both views (correspondence, also OUTSIDE the domain of the theorems where the model
    predicts the difference) and against each other inside the domain (oracle: the statements of Wq.path_agree, ... themselves)."""
    import falcon.asgi
    import warnings
    warnings.simplefilter('ignore')

    def enc(t):
        return '.' + '.'.join(str(ord(c)) for c in t)

    def encb(b):
        return '.' + '.'.join(str(c) for c in b)

    def out(f, show=enc):
        try:
            v = f()
        except falcon.HTTPInvalidHeader:
            return '400'
        except Exception:  # noqa
            return 'EXC'
        return show(v)

    def pretty(x):
        """'.104.105' -> "'hi'" (for messages only)"""
        import re
        return re.sub(r'\.(\d+(?:\.\d+)*)?(?![\d.])', lambda m: repr(''.join(chr(int(t)) for t in (m.group(1) or '').split('.') if t)), x)

    def show_params(p):
        if not p:
            return '-'
        return ';'.join(enc(k) + ':' + ('m' + ','.join(enc(x) for x in v) if isinstance(v, list) else 'o' + enc(v)) for k, v in p.items())

    def show_port(v):
        return '~' if v is None else str(v)

    def show_route(r):
        return ','.join(enc(x) for x in r) if r else '-'

    def observe(req):
        return [out(lambda: req.method), out(lambda: req.path), out(lambda: req.query_string), out(lambda: req.params, show_params),
                out(lambda: req.root_path), out(lambda: req.scheme), out(lambda: req.host), out(lambda: req.port, show_port),
                out(lambda: req.netloc), out(lambda: req.remote_addr), out(lambda: req.access_route, show_route)]
    NAMES = ['method', 'path', 'query_string', 'params', 'root_path', 'scheme', 'host', 'port', 'netloc', 'remote_addr', 'access_route']

    async def receive():  # never awaited
        raise AssertionError('receive() called')

    OPTS = {}
    for strip in (False, True):
        for kb in (False, True):
            for csv in (False, True):
                o = falcon.RequestOptions()
                o.strip_url_path_trailing_slash, o.keep_blank_qs_values, o.auto_parse_qs_csv = strip, kb, csv
                OPTS[(strip, kb, csv)] = o

    sess = ctx.session('request target and connection: falcon.Request(environ) and falcon.asgi.Request(scope) = Wq model '
                       '(method, path, query_string, params, root_path, scheme, host, port, netloc, remote_addr, access_route)', 'wrdriver')
    ORACLE = 'stacks agree: target and connection attributes on Request objects built from the spec-faithful environ / scope'
    for ci in range(ctx.n(4000, 60000)):
        # ---- the wire request
        r = rnd.random()
        if r < 0.06:
            path = b'/'
        elif r < 0.09:
            path = b''        # the mount point is the whole URL path (PATH_INFO may be empty)
        else:
            path = ('/' + '/'.join(rnd.choice(T_SEGS) for _ in range(rnd.randint(1, 4))) + rnd.choice(['', '', '/', '/', '//'])).encode('ascii')
        raw_path = rnd.random() < 0.04
        if raw_path:
            path += rnd.choice(T_RAW) + rnd.choice([b'', b'/'])
        query = rnd.choice(T_QUERIES).encode('ascii')
        raw_query = rnd.random() < 0.06
        if raw_query:
            query += rnd.choice([b'', b'&r=', b'&']) + rnd.choice(T_RAW) + rnd.choice([b'', b'=1'])
        target = path + (b'?' + query if query or rnd.random() < 0.1 else b'')
        method = rnd.choice(T_METHODS) if rnd.random() < 0.94 else rnd.choice(['get', 'Post', 'pUT'])
        scheme = rnd.choice(['http', 'http', 'https']) if rnd.random() < 0.92 else rnd.choice(T_SCHEMES_OUT)
        server = (rnd.choice(['falconframework.org', 'localhost', '10.0.0.5', '::1', 'srv']), rnd.choice([80, 443, 8080, 8443, 0, 65535, 8000, 4430, 800]))
        client = rnd.choice([None, None, ('10.0.0.1', 5555), ('192.0.2.7', 40000), ('1.1.1.1', 1), ('::1', 0), ('2001:db8::1', 65535)])
        if rnd.random() < 0.03:
            client = ('', 0)
        root = rnd.choice(T_ROOTS) if rnd.random() < 0.95 else rnd.choice(['/caf\xe9', '/€', '/\xff'])
        headers = []
        if rnd.random() < 0.7:
            headers.append((rnd.choice(['Host', 'host', 'HOST']), rnd.choice(T_HOSTS)))
            if rnd.random() < 0.04:
                headers.append((rnd.choice(['Host', 'host']), rnd.choice(T_HOSTS)))
        for n, vals in T_FWD:
            if rnd.random() < 0.15:
                headers.append((rnd.choice([n, n.lower(), n.upper()]), rnd.choice(vals)))
                if rnd.random() < 0.15:
                    headers.append((n, rnd.choice(vals)))
        if rnd.random() < 0.3:
            headers.append(('Accept', '*/*'))
        if rnd.random() < 0.03:
            headers.append((rnd.choice(['X_Forwarded_For', 'X_Real_Ip', 'HOST_']), '7.7.7.7'))
        rnd.shuffle(headers)
        # ---- the liberties of a server
        lib = {'omit_SCRIPT_NAME': rnd.random() < 0.3, 'omit_QUERY_STRING': rnd.random() < 0.3, 'omit_root_path': rnd.random() < 0.3,
               'omit_scheme': rnd.random() < 0.3, 'client_None': rnd.random() < 0.08, 'server_key': 'g' if rnd.random() < 0.88 else rnd.choice('mn')}
        strip, kb, csv = rnd.random() < 0.5, rnd.random() < 0.5, rnd.random() < 0.5
        path_b, _, query_b = target.partition(b'?')
        ascii_target = all(c < 128 for c in target)

        w = H.Wire(method, target.decode('ascii') if ascii_target else '/', headers, b'', scheme, server, client, root)
        env = H.wsgi_environ(w)
        scope = H.asgi_scope(w)
        if not ascii_target:
            # raw non-ASCII bytes in the request-target (outside RFC 3986 and outside lib_http.Wire): the same rules on bytes -
            # PEP 3333 tunnels every CGI variable as latin-1, the ASGI scope carries the query as bytes
            env['PATH_INFO'] = H.pct_decode(path_b.decode('latin-1')).decode('latin-1')
            env['QUERY_STRING'] = query_b.decode('latin-1')
            scope['path'] = H.pct_decode(path_b.decode('latin-1')).decode('utf-8', 'replace')
            scope['raw_path'] = path_b
            scope['query_string'] = query_b
        if not root.isascii():
            env['SCRIPT_NAME'] = root.encode('utf-8').decode('latin-1')   # PEP 3333: bytes tunnelled as latin-1; ASGI root_path is a unicode string
        if lib['omit_SCRIPT_NAME'] and root == '':
            del env['SCRIPT_NAME']
        if lib['omit_QUERY_STRING'] and query_b == b'':
            del env['QUERY_STRING']
        if lib['omit_root_path'] and root == '':
            del scope['root_path']
        if lib['omit_scheme'] and scheme == 'http':
            del scope['scheme']
        if client is None and lib['client_None']:
            scope['client'] = None
        if lib['server_key'] == 'm':
            del scope['server']
        elif lib['server_key'] == 'n':
            scope['server'] = None
        if rnd.random() < 0.3:
            del scope['raw_path']
        case = {'method': method, 'target': target, 'scheme': scheme, 'server': list(server), 'client': list(client) if client else None, 'root_path': root,
                'headers': [list(h) for h in headers], 'server_liberties': lib, 'strip_url_path_trailing_slash': strip, 'keep_blank_qs_values': kb,
                'auto_parse_qs_csv': csv}

        try:
            wobs = observe(falcon.Request(env, options=OPTS[(strip, kb, csv)]))
            if wobs[4] != out(lambda: falcon.Request(env).app):
                wobs[4] = 'APP!=ROOT_PATH'
        except Exception as e:  # noqa
            wobs = ['CTOR:' + type(e).__name__]
        try:
            areq = falcon.asgi.Request(scope, receive, options=OPTS[(strip, kb, csv)])
        except UnicodeDecodeError:
            aobs = ['CTOR']
        except Exception as e:  # noqa
            aobs = ['CTOR:' + type(e).__name__]
        else:
            aobs = observe(areq)
            if aobs[4] != out(lambda: areq.app):
                aobs[4] = 'APP!=ROOT_PATH'

        libs = ''.join(str(int(lib[k])) for k in ('omit_SCRIPT_NAME', 'omit_QUERY_STRING', 'omit_root_path', 'omit_scheme', 'client_None')) + lib['server_key']
        sess.case(case)
        sess.op(f"t m={enc(method)} tg={encb(target)} sc={enc(scheme)} sn={enc(server[0])} sp={server[1]} "
                f"cl={'-' if client is None else enc(client[0]) + ':' + str(client[1])} rp={enc(root)} fw=0 "
                f"hs={';'.join(enc(k) + ':' + enc(v) for k, v in headers) or '-'} lib={libs} o={int(strip)}{int(kb)}{int(csv)}",
                'W ' + ' '.join(wobs) + ' A ' + ' '.join(aobs))

        # ---- the property itself, inside its domain
        lows = [n.lower() for n, _ in headers]
        in_domain = (ascii_target and method == method.upper() and scheme in ('http', 'https') and (client is None or client[0] != '') and root.isascii()
                     and lib['server_key'] == 'g'
                     and all('_' not in n for n, _ in headers) and all(lows.count(x) <= 1 for x in SINGLETONS))
        if in_domain:
            bad = [f'{NAMES[i]}: WSGI {pretty(wobs[i])} vs ASGI {pretty(aobs[i])}' for i in range(min(len(wobs), len(aobs))) if wobs[i] != aobs[i]]
            if len(wobs) != len(aobs) or len(wobs) != len(NAMES):
                bad.append(f'constructor: WSGI {wobs[:1]} vs ASGI {aobs[:1]}')
            ctx.oracle(ORACLE, not bad, '; '.join(bad) or None, case)
            ctx.count('tgt_case_in_domain')
        else:
            ctx.count('tgt_case_outside_domain(raw non-ASCII target byte, lower-case method, scheme not http/https, empty client address, '
                      'server key missing, non-ASCII mount point, "_" name or repeated Host: model predicts the difference)')
        if b'%' in path_b:
            ctx.count('tgt_path_with_percent_escape')
        try:
            H.pct_decode(path_b.decode('latin-1')).decode('utf-8')
        except UnicodeDecodeError:
            ctx.count('tgt_path_decodes_to_invalid_utf8')
        if client is None and lib['client_None']:
            ctx.count('tgt_scope_client_is_None' + ('(in domain: the stacks must agree)' if in_domain else ''))
        if not any(n == 'host' for n in lows):
            ctx.count('tgt_without_Host_header')
        ctx.seen(json.dumps(['tgt', case], sort_keys=True, default=repr), b'%' in target or bool(query_b) or 'host' not in lows)
    sess.finish()
    _url_views(ctx)


def _url_views(ctx):
    """(8) URL composition. An environ and a scope that describe the same request in the sense of the hypotheses of Ru.wsgi_asgi_agree (same scheme
    other than wss, same Host header, same server name with SERVER_PORT = str(port), same mount point / path / query string, same Forwarded and
    X-Forwarded-* headers, same strip option): the thirteen URL properties are read in one random order on falcon.Request and falcon.asgi.Request;
    every read of either stack is compared with the Ru model (rudriver `wsgi ...` / `asgi ...` lines, memo cells included), and the statement oracle
    demands that the two stacks answer every read alike."""
    import falcon
    import falcon.asgi
    import falcon.testing as ft
    from runner import hx
    rnd = ctx.rng
    sess = ctx.session('URL composition of one request on both stacks: falcon.Request(environ) and falcon.asgi.Request(scope) = Ru model '
                       '(scheme, netloc, host, root_path, subdomain, forwarded, forwarded_scheme / _host / _uri / _prefix, uri, relative_uri, prefix; any read order)', 'rudriver')
    ORACLE = 'URL composition: an environ and a scope describing the same request give the same value for every read of the thirteen URL properties'

    def hs(x):
        return hx(x.encode('latin-1'))

    def show_opt(v):
        return 'none' if v is None else hs(v)

    CODES = {'sc': 'scheme', 'nl': 'netloc', 'ho': 'host', 'rp': 'root_path', 'sd': 'subdomain', 'fw': 'forwarded', 'fs': 'forwarded_scheme',
             'fh': 'forwarded_host', 'ru': 'relative_uri', 'pf': 'prefix', 'fp': 'forwarded_prefix', 'ur': 'uri', 'fu': 'forwarded_uri'}

    def read(req, attr):
        try:
            v = getattr(req, attr)
        except falcon.HTTPError as e:
            return ('http', int(str(e.status)[:3]))
        except Exception as e:  # noqa
            return ('EXC', type(e).__name__ + ': ' + str(e)[:80])
        if attr == 'forwarded':
            v = None if v is None else [(f.src, f.dest, f.host, f.scheme) for f in v]
        return ('ok', v)

    def rd_val(code, r):
        if r[0] == 'http': return 'bad'
        if r[0] != 'ok': return 'EXC'
        v = r[1]
        if code == 'fw': return 'none' if v is None else 'els' + ''.join(',' + '|'.join(show_opt(x) for x in e) for e in v)
        if code == 'sd' and v is None: return 'none'
        if not isinstance(v, str) or any(ord(ch) > 255 for ch in v): return 'PY ' + repr(v).replace(' ', '_')
        return hs(v)

    HOSTS = [None, None, 'example.com', 'example.com:80', 'example.com:443', 'a.b.example:8080', 'sub.example.com', 'localhost', '192.0.2.7:0', '[::1]', '[2001:db8::1]:8443',
             'x', 'EXAMPLE.com', 'h:', 'example.com:abc', 'a:b:c', '[::1', ':80', 'h:+80', 'h:1_0']
    NODES = ['1.2.3.4', '"1.2.3.4:5678"', '"[2001:db8::17]"', '"[::1]:80"', 'unknown', '_hidden', '"_a:_b"']

    def gen_forwarded():
        elems = []
        for _ in range(rnd.randint(1, 3)):
            pairs = []
            for k in rnd.sample(['for', 'by', 'host', 'proto'], rnd.randint(1, 4)):
                kk = ''.join(rnd.choice([c.lower(), c.upper()]) for c in k)
                v = rnd.choice(NODES) if k in ('for', 'by') else rnd.choice(['fh.example', '"a.b:8080"', '""', 'h', '"q \\"x"']) if k == 'host' else rnd.choice(['http', 'https', 'HTTPS', 'wss', '""'])
                pairs.append(kk + '=' + v)
            elems.append(rnd.choice([';', '; ']).join(pairs))
        return rnd.choice([', ', ',', ' ,', ',\t']).join(elems)

    for _ in range(ctx.n(1200, 12000)):
        scheme = rnd.choice(['http', 'http', 'https', 'https', 'HTTPS', 'ws', 'Http'])
        hostv = rnd.choice(HOSTS)
        sname = rnd.choice(['srv.example', 'localhost', '10.0.0.1', '::1', 'a.b.c'])
        sport = rnd.choice([80, 443, 80, 443, 8000, 8443, 0, 65535])
        root = rnd.choice([None, '', '', '/app', '/a/b', 'noslash'])
        path = rnd.choice(['/', '', '/p/q', '/p/q/', '//', '/x/', '/a?b'])
        strip = rnd.random() < 0.4
        query = rnd.choice(['', '', 'x=1', 'a=b&c=d', '?', None])
        k = rnd.random()
        fwd = None if k < 0.4 else gen_forwarded() if k < 0.8 else rnd.choice(['', 'proto=HTTPS;host=fh.example', 'for=1.2.3.4', 'host=""', 'proto=""', 'proto=""; host=x',
                                                                                'host=a.b;proto=wss, proto=http', ',proto=https', 'by=x', 'garbage;;,', 'for="[::1"', 'for=;', 'for'])
        xfp = rnd.choice([None, None, 'https', 'HTTPS', 'Http', ''])
        xfh = rnd.choice([None, None, 'fh.example', 'a:b', '', 'x.y:8080'])
        hdrs = [(n, v) for n, v in (('Host', hostv), ('Forwarded', fwd), ('X-Forwarded-Proto', xfp), ('X-Forwarded-Host', xfh)) if v is not None]
        reqs = {}
        # WSGI
        opts = falcon.RequestOptions(); opts.strip_url_path_trailing_slash = strip
        env = ft.create_environ(path='/', scheme='http', host='h', port=1)
        env.pop('HTTP_HOST', None)
        env['wsgi.url_scheme'] = scheme; env['SERVER_NAME'] = sname; env['SERVER_PORT'] = str(sport)
        env['PATH_INFO'] = path
        if root is None: env.pop('SCRIPT_NAME', None)
        else: env['SCRIPT_NAME'] = root
        if query is None: env.pop('QUERY_STRING', None)
        else: env['QUERY_STRING'] = query
        for n, v in hdrs: env['HTTP_' + n.upper().replace('-', '_')] = v
        lines = {'wsgi': (f'wsgi {hs(scheme)} {show_opt(hostv)} {hs(sname)} {hs(str(sport))} {show_opt(root)} {hs(path)} {1 if strip else 0} {show_opt(query)} '
                          f'{show_opt(fwd)} {show_opt(xfp)} {show_opt(xfh)}')}
        try:
            reqs['wsgi'] = falcon.Request(env, options=opts)
        except Exception as e:  # noqa
            reqs['wsgi'] = e
        # ASGI: the same request
        opts2 = falcon.RequestOptions(); opts2.strip_url_path_trailing_slash = strip
        scope = ft.create_scope(path='/', scheme='http', host='h', port=1)
        scope['scheme'] = scheme
        scope['server'] = rnd.choice([(sname, sport), [sname, sport]])
        scope['path'] = path
        if root is None: scope.pop('root_path', None)
        else: scope['root_path'] = root
        scope['query_string'] = (query or '').encode('utf-8')
        scope['headers'] = [(n.lower().encode('latin-1'), v.encode('latin-1')) for n, v in hdrs]

        async def receive():
            return {'type': 'http.request'}
        lines['asgi'] = (f'asgi {show_opt(scheme)} 0 {show_opt(hostv)} {hs(sname)} {sport} {show_opt(root)} {hs(path)} {1 if strip else 0} {hs(query or "")} '
                         f'{show_opt(fwd)} {show_opt(xfp)} {show_opt(xfh)}')
        try:
            reqs['asgi'] = falcon.asgi.Request(scope, receive, options=opts2)
        except Exception as e:  # noqa
            reqs['asgi'] = e
        order = [rnd.choice(list(CODES)) for _ in range(rnd.randint(4, 14))]
        got = {}
        for stack in ('wsgi', 'asgi'):
            if isinstance(reqs[stack], Exception):
                got[stack] = [('EXC', 'constructor: ' + type(reqs[stack]).__name__)] * len(order)
            else:
                got[stack] = [read(reqs[stack], CODES[c]) for c in order]
            sess.case({'stack': stack, 'line': lines[stack], 'order': order})
            sess.op(lines[stack] + ' ' + ','.join(order), ' '.join(rd_val(c, r) for c, r in zip(order, got[stack])))
        bad = None
        for c, rw, ra in zip(order, got['wsgi'], got['asgi']):
            if repr(rw) != repr(ra):
                bad = f'req.{CODES[c]}: WSGI {rw!r}, ASGI {ra!r} (read order {[CODES[x] for x in order]})'
                break
        case = {'scheme': scheme, 'host_header': hostv, 'server': [sname, sport], 'root_path': root, 'path': path, 'strip_url_path_trailing_slash': strip,
                'query_string': query, 'forwarded': fwd, 'x_forwarded_proto': xfp, 'x_forwarded_host': xfh, 'reads': [CODES[c] for c in order]}
        ctx.oracle(ORACLE, bad is None, bad, case)
        ctx.seen(('url', scheme, hostv, sname, sport, root, path, strip, query, fwd, xfp, xfh, tuple(order)), fwd is not None or hostv is not None)
        ctx.count('url_cases')
        ctx.count('url_forwarded_' + ('absent' if fwd is None else 'present'))
        ctx.count('url_host_header_' + ('absent' if hostv is None else 'present'))
    sess.finish()


LEVEL_TEXT = ('Proof, partial. Machine-checked (Lean 4): the response-finalization tails of falcon.App.__call__ and falcon.asgi.App.__call__ produce the same status, header list, payload and '
              'error propagation for every response state (wsgi_asgi_agree) - tied to the real apps by a differential correspondence driven through spec-faithful WSGI and ASGI drivers; '
              'for every wire-level header list with token names and no repeated singleton header, the PEP 3333 environ + falcon.Request and the ASGI scope + falcon.asgi.Request answer get_header (every spelling, '
              'required=, default=), headers_lower, content_type and content_length identically (header_lookup_agree, headers_agree, content_type_agree, content_length_agree; the singleton exclusion is proved exact); '
              'and for every wire request (raw request-target bytes with arbitrary percent-escapes, method, scheme, server / client address, mount point, Host or not) of the stated domain, every liberty the two specifications '
              'leave to a server and every setting of the request options, method, path, query_string, params, root_path / app, scheme, host, port, netloc, remote_addr and access_route are identical '
              '(Wq.request_view_agree; path_agree and scheme_agree hold without any hypothesis; each exclusion of the domain has a machine-checked witness, three are proved exact) - '
              'both request-side models are tied to the real request classes by correspondences that also cover requests outside the domain; '
              'for every history of reads on one request object - any order, any repetition, accessors that fill each other\'s cells while computing - every read of a memoized accessor of either class returns the computed value '
              '(Rm.wsgi_history_independent / asgi_history_independent / stacks_histories_agree; the transcribed cell tables pass a decidable well-formedness check, a table with a neighbour\'s cell in a guard is rejected and has a witness), '
              'tied to the real classes by a fourth correspondence over generated read histories; a file-like response stream given by its read contract (short reads before the end, any cap pattern, any positive block size) is '
              'delivered completely and identically by both stacks (Fr.wsgi_payload_complete / asgi_payload_complete), tied through the response correspondence (the driver derives the read(8192) results from the contract). '
              'The rest of the request side (URL reconstruction, the forwarded_* family, typed accessors, cookies, body under every chunking, media) and the equivalence of falcon.testing with the '
              'spec-faithful drivers - every entry point (module functions, TestClient, TestClient as conductor context, ASGIConductor, their simulate_<verb> / alias spellings, simulate_get_stream), every documented keyword argument, and sequences of requests on one client object, '
              'each request compared with the single wire request it denotes - are established by differential comparison on generated requests only.')
LEVEL_NOTE = ('Trusted: Lean kernel + standard axioms; harness/lib_http.py as the meaning of "a PEP 3333 server" / "an ASGI server"; the comparison harness. '
              'On the request side the theorems cover the header stores (model Wr: code points < 256, str.upper()/lower() tables checked against Python on every run) and the request line / connection attributes '
              '(model Wq: CPython UTF-8 decoding as U8.decodeReplace / a strict twin, str(int) as Nat.toDigits); the other request attributes and '
              'falcon.testing rest on the differential comparison (translation-validation strength).')
TECHNIQUE = 'Lean 4 relational theorems (WSGI tail = ASGI tail; WSGI header store = ASGI header store via a common canonical form; WSGI view = ASGI view of one wire request, per attribute and as a record; history-independence of the memoized accessors by a state invariant over all read histories; completeness of the stream pump by induction over all short-read patterns) + 4-way differential comparison: spec WSGI driver / spec ASGI driver / falcon.testing on each stack, on generated wire-level requests, and on generated sequences of falcon.testing calls on one client object (every entry point) against the wire request each call denotes'

"""C07 - request body streams deliver exactly the declared body: no loss, no over-read."""
PROP = 'C07'
LEAN_MODULES = ['FalconModel.WsgiStreamProofs', 'FalconModel.AsgiStreamProofs', 'FalconModel.AsgiHistory']
DRIVERS = ['w7fdriver', 'asfdriver']
THEOREMS = [
    # WSGI BoundedStream (falcon/stream.py), model Ws7F = the code after the F02/F03 repairs
    'Ws7F.read_step', 'Ws7F.readline_step', 'Ws7F.readlines_step', 'Ws7F.next_step', 'Ws7F.runOp_step',
    'Ws7F.history_refines_cursor', 'Ws7F.never_overreads', 'Ws7F.exhaust_step',
    # ASGI BoundedStream (falcon/asgi/stream.py), model AsF = the code after the F04/F05/F19 repairs
    'AsF.readall_refines', 'AsF.read_sized_refines', 'AsF.exhaust_refines', 'AsF.iterate_refines',
    'AsF.runOp_step', 'AsF.history_refines', 'AsF.history_prefix_of_declared', 'AsF.history_whole_at_eof', 'AsF.good_init',
    # the pre-repair models violate the same statements (regression witnesses, by `decide`)
    'Ws7.f02_witness', 'Ws7.f03_witness', 'f04_witness', 'f05_witness', 'f19_witness',
]
STATEMENTS = {
    'AsF.history_refines': 'ASGI: from a fresh stream whose events contain the end of the body, after ANY sequence of read(n) (any integer n) / read() / readall() / exhaust() / async-for abandoned after any number of chunks: consumed ++ still-to-come = declared body, tell() advanced by exactly |consumed|, the bytes handed to the app in call order are a prefix of consumed (all of it without exhaust), and no operation blocked on receive()',
    'Ws7F.history_refines_cursor': 'for every history of read/readline/readlines/next with any size arguments, every body, declared length and short-read oracle: the concatenated outputs are the next bytes of raw[:Content-Length], exactly the rest remains, the raw stream advanced by exactly that much, budget stays >= 0',
    'Ws7F.never_overreads': 'after any history, total returned <= Content-Length and the raw stream position = bytes returned (nothing beyond the declared length was consumed)',
    'Ws7F.exhaust_step': 'exhaust(chunk) discards a prefix of the declared body and leaves nothing',
    'AsF.read_sized_refines': 'read(n), n>0, on any event list containing the end of the body: returns exactly take n of (buffer ++ future[:remaining]), tell advances by exactly that, never blocks, re-establishes its precondition',
    'AsF.readall_refines': 'readall returns exactly the rest of the declared body, tell advances by its length, remaining = 0',
    'AsF.exhaust_refines': 'exhaust discards exactly what was still declared and counts each byte once',
    'AsF.iterate_refines': 'async-for abandoned after k chunks handed out the next part of the declared body and leaves remaining = 0 or a complete event list (no later op can block)',
}
TRUSTED = [
    'raw file-object semantics of wsgi.input (read/readline with a short-read oracle) as modelled in WsgiStreamFixed.Raw',
    'the scripted receive() raises a BaseException when it has nothing left to deliver: that is the "would block" outcome (no timeouts involved)',
]
ASSUMPTIONS = [
    'sizes passed to read/readline/readlines are None or ints; Content-Length >= 0',
    'close()/closed-stream errors of the ASGI stream are covered by the correspondence and oracle only (guard tests, no theorem); a second iteration while one is suspended is in the history theorem (it answers notAllowed and changes nothing)',
    're-entrant use (an operation on the same ASGI stream from inside the body of an `async for` over it) is generated with inner operations that consume to a chunk border or to the end (readall, read(), read(0), exhaust, tell); a sized read that leaves part of an event buffered while the iteration is parked is outside the domain: the parked iteration does not look at the buffer again (the statement speaks of sequences of operations)',
]
RULE = ('random bodies over {a,b,c,\\n} (len 0..20) x Content-Length in {absent, exact, shorter, longer, 0} x short-read oracles / '
        'ASGI event shapes (missing body/more_body keys, empty and oversized chunks, disconnect anywhere) x histories of 1..7 operations; '
        'a third of the cases go through falcon.Request.bounded_stream / falcon.asgi.Request.stream; '
        'every byte string handed out (read/readline/next results, readlines items and the list, ASGI read/readall results and iteration chunks) must be exactly a bytes (type(x) is bytes, not ==); '
        'plus, for the WSGI stream, ALL histories of length <= 3 (quick) / <= 4 (thorough) over a 7-operation alphabet on 18 (body, Content-Length, short-read) combinations; non-trivial = at least one operation returned data; distinct = distinct (stream kind, construction line, op list)')
PARTIAL = ''
JOBS = {'quick': 4, 'thorough': 16}


# headers that may accompany a body; none of them changes what Content-Length declares
EXTRA_HEADERS = [('Transfer-Encoding', 'chunked'), ('Transfer-Encoding', 'identity'), ('Transfer-Encoding', 'gzip, chunked'), ('TE', 'trailers'), ('Expect', '100-continue'),
                 ('Content-Type', 'application/json'), ('Content-Type', 'multipart/form-data; boundary=x'), ('Content-Encoding', 'gzip'), ('Connection', 'close'),
                 ('Connection', 'keep-alive, Upgrade'), ('Upgrade', 'websocket'), ('Trailer', 'Expires'), ('Content-Range', 'bytes 0-4/5'), ('X-Content-Length', '999999'),
                 ('Content-MD5', 'Q2hlY2sgSW50ZWdyaXR5IQ=='), ('Range', 'bytes=0-1')]


def run(ctx):
    _wsgi(ctx)
    _asgi(ctx)


# ------------------------------------------------------------------ WSGI

def _wsgi(ctx):
    import io
    from runner import hx, alarm, Hang
    import falcon
    import falcon.testing as ft
    from falcon.stream import BoundedStream
    rnd = ctx.rng

    class Raw(io.BytesIO):
        """wsgi.input with an explicit short-read oracle that logs every size it is asked for."""
        def __init__(s, data, shorts):
            super().__init__(data); s.shorts = list(shorts); s.asked = []; s.maxpos = 0
        def read(s, n=-1):
            s.asked.append(n)
            if s.shorts:
                c = s.shorts.pop(0)
                if c:
                    want = len(s.getvalue()) - s.tell() if (n is None or n < 0) else n
                    r = super().read(min(c, want)); s.maxpos = max(s.maxpos, s.tell()); return r
            r = super().read(n); s.maxpos = max(s.maxpos, s.tell()); return r
        def readline(s, n=-1):
            s.asked.append(n); r = super().readline(n); s.maxpos = max(s.maxpos, s.tell()); return r
        def readlines(s, n=-1):
            s.asked.append(n); r = super().readlines(n); s.maxpos = max(s.maxpos, s.tell()); return r
        def __next__(s):
            r = super().__next__(); s.maxpos = max(s.maxpos, s.tell()); return r

    sess = ctx.session('wsgi-boundedstream = Ws7F model', 'w7fdriver',
                       norm=lambda s: s.replace('lines  ', 'lines '))

    def wcase(data, cl, shorts, via_req, ops, tag):
        L = len(data)
        raw = Raw(data, shorts)
        if via_req:
            # through the request object: any accompanying headers (they never widen the bound), and Content-Length values that declare
            # no usable length (negative, not a number): those declare no body - nothing is returned and the server stream is never asked
            hdrs = {'Content-Length': str(cl)}
            if rnd.random() < 0.12:
                hdrs['Content-Length'] = rnd.choice(['-5', '-1', '-0x5', 'abc', '1.5', '5;q=1', '5, 5', '0x10', '-' + str(max(cl, 1)), '--5', '1e3'])
                cl = 0
                ctx.count('wsgi_content_length_unusable')
            if rnd.random() < 0.4:
                for hn, hv in rnd.sample(EXTRA_HEADERS, rnd.randint(1, 3)):
                    hdrs[hn] = hv
                ctx.count('wsgi_accompanying_headers')
            env = ft.create_environ(method=rnd.choice(['POST', 'PUT', 'PATCH', 'GET', 'DELETE']), path='/', headers=hdrs)
            env['CONTENT_LENGTH'] = hdrs['Content-Length']          # (verbatim: create_environ may normalise)
            env['wsgi.input'] = raw
            s = falcon.Request(env).bounded_stream
        else:
            s = BoundedStream(raw, cl)
        newline = f"new {cl} {hx(data)} {','.join(map(str, shorts)) or '-'}"
        sess.case({'via_request': via_req, 'gen': tag}); sess.op(newline, 'ok')
        decl = data[:cl]; got = b''; hist = []; nontriv = False

        def st():
            return f" rem={s._bytes_remaining} eof={'true' if s.eof else 'false'} asked={raw.asked}"
        failed = None
        for op, n in ops:
            hist.append([op, n]); d = None
            try:
                with alarm(3):
                    if op == 'read':
                        d = s.read(n); sess.op(f"read {'none' if n is None else n}", 'data ' + hx(d) + st())
                        if n is not None and n >= 0 and len(d) > n: failed = f'sized read returned {len(d)} > {n}'
                        got += d
                    elif op == 'readline':
                        d = s.readline(n); sess.op(f"readline {'none' if n is None else n}", 'data ' + hx(d) + st())
                        if n is not None and n >= 0 and len(d) > n: failed = f'sized readline returned {len(d)} > {n}'
                        if b'\n' in d[:-1]: failed = 'readline returned more than one line'
                        got += d
                    elif op == 'readlines':
                        d = s.readlines(n); sess.op(f"readlines {'none' if n is None else n}", ('lines ' + ' '.join(hx(x) for x in d)) + st())
                        got += b''.join(d)
                    elif op == 'next':
                        try:
                            d = next(s); sess.op('next', 'data ' + hx(d) + st()); got += d
                        except StopIteration:
                            sess.op('next', 'stop' + st())
                    else:
                        s.exhaust(n); sess.op(f'exhaust {n}', 'unit' + st())
                        if not s.eof and len(data) >= cl: failed = 'eof is False after exhaust() although the whole declared body was available'
                        if decl.startswith(got): got = decl  # exhaust discards the rest of the declared body
            except Hang:
                failed = f'{op} did not return (hang)'
            except Exception as e:  # noqa
                failed = f'{op} raised {type(e).__name__}: {e}'
            nontriv = nontriv or bool(got)
            ctx.count('wsgi_op_' + op)
            if failed is None and d is not None:
                # second-order observation: what the stream hands out is exactly a bytes (a list of bytes for readlines) - `bytearray(b'a') == b'a'` is True
                bad = [type(x).__name__ for x in (d if op == 'readlines' else [d]) if type(x) is not bytes]
                if bad or (op == 'readlines' and type(d) is not list): failed = f'{op} returned {type(d).__name__}' + (f' of {bad}' if op == 'readlines' else '') + ', not bytes' + (' in a list' if op == 'readlines' else '')
            if failed is None:
                if not decl.startswith(got): failed = 'returned bytes are not a prefix of body[:Content-Length]'
                elif raw.maxpos > cl: failed = f'raw stream consumed to {raw.maxpos} > Content-Length {cl}'
                elif any((a is None or a < 0 or a > cl) for a in raw.asked): failed = f'raw stream asked for {raw.asked} with Content-Length {cl}'
                elif s.eof and len(got) < len(decl):
                    failed = 'eof reported before the declared body was delivered'
            if failed:
                break
        ctx.oracle('wsgi: outputs are a prefix of body[:CL]; sized reads <= size; raw never asked beyond CL; eof consistent',
                   failed is None, failed, {'stream': 'wsgi', 'body': data, 'content_length': cl, 'shorts': shorts, 'history': hist, 'via_request': via_req})
        ctx.seen(('w', newline, str(hist)), nontriv)
        ctx.count('wsgi_cl_' + ('exact' if cl == L else 'shorter' if cl < L else 'longer'))

    # exhaustive short histories (length <= 3 quick / <= 4 thorough) over a 7-op alphabet on fixed bodies
    import itertools
    ALPHA = [('read', None), ('read', 2), ('readline', None), ('readline', 1), ('readlines', None), ('next', None), ('exhaust', 4)]
    combos = [(d, c, sh) for d in (b'a\nb\n', b'ab\n\ncd', b'xyz') for c in (len(d), len(d) - 2, len(d) + 2) for sh in ([], [1, 0, 2])]
    maxlen = 3 if ctx.quick else 4
    k = 0
    for data, cl, sh in combos:
        for n in range(1, maxlen + 1):
            for ops in itertools.product(ALPHA, repeat=n):
                k += 1
                if k % ctx.shard[1] != ctx.shard[0] or ctx.searching:
                    continue
                wcase(data, cl, sh, k % 3 == 0, list(ops), 'exhaustive')
    # random longer histories
    for ci in range(ctx.n(8000, 120000)):
        L = rnd.choice([0, 1, 3, 6, 10, 15, 20])
        data = bytes(rnd.choice(b'ab\n\n') for _ in range(L))
        cl = rnd.choice([L, L, max(0, L - 2), max(0, L - 5), L + 3, 0])
        shorts = [rnd.choice([0, 0, 1, 2]) for _ in range(rnd.randint(0, 6))]
        ops = []
        for _ in range(rnd.randint(1, 7)):
            op = rnd.choice(['read', 'read', 'readline', 'readline', 'readlines', 'next', 'exhaust'])
            n = {'read': [None, -1, -2, 0, 1, 2, 5, 100], 'readline': [None, -1, 0, 1, 3, 100], 'readlines': [None, -1, 0, 2, 100], 'next': [None], 'exhaust': [1, 4, 65536]}[op]
            ops.append((op, rnd.choice(n)))
        wcase(data, cl, shorts, rnd.random() < 0.33, ops, 'random')
    sess.finish()


# ------------------------------------------------------------------ ASGI

def _asgi(ctx):
    import asyncio
    from runner import hx
    import falcon.asgi
    import falcon.testing as ft
    from falcon.asgi.stream import BoundedStream
    from falcon.errors import OperationNotAllowed
    rnd = ctx.rng

    def enc(e):
        if e['type'] == 'http.disconnect':
            return 'D'
        b = '~' if 'body' not in e else hx(e['body'])
        m = 'n' if 'more_body' not in e else ('t' if e['more_body'] else 'f')
        return f'R:{b}:{m}'

    class _WouldBlock(BaseException):
        pass

    sess = ctx.session('asgi-boundedstream = AsF model', 'asfdriver')

    async def one():
        L = rnd.choice([0, 1, 3, 6, 10])
        body = bytes(rnd.choice(b'abc\n') for _ in range(L))
        evs = []; i = 0
        while i < L:
            k = rnd.choice([0, 1, 2, 3, 10]); evs.append(body[i:i + k]); i += k
        if not evs or rnd.random() < 0.3:
            evs.append(b'')
        events = []
        for j, c in enumerate(evs):
            e = {'type': 'http.request'}
            if c or rnd.random() < 0.7: e['body'] = c
            if j < len(evs) - 1: e['more_body'] = True
            elif rnd.random() < 0.3: e['more_body'] = False
            events.append(e)
        disc = None
        if rnd.random() < 0.3:
            disc = rnd.randint(1, len(events)); events = events[:disc] + [{'type': 'http.disconnect'}]
            if events[disc - 1]['type'] == 'http.request': events[disc - 1]['more_body'] = True
        cl = rnd.choice([None, None, L, L, max(0, L - 2), L + 3])
        via_req = rnd.random() < 0.33
        first = events[0] if (via_req or rnd.random() < 0.9) else None
        q = list(events[1:]) if first is not None else list(events)
        awaited = [0]

        async def receive():
            awaited[0] += 1
            if q: return q.pop(0)
            raise _WouldBlock()     # the server has nothing more to deliver: the stream would wait forever (deterministic, no timeout)
        if via_req:
            hdrs = {} if cl is None else {'Content-Length': str(cl)}
            if rnd.random() < 0.4:
                for hn, hv in rnd.sample(EXTRA_HEADERS, rnd.randint(1, 3)):
                    hdrs[hn] = hv
                ctx.count('asgi_accompanying_headers')
            scope = ft.create_scope(method=rnd.choice(['POST', 'PUT', 'PATCH', 'GET', 'DELETE']), path='/', headers=hdrs)
            scope['headers'] = [tuple(h) for h in scope['headers']]
            if cl is None:
                scope['headers'] = [h for h in scope['headers'] if h[0] != b'content-length']
            s = falcon.asgi.Request(scope, receive, first_event=first).stream
        else:
            s = BoundedStream(receive, first_event=first, content_length=cl)
        newline = f"new {'none' if cl is None else cl} {'none' if first is None else enc(first)} " + ' '.join(enc(e) for e in q)
        sess.case({'via_request': via_req}); sess.op(newline, 'ok')
        # what may ever be returned: bytes of request events up to and incl. the final one / before a disconnect, cut at CL
        recv = b''
        for e in events:
            if e['type'] != 'http.request': break
            recv += e.get('body', b'')
            if not e.get('more_body', False): break
        declared = recv if cl is None else recv[:cl]
        complete = any(e['type'] == 'http.disconnect' or not e.get('more_body', False) for e in events) or (cl is not None and len(recv) >= cl)

        def st():
            return f" tell={s.tell()} eof={'true' if s.eof else 'false'} awaited={awaited[0]}"
        out = b''; hist = []; failed = None; exhausted = False; errored = False
        for _ in range(rnd.randint(1, 6)):
            op = rnd.choice(['read', 'read', 'readall', 'iter', 'exhaust', 'close', 'iter_inner'])
            ctx.count('asgi_op_' + op)
            last_op = False
            try:
                if op == 'iter_inner':
                    # re-entrant use: while the iteration is parked in the loop body, another read operation runs on the SAME stream,
                    # then the iteration goes on.  Judged by the statement oracle only (the model's histories are sequential), hence the
                    # last operation of the history.
                    j = rnd.randint(1, 2); inner = rnd.choice(['readall', 'read_none', 'read_0', 'exhaust', 'tell'])      # (a sized read that leaves bytes buffered while an iteration is parked: see ASSUMPTIONS)
                    hist.append(['iter-with-inner-op', j, inner]); line = None; last_op = True
                    c = 0
                    async for ch in s:
                        out += ch; c += 1
                        if c == j:
                            if inner == 'readall': out += await s.readall()
                            elif inner == 'read_none': out += await s.read()
                            elif inner == 'read_n':
                                n_ = rnd.choice([1, 2, 5, 100]); d_ = await s.read(n_)
                                if len(d_) > n_: failed = f'read({n_}) returned {len(d_)} bytes'
                                out += d_
                            elif inner == 'read_0': out += await s.read(0)
                            elif inner == 'exhaust':
                                await s.exhaust(); exhausted = True
                            else: s.tell()
                        if not exhausted and not declared.startswith(out):
                            failed = failed or 'returned bytes are not a prefix of the declared body'
                            break
                elif op == 'read':
                    n = rnd.choice([None, -1, 0, 1, 2, 5, 100]); hist.append(['read', n])
                    line = f"read {'none' if n is None else n}"
                    d = await s.read(n); sess.op(line, 'data ' + hx(d) + st())
                    if n is not None and n >= 0 and len(d) > n: failed = f'read({n}) returned {len(d)} bytes'
                    if type(d) is not bytes: failed = f'read({n}) returned a {type(d).__name__}, not a bytes'
                    out += d
                elif op == 'readall':
                    hist.append(['readall']); line = 'readall'
                    d = await s.readall(); sess.op(line, 'data ' + hx(d) + st()); out += d
                    if type(d) is not bytes: failed = f'readall() returned a {type(d).__name__}, not a bytes'
                elif op == 'iter':
                    k = rnd.randint(1, 3); hist.append(['iter', k]); line = f'iter {k}'; acc = b''; chunk_types = []

                    async def it():
                        nonlocal acc
                        c = 0
                        async for ch in s:
                            acc += ch; c += 1
                            if type(ch) is not bytes: chunk_types.append(type(ch).__name__)
                            if c >= k: break
                    try:
                        await it()
                    finally:
                        out += acc
                    sess.op(line, 'data ' + hx(acc) + st())
                    if chunk_types: failed = f'the iteration yielded {chunk_types}, not bytes'
                elif op == 'exhaust':
                    hist.append(['exhaust']); line = 'exhaust'
                    await s.exhaust(); sess.op(line, 'unit' + st()); exhausted = True
                    if not s.eof: failed = 'eof is False after exhaust()'
                else:
                    hist.append(['close']); line = 'close'; s.close(); sess.op(line, 'unit' + st())
            except _WouldBlock:
                if line is not None: sess.op(line, 'BLOCKED')
                if complete: failed = f'{op} blocked on receive() although the server had delivered the end of the body / a disconnect'
                break
            except OperationNotAllowed:
                if line is not None: sess.op(line, 'notAllowed' + st())
                errored = True
            except ValueError:
                if line is not None: sess.op(line, 'closedErr' + st())
                errored = True
            if failed is None and not exhausted:
                if not declared.startswith(out): failed = 'returned bytes are not a prefix of the declared body'
                elif s.tell() != len(out) and not s.closed: failed = f'tell() = {s.tell()} but {len(out)} bytes were returned'
            if failed is None and exhausted and s.tell() > len(declared) and not s.closed:
                failed = f'tell() = {s.tell()} exceeds the declared body ({len(declared)})'
            if failed or last_op: break
        if failed is None and not exhausted and not errored and not s.closed and s.eof and complete and out != declared:
            failed = 'eof reported but the declared body was not delivered in full'
        ctx.oracle('asgi: outputs are a prefix of the declared body; read(n) <= n; tell = bytes returned; whole body at eof; never blocks once the end was delivered',
                   failed is None, failed, {'stream': 'asgi', 'events': [enc(e) for e in events], 'content_length': cl, 'first_event_given': first is not None, 'history': hist, 'via_request': via_req})
        ctx.seen(('a', newline, str(hist)), bool(out))
        ctx.count('asgi_disconnect' if disc else 'asgi_no_disconnect')

    async def main():
        for _ in range(ctx.n(8000, 120000)):
            await one()
    asyncio.run(main())
    sess.finish()

LEVEL_TEXT = ('Machine-checked refinement proofs (Lean 4): the WSGI BoundedStream model refines a flat cursor over body[:Content-Length] for every history of '
              'read/readline/readlines/next/exhaust, every body, declared length and short-read pattern (history_refines_cursor, never_overreads); the ASGI '
              'BoundedStream model does so for read(n)/readall/exhaust/iteration-with-abandonment over every event shape, chunking and disconnect position. '
              'The hand-written models are tied to falcon/stream.py and falcon/asgi/stream.py on every run by a differential correspondence (same op lines to the '
              'real classes, also via falcon.Request, and to the compiled model), and an independent oracle written from the statement decides failing inputs.')
LEVEL_NOTE = ('Trusted: Lean kernel + standard axioms; the correspondence harness and oracle; file-object semantics of wsgi.input as modelled. '
              'close()/closed-stream and second-iteration guards are carried by correspondence+oracle only.')
TECHNIQUE = 'Lean 4 refinement proof (stream model -> flat cursor) + differential correspondence model vs. real code + statement oracle'

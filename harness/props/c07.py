"""C07 - request body streams deliver exactly the declared body: no loss, no over-read."""
PROP = 'C07'
LEAN_MODULES = ['FalconModel.WsgiStreamProofs', 'FalconModel.AsgiStreamProofs', 'FalconModel.AsgiHistory', 'FalconModel.StreamGlue', 'FalconModel.StreamGlueProofs', 'FalconModel.StreamFault', 'FalconModel.StreamFaultProofs']
DRIVERS = ['w7fdriver', 'asfdriver', 'sgdriver']
THEOREMS = [
    # WSGI BoundedStream (falcon/stream.py), model Ws7F = the code after the F02/F03 repairs
    'Ws7F.read_step', 'Ws7F.readline_step', 'Ws7F.readlines_step', 'Ws7F.next_step', 'Ws7F.runOp_step',
    'Ws7F.history_refines_cursor', 'Ws7F.never_overreads', 'Ws7F.exhaust_step',
    # ASGI BoundedStream (falcon/asgi/stream.py), model AsF = the code after the F04/F05/F19 repairs
    'AsF.readall_refines', 'AsF.read_sized_refines', 'AsF.exhaust_refines', 'AsF.iterate_refines',
    'AsF.runOp_step', 'AsF.history_refines', 'AsF.history_prefix_of_declared', 'AsF.history_whole_at_eof', 'AsF.good_init',
    # the pre-repair models violate the same statements (regression witnesses, by `decide`)
    'Ws7.f02_witness', 'Ws7.f03_witness', 'f04_witness', 'f05_witness', 'f19_witness',
    # the glue request -> stream (falcon/request.py content_length/_get_wrapped_wsgi_input/bounded_stream, falcon/asgi/request.py __init__ header dict/
    # content_length/stream), model Sg on top of C09's Hp.contentLength/contentLengthB
    'Sg.digitsGo_iff', 'Sg.pyIntW_iff', 'Sg.declares_iff', 'Sg.declares_digits', 'Sg.declares_toDigits', 'Sg.declares_unique', 'Sg.contentLengthW_spec',
    'Sg.wsgi_bound_eq_declared', 'Sg.wsgi_bound_rfc', 'Sg.wsgi_bound_nonneg',
    'Sg.asgi_bound', 'Sg.asgi_bound_some_iff', 'Sg.asgi_bound_invalid_iff', 'Sg.asgi_stream_access',
    'Sg.wsgi_accompanying_headers_irrelevant', 'Sg.wsgi_bound_congr', 'Sg.buildHeaders_lookup_cl', 'Sg.asgi_accompanying_headers_irrelevant', 'Sg.asgi_bound_congr',
    'Sg.accompanying_headers_irrelevant',
    'Sg.reqOps_eq', 'Sg.wsgi_request_stream_refines_cursor', 'Sg.wsgi_request_stream_from_header_text', 'Sg.wsgi_request_stream_no_usable_length', 'Sg.wsgi_request_exhaust',
    'Sg.areqOps_eq', 'Sg.absS_init_some', 'Sg.absS_init_none', 'Sg.asgi_request_history', 'Sg.asgi_request_stream_refines_cursor', 'Sg.asgi_request_stream_unbounded',
    'Sg.asgi_request_stream_invalid',
    # transient faults of the server-side source inside an operation (falcon/stream.py, falcon/asgi/stream.py): Wf / Af = the state the code has when a call into
    # wsgi.input raises / `await receive()` raises or is cancelled
    'Wf.runOps_append', 'Wf.readlinesFaultLoop_reachable', 'Wf.exhaustFaultLoop_reachable', 'Wf.readlinesFault_step', 'Wf.exhaustFault_step', 'Wf.faultState_eq',
    'Wf.first_call_faults_invisible', 'Wf.fault_history_refines_cursor',
    'Af.read_fault_first_receive', 'Af.readall_fault_first_receive', 'Af.exhaust_fault_first_receive',
]
STATEMENTS = {
    'Wf.first_call_faults_invisible': 'WSGI: a history in which any number of read/readline/readlines/next operations were abandoned because their FIRST call into wsgi.input raised (nothing consumed) hands out the same bytes and ends in the same state as the history without those operations',
    'Wf.fault_history_refines_cursor': 'hence for every such history: outputs = the next bytes of body[:Content-Length], exactly the rest remains, wsgi.input advanced by exactly the bytes handed out, budget >= 0',
    'Wf.readlinesFault_step': 'a readlines abandoned at its (k+1)-th readline() leaves a stream that is still a cursor over the declared body standing behind the bytes X of the k lines already taken (X = [] for k = 0; for k > 0 those lines went down with the exception: documented class (c), not claimed delivered); wsgi.input advanced by exactly |X|, budget >= 0',
    'Wf.exhaustFault_step': 'an exhaust abandoned at its (k+1)-th read leaves a cursor standing behind the X bytes it had discarded',
    'Wf.readlinesFaultLoop_reachable': 'the state after an abandoned readlines is the state after a fault-free history of at most k readline() calls',
    'Af.read_fault_first_receive': 'ASGI read(n), n > 0, that has to wait (budget > 0, residue shorter than n) and whose first receive() raises / is cancelled: the stream is exactly as before - buffered residue, budget, tell() - only receive() was awaited once more',
    'Af.readall_fault_first_receive': 'readall() abandoned at its first receive(): as before except that the buffer is empty (no loss when there was no residue; with a residue that is documented class (a))',
    'Af.exhaust_fault_first_receive': 'exhaust() abandoned at its first receive(): the residue was discarded and counted in tell(), nothing else changed',
    'AsF.history_refines': 'ASGI: from a fresh stream whose events contain the end of the body, after ANY sequence of read(n) (any integer n) / read() / readall() / exhaust() / async-for abandoned after any number of chunks: consumed ++ still-to-come = declared body, tell() advanced by exactly |consumed|, the bytes handed to the app in call order are a prefix of consumed (all of it without exhaust), and no operation blocked on receive()',
    'Ws7F.history_refines_cursor': 'for every history of read/readline/readlines/next with any size arguments, every body, declared length and short-read oracle: the concatenated outputs are the next bytes of raw[:Content-Length], exactly the rest remains, the raw stream advanced by exactly that much, budget stays >= 0',
    'Ws7F.never_overreads': 'after any history, total returned <= Content-Length and the raw stream position = bytes returned (nothing beyond the declared length was consumed)',
    'Ws7F.exhaust_step': 'exhaust(chunk) discards a prefix of the declared body and leaves nothing',
    'AsF.read_sized_refines': 'read(n), n>0, on any event list containing the end of the body: returns exactly take n of (buffer ++ future[:remaining]), tell advances by exactly that, never blocks, re-establishes its precondition',
    'AsF.readall_refines': 'readall returns exactly the rest of the declared body, tell advances by its length, remaining = 0',
    'AsF.exhaust_refines': 'exhaust discards exactly what was still declared and counts each byte once',
    'AsF.iterate_refines': 'async-for abandoned after k chunks handed out the next part of the declared body and leaves remaining = 0 or a complete event list (no later op can block)',
    'Sg.pyIntW_iff': 'Python int() on a Latin-1 str / a byte string (C09 model Hp.pyIntW) accepts EXACTLY: optional whitespace, optional sign, D+(_D+)* read in decimal, optional whitespace',
    'Sg.contentLengthW_spec': 'for EVERY header value, req.content_length is: None for a missing/empty value; n for a text that Declares n (1*DIGIT, or the liberal int() spellings: surrounding whitespace, "+", "-" before zero, single underscores between digits); the 400 for every other text',
    'Sg.declares_digits': 'RFC 9110 Content-Length = 1*DIGIT: a non-empty digit string declares its decimal value',
    'Sg.wsgi_bound_eq_declared': 'WSGI, every environ: the length handed to BoundedStream is >= 0; it is n when CONTENT_LENGTH declares n; it is 0 when the variable is missing, empty or unusable (not a number, negative, ...)',
    'Sg.asgi_bound': 'ASGI, every header dict: no/empty content-length -> None (read until the final event); a text that declares n -> n; every other text -> HTTPInvalidHeader; nothing else (no negative or guessed bound)',
    'Sg.asgi_stream_access': 'fresh non-WebSocket request: an unusable content-length raises at req.stream and no stream is created/cached, no event consumed; otherwise the stream is BoundedStream(receive, first_event, content_length = that bound), cached',
    'Sg.accompanying_headers_irrelevant': 'on both stacks the bound is unchanged when every environ entry / header other than Content-Length is dropped (Transfer-Encoding, X-Content-Length, Expect, ...)',
    'Sg.buildHeaders_lookup_cl': 'the _asgi_headers dict built by Request.__init__ maps content-length to the value of the LAST content-length entry of scope[headers] (singleton header: not comma-joined)',
    'Sg.reqOps_eq': 'a history performed through req.bounded_stream (property accessed again for every operation) is the same history on the ONE stream object built at the first access (lazy caching is invisible)',
    'Sg.wsgi_request_stream_refines_cursor': 'END TO END (WSGI): for every request and every history of read/readline/readlines/next through req.bounded_stream, with n = the bound computed from the CONTENT_LENGTH text: outputs = next bytes of body[:n], exactly the rest of body[:n] remains, wsgi.input advanced by exactly the bytes returned, budget n - returned >= 0',
    'Sg.wsgi_request_stream_from_header_text': 'a CONTENT_LENGTH text that declares n makes req.bounded_stream a cursor over body[:n] for every history',
    'Sg.wsgi_request_stream_no_usable_length': 'a missing/unusable CONTENT_LENGTH: nothing is ever returned through req.bounded_stream and wsgi.input is never advanced',
    'Sg.asgi_request_stream_refines_cursor': 'END TO END (ASGI): a content-length text that declares n makes req.stream a cursor over body[:n] (body = everything the server delivers incl. the first event up to its final event/disconnect) for every history of read(k)/read()/readall/exhaust/abandoned iteration: consumed ++ to-come = body[:n], tell = |consumed|, app bytes a prefix of consumed, no access raised, nothing blocked',
    'Sg.asgi_request_stream_unbounded': 'no (or an empty) content-length: req.stream is a cursor over the whole body up to the final event (bodies < 2^63 bytes)',
    'Sg.asgi_request_stream_invalid': 'an unusable content-length: the first req.stream access raises whatever the operation; nothing was received or read',
}
TRUSTED = [
    'raw file-object semantics of wsgi.input (read/readline with a short-read oracle) as modelled in WsgiStreamFixed.Raw',
    'a faulting source call consumes/delivers nothing (raise-before-consuming; a cancelled receive() delivered no event); cancellation is injected at the one suspension point of the scripted receive()',
    'the scripted receive() raises a BaseException when it has nothing left to deliver: that is the "would block" outcome (no timeouts involved)',
    "Python int() on Latin-1 str / bytes as modelled by C09's Hp.pyIntW (tied by the C09 correspondence and again here by 'request glue = Sg model'); header texts of more than 4300 digits (CPython's int-conversion limit) are not generated",
    'the WSGI environ / the ASGI scope are what the server made of the request line and header block (duplicate-header policy, Transfer-Encoding precedence are the server\'s); the glue model starts from environ / scope[headers]',
]
ASSUMPTIONS = [
    'TRANSIENT SOURCE FAULTS (wsgi.input.read/readline raising without consuming, receive() raising, the read cancelled / timed out while parked in receive(); the application goes on using the stream) are not in the '
    'property\'s stated quantifier; they are generated at every call index of the source, and JUDGED where the abandoned operation had taken nothing from the server that it still held only in a local: a fault at the '
    'operation\'s FIRST source call (WSGI read/readline/next/readlines/exhaust/iteration step; ASGI read(n>0) with or without buffered residue; ASGI readall()/read()/read(-1) with an empty buffer) and iteration / exhaust at ANY call. '
    'Three classes where the unchanged code (c86a3b1) drops data an abandoned operation had already taken are generated, counted (open_finding_class_*), compared with the model (Wf/Af express exactly that state) but judged '
    'only with C07_MIDOP_FAULTS=1 (coordinator: an observation outside the property, documented non-claims): '
    '(a) ASGI readall()/read()/read(-1) with a buffered residue, fault at its first receive - BoundedStream(receive, first_event={body: b"0123", more_body: True}, content_length=10), then b"4567"(more), b"89"(final), receive() raises on call 1: '
    '[readall -> raises; readall] returns b"456789", eof, tell 6; '
    '(b) ASGI read(n)/readall, fault at the 2nd+ receive of the operation - content_length=10, events b"0123"(more), b"4567"(more), b"89"(final), no first_event, receive() raises on call 2: [read(6) -> raises; readall] returns b"456789", eof, tell 6; '
    '(c) WSGI readlines, fault at its 2nd+ readline - BoundedStream(b"a\\nb\\nc\\n", 6), readline raises on call 2: [readlines() -> raises; read()] returns b"b\\nc\\n", eof',
    'sizes passed to read/readline/readlines are None or ints; a stream constructed directly (not through the request) is given Content-Length >= 0 - through the request that is proved (Sg.wsgi_bound_nonneg, Sg.asgi_bound)',
    'the Content-Length text is a Latin-1 str (WSGI, PEP 3333) / a byte string (ASGI); ASGI header names arrive lower-cased (ASGI spec); environ values other than str are not modelled',
    'close()/closed-stream errors of the ASGI stream are covered by the correspondence and oracle only (guard tests, no theorem); a second iteration while one is suspended is in the history theorem (it answers notAllowed and changes nothing)',
    're-entrant use (an operation on the same ASGI stream from inside the body of an `async for` over it) is generated with inner operations that consume to a chunk border or to the end (readall, read(), read(0), exhaust, tell); a sized read that leaves part of an event buffered while the iteration is parked is outside the domain: the parked iteration does not look at the buffer again (the statement speaks of sequences of operations)',
]
RULE = ('random bodies over {a,b,c,\\n} (len 0..20) x Content-Length in {absent, exact, shorter, longer, 0} x short-read oracles / '
        'ASGI event shapes (missing body/more_body keys, empty and oversized chunks, disconnect anywhere) x histories of 1..7 operations; '
        'a third of the cases go through falcon.Request.bounded_stream / falcon.asgi.Request.stream (the property re-accessed for every operation) with the Content-Length as TEXT: '
        '1*DIGIT, liberal spellings (whitespace, +, leading zeros, underscores, -0), empty, missing, unusable (negative, not a number, lists, hex, bad underscores, non-int() whitespace), plus accompanying headers; '
        'these cases are also replayed on the request-level model (sgdriver: header text -> bound -> stream -> the same operations); plus glue-only cases (random header texts up to 25 digits with random '
        'insertions, duplicate content-length entries, repeated other headers, WebSocket scopes) comparing the bound the real stream was built with; '
        'every byte string handed out (read/readline/next results, readlines items and the list, ASGI read/readall results and iteration chunks) must be exactly a bytes (type(x) is bytes, not ==); '
        'plus, for the WSGI stream, ALL histories of length <= 3 (quick) / <= 4 (thorough) over a 7-operation alphabet on 18 (body, Content-Length, short-read) combinations; non-trivial = at least one operation returned data; distinct = distinct (stream kind, construction line, op list); '
        'plus SOURCE-FAULT histories on both stacks (5000 quick / 60000 thorough each): 1-3 fault positions = call indices 1..8 of wsgi.input.read/readline resp. receive() counted over the whole history, kind = raise before consuming '
        '(7 WSGI / 5 ASGI exception classes incl. a BaseException) or, on ASGI, task.cancel() / asyncio.wait_for expiring while the operation is parked in receive(); 2-7 operations over read(n)/read()/readline/readlines/next/for-loop/exhaust (WSGI) and '
        'read(n)/read()/read(-1)/readall/async-for/exhaust (ASGI) with the application continuing after the exception, then reading to the end; bodies to 20 (16) bytes, Content-Length exact/shorter/longer/absent, short reads, events of 0..10 bytes so that sized '
        'reads leave a residue, disconnects, a third through the request object; the state after every (also every abandoned) operation is compared with the Wf / Af fault models; non-trivial there = a fault was reached and data was returned')
PARTIAL = ('source faults: the fault-state models Wf/Af are tied by the correspondence for every operation kind and call index, but proved only for first-call faults (WSGI: whole histories, Wf.fault_history_refines_cursor; ASGI: the '
           'single-operation state lemmas Af.*_fault_first_receive, not lifted into AsF.history_refines; iteration / exhaust faults at later calls and the cancel-vs-raise equivalence are oracle + correspondence only); the loss classes (a)-(c) '
           'listed in ASSUMPTIONS are not claimed (judged only with C07_MIDOP_FAULTS=1)')
JOBS = {'quick': 4, 'thorough': 16}


# headers that may accompany a body; none of them changes what Content-Length declares
EXTRA_HEADERS = [('Transfer-Encoding', 'chunked'), ('Transfer-Encoding', 'identity'), ('Transfer-Encoding', 'gzip, chunked'), ('TE', 'trailers'), ('Expect', '100-continue'),
                 ('Content-Type', 'application/json'), ('Content-Type', 'multipart/form-data; boundary=x'), ('Content-Encoding', 'gzip'), ('Connection', 'close'),
                 ('Connection', 'keep-alive, Upgrade'), ('Upgrade', 'websocket'), ('Trailer', 'Expires'), ('Content-Range', 'bytes 0-4/5'), ('X-Content-Length', '999999'),
                 ('Content-MD5', 'Q2hlY2sgSW50ZWdyaXR5IQ=='), ('Range', 'bytes=0-1')]


def _cl_text(rnd, n, stack, p_unusable=0.12, p_liberal=0.12, p_empty=0.04, p_missing=0.04):
    """The Content-Length header as TEXT for the declared length n -> (text | None, kind).  kind: rfc (1*DIGIT), liberal (what int() also reads as n),
    unusable (declares nothing: WSGI -> no body, ASGI -> 400), empty, missing."""
    x = rnd.random(); d = str(n)
    ws = [' ', '\t', '\n', '\x0b', '\x0c', '\r', '\r\n', '  '] + (['\x85', '\xa0'] if stack == 'wsgi' else [])   # str.isspace-minus-\x1c..\x1f for str, bytes.isspace for bytes
    if x < p_unusable:
        bad = ['-5', '-1', '-0x5', 'abc', '1.5', '5;q=1', '5, 5', '0x10', '-' + str(max(n, 1)), '--5', '1e3', '1__0', '_5', '5_', '+ 5', '- 0', '\x1c5', '5\x1f', '\xb2', '5\x00',
               ' ', '+', '-', d + ',' + d, d + ' ' + d, d + '.0', '+-' + d]
        if stack == 'asgi': bad += ['\x855', '5\xa0']          # not whitespace for int(bytes)
        return rnd.choice(bad), 'unusable'
    x -= p_unusable
    if x < p_liberal:
        w1, w2 = rnd.choice(ws), rnd.choice(ws)
        return rnd.choice([w1 + d, d + w1, w1 + d + w2, '+' + d, '0' + d, '000' + d, '+0' + d, w1 + '+' + d + w2, (d[0] + '_' + d[1:]) if len(d) > 1 else '0_' + d,
                           '-0' if n == 0 else '+' + d + w2]), 'liberal'
    x -= p_liberal
    if x < p_empty: return '', 'empty'
    x -= p_empty
    if x < p_missing: return None, 'missing'
    return d, 'rfc'


def _pairs_hex(items):
    from runner import hx
    return ','.join(f'{hx(k)}={hx(v)}' for k, v in items) or '-'


def run(ctx):
    _wsgi(ctx)
    _asgi(ctx)
    _glue(ctx)
    _wsgi_faults(ctx)
    _asgi_faults(ctx)


# ------------------------------------------------------------------ WSGI

def _wsgi(ctx):
    import io
    from runner import hx, alarm, Hang
    import falcon
    import falcon.testing as ft
    from falcon.stream import BoundedStream
    rnd = ctx.rng

    class Raw(io.BytesIO):
        """wsgi.input with an explicit short-read oracle that logs every size it is asked for."""
        def __init__(s, data, shorts):
            super().__init__(data); s.shorts = list(shorts); s.asked = []; s.maxpos = 0
        def read(s, n=-1):
            s.asked.append(n)
            if s.shorts:
                c = s.shorts.pop(0)
                if c:
                    want = len(s.getvalue()) - s.tell() if (n is None or n < 0) else n
                    r = super().read(min(c, want)); s.maxpos = max(s.maxpos, s.tell()); return r
            r = super().read(n); s.maxpos = max(s.maxpos, s.tell()); return r
        def readline(s, n=-1):
            s.asked.append(n); r = super().readline(n); s.maxpos = max(s.maxpos, s.tell()); return r
        def readlines(s, n=-1):
            s.asked.append(n); r = super().readlines(n); s.maxpos = max(s.maxpos, s.tell()); return r
        def __next__(s):
            r = super().__next__(); s.maxpos = max(s.maxpos, s.tell()); return r

    sess = ctx.session('wsgi-boundedstream = Ws7F model', 'w7fdriver',
                       norm=lambda s: s.replace('lines  ', 'lines '))
    # the same via_request cases on the request-level model: environ (header TEXT) -> bound -> BoundedStream -> operations through req.bounded_stream
    sg = ctx.session('wsgi request glue = Sg model (environ -> content_length -> bound -> req.bounded_stream)', 'sgdriver',
                     norm=lambda s: s.replace('lines  ', 'lines '))

    def wcase(data, cl, shorts, via_req, ops, tag):
        L = len(data)
        raw = Raw(data, shorts)
        req = None
        if via_req:
            # through the request object: the Content-Length as TEXT (1*DIGIT, liberal int() spellings, empty, missing, unusable: those declare no body -
            # nothing is returned and the server stream is never asked), any accompanying headers (they never change the bound)
            text, kind = _cl_text(rnd, cl, 'wsgi')
            if kind in ('unusable', 'empty', 'missing'):
                cl = 0
            ctx.count('wsgi_content_length_' + kind)
            hdrs = {}
            if rnd.random() < 0.4:
                for hn, hv in rnd.sample(EXTRA_HEADERS, rnd.randint(1, 3)):
                    hdrs[hn] = hv
                ctx.count('wsgi_accompanying_headers')
            env = ft.create_environ(method=rnd.choice(['POST', 'PUT', 'PATCH', 'GET', 'DELETE']), path='/', headers=hdrs)
            env.pop('CONTENT_LENGTH', None)
            if text is not None:
                env['CONTENT_LENGTH'] = text                      # (verbatim: create_environ may normalise)
            env['wsgi.input'] = raw
            req = falcon.Request(env)
            s = req.bounded_stream
            built_with = s._bytes_remaining
            sg.case({'content_length_text': text, 'kind': kind, 'gen': tag})
            sg.op(f"wreq {_pairs_hex((k.encode('latin-1'), v.encode('latin-1')) for k, v in env.items() if isinstance(v, str))} {hx(data)} {','.join(map(str, shorts)) or '-'}", 'ok')
            sg.op('bound', f'bound {built_with}')
            ctx.oracle('wsgi glue: req.bounded_stream is built with the declared Content-Length (0 when missing/empty/unusable), never a negative bound',
                       built_with == cl, None if built_with == cl else f'CONTENT_LENGTH {text!r} ({kind}): BoundedStream built with {built_with}, declared {cl}',
                       {'stream': 'wsgi', 'content_length_text': text, 'kind': kind, 'environ': {k: v for k, v in env.items() if isinstance(v, str)}})
        else:
            s = BoundedStream(raw, cl)
        newline = f"new {cl} {hx(data)} {','.join(map(str, shorts)) or '-'}"
        sess.case({'via_request': via_req, 'gen': tag}); sess.op(newline, 'ok')
        decl = data[:cl]; got = b''; hist = []; nontriv = False

        def st():
            return f" rem={s._bytes_remaining} eof={'true' if s.eof else 'false'} asked={raw.asked}"
        failed = None

        def emit(line, reply):
            sess.op(line, reply)
            if via_req: sg.op(line, reply)
        for op, n in ops:
            hist.append([op, n]); d = None
            if via_req:
                s = req.bounded_stream      # the property is accessed again for every operation: it must be the same object, with the budget as it was left
            try:
                with alarm(3):
                    if op == 'read':
                        d = s.read(n); emit(f"read {'none' if n is None else n}", 'data ' + hx(d) + st())
                        if n is not None and n >= 0 and len(d) > n: failed = f'sized read returned {len(d)} > {n}'
                        got += d
                    elif op == 'readline':
                        d = s.readline(n); emit(f"readline {'none' if n is None else n}", 'data ' + hx(d) + st())
                        if n is not None and n >= 0 and len(d) > n: failed = f'sized readline returned {len(d)} > {n}'
                        if b'\n' in d[:-1]: failed = 'readline returned more than one line'
                        got += d
                    elif op == 'readlines':
                        d = s.readlines(n); emit(f"readlines {'none' if n is None else n}", ('lines ' + ' '.join(hx(x) for x in d)) + st())
                        got += b''.join(d)
                    elif op == 'next':
                        try:
                            d = next(s); emit('next', 'data ' + hx(d) + st()); got += d
                        except StopIteration:
                            emit('next', 'stop' + st())
                    else:
                        s.exhaust(n); emit(f'exhaust {n}', 'unit' + st())
                        if not s.eof and len(data) >= cl: failed = 'eof is False after exhaust() although the whole declared body was available'
                        if decl.startswith(got): got = decl  # exhaust discards the rest of the declared body
            except Hang:
                failed = f'{op} did not return (hang)'
            except Exception as e:  # noqa
                failed = f'{op} raised {type(e).__name__}: {e}'
            nontriv = nontriv or bool(got)
            ctx.count('wsgi_op_' + op)
            if failed is None and d is not None:
                # second-order observation: what the stream hands out is exactly a bytes (a list of bytes for readlines) - `bytearray(b'a') == b'a'` is True
                bad = [type(x).__name__ for x in (d if op == 'readlines' else [d]) if type(x) is not bytes]
                if bad or (op == 'readlines' and type(d) is not list): failed = f'{op} returned {type(d).__name__}' + (f' of {bad}' if op == 'readlines' else '') + ', not bytes' + (' in a list' if op == 'readlines' else '')
            if failed is None:
                if not decl.startswith(got): failed = 'returned bytes are not a prefix of body[:Content-Length]'
                elif raw.maxpos > cl: failed = f'raw stream consumed to {raw.maxpos} > Content-Length {cl}'
                elif any((a is None or a < 0 or a > cl) for a in raw.asked): failed = f'raw stream asked for {raw.asked} with Content-Length {cl}'
                elif s.eof and len(got) < len(decl):
                    failed = 'eof reported before the declared body was delivered'
            if failed:
                break
        ctx.oracle('wsgi: outputs are a prefix of body[:CL]; sized reads <= size; raw never asked beyond CL; eof consistent',
                   failed is None, failed, {'stream': 'wsgi', 'body': data, 'content_length': cl, 'shorts': shorts, 'history': hist, 'via_request': via_req})
        ctx.seen(('w', newline, str(hist)), nontriv)
        ctx.count('wsgi_cl_' + ('exact' if cl == L else 'shorter' if cl < L else 'longer'))

    # exhaustive short histories (length <= 3 quick / <= 4 thorough) over a 7-op alphabet on fixed bodies
    import itertools
    ALPHA = [('read', None), ('read', 2), ('readline', None), ('readline', 1), ('readlines', None), ('next', None), ('exhaust', 4)]
    combos = [(d, c, sh) for d in (b'a\nb\n', b'ab\n\ncd', b'xyz') for c in (len(d), len(d) - 2, len(d) + 2) for sh in ([], [1, 0, 2])]
    maxlen = 3 if ctx.quick else 4
    k = 0
    for data, cl, sh in combos:
        for n in range(1, maxlen + 1):
            for ops in itertools.product(ALPHA, repeat=n):
                k += 1
                if k % ctx.shard[1] != ctx.shard[0] or ctx.searching:
                    continue
                wcase(data, cl, sh, k % 3 == 0, list(ops), 'exhaustive')
    # random longer histories
    for ci in range(ctx.n(8000, 120000)):
        L = rnd.choice([0, 1, 3, 6, 10, 15, 20])
        data = bytes(rnd.choice(b'ab\n\n') for _ in range(L))
        cl = rnd.choice([L, L, max(0, L - 2), max(0, L - 5), L + 3, 0])
        shorts = [rnd.choice([0, 0, 1, 2]) for _ in range(rnd.randint(0, 6))]
        ops = []
        for _ in range(rnd.randint(1, 7)):
            op = rnd.choice(['read', 'read', 'readline', 'readline', 'readlines', 'next', 'exhaust'])
            n = {'read': [None, -1, -2, 0, 1, 2, 5, 100], 'readline': [None, -1, 0, 1, 3, 100], 'readlines': [None, -1, 0, 2, 100], 'next': [None], 'exhaust': [1, 4, 65536]}[op]
            ops.append((op, rnd.choice(n)))
        wcase(data, cl, shorts, rnd.random() < 0.33, ops, 'random')
    sess.finish()
    sg.finish()


# ------------------------------------------------------------------ ASGI

def _asgi(ctx):
    import asyncio
    from runner import hx
    import falcon.asgi
    import falcon.testing as ft
    from falcon.asgi.stream import BoundedStream
    from falcon.errors import OperationNotAllowed
    rnd = ctx.rng

    def enc(e):
        if e['type'] == 'http.disconnect':
            return 'D'
        b = '~' if 'body' not in e else hx(e['body'])
        m = 'n' if 'more_body' not in e else ('t' if e['more_body'] else 'f')
        return f'R:{b}:{m}'

    class _WouldBlock(BaseException):
        pass

    sess = ctx.session('asgi-boundedstream = AsF model', 'asfdriver')
    # the same via_request cases on the request-level model: scope['headers'] -> _asgi_headers -> content_length -> bound / 400 -> BoundedStream -> operations through req.stream
    sg = ctx.session('asgi request glue = Sg model (scope headers -> content_length -> bound -> req.stream)', 'sgdriver')

    async def one():
        L = rnd.choice([0, 1, 3, 6, 10])
        body = bytes(rnd.choice(b'abc\n') for _ in range(L))
        evs = []; i = 0
        while i < L:
            k = rnd.choice([0, 1, 2, 3, 10]); evs.append(body[i:i + k]); i += k
        if not evs or rnd.random() < 0.3:
            evs.append(b'')
        events = []
        for j, c in enumerate(evs):
            e = {'type': 'http.request'}
            if c or rnd.random() < 0.7: e['body'] = c
            if j < len(evs) - 1: e['more_body'] = True
            elif rnd.random() < 0.3: e['more_body'] = False
            events.append(e)
        disc = None
        if rnd.random() < 0.3:
            disc = rnd.randint(1, len(events)); events = events[:disc] + [{'type': 'http.disconnect'}]
            if events[disc - 1]['type'] == 'http.request': events[disc - 1]['more_body'] = True
        cl = rnd.choice([None, None, L, L, max(0, L - 2), L + 3])
        via_req = rnd.random() < 0.33
        first = events[0] if (via_req or rnd.random() < 0.9) else None
        q = list(events[1:]) if first is not None else list(events)
        awaited = [0]

        async def receive():
            awaited[0] += 1
            if q: return q.pop(0)
            raise _WouldBlock()     # the server has nothing more to deliver: the stream would wait forever (deterministic, no timeout)
        req = None
        if via_req:
            # through the request object: the Content-Length as header TEXT (see _cl_text); a missing or empty header declares no length (the stream
            # ends with the final event), an unusable one is refused with HTTPInvalidHeader (400) at req.stream - no stream, no bound
            if cl is None:
                text, kind = rnd.choice([(None, 'missing'), (None, 'missing'), ('', 'empty')])
            else:
                text, kind = _cl_text(rnd, cl, 'asgi', p_empty=0.0, p_missing=0.0)
            ctx.count('asgi_content_length_' + kind)
            hdrs = {}
            if rnd.random() < 0.4:
                for hn, hv in rnd.sample(EXTRA_HEADERS, rnd.randint(1, 3)):
                    hdrs[hn] = hv
                ctx.count('asgi_accompanying_headers')
            scope = ft.create_scope(method=rnd.choice(['POST', 'PUT', 'PATCH', 'GET', 'DELETE']), path='/', headers=hdrs)
            hl = [h for h in (tuple(x) for x in scope['headers']) if h[0] != b'content-length']
            if text is not None:
                hl.insert(rnd.randint(0, len(hl)), (b'content-length', text.encode('latin-1')))
            scope['headers'] = hl
            req = falcon.asgi.Request(scope, receive, first_event=first)
            sg.case({'content_length_text': text, 'kind': kind})
            sg.op(f"areq 0 {'none' if first is None else enc(first)} {_pairs_hex(hl)} " + ' '.join(enc(e) for e in q), 'ok')
            gcase = {'stream': 'asgi', 'content_length_text': text, 'kind': kind, 'headers': hl}
            gname = 'asgi glue: req.stream is built with the declared Content-Length (None when missing/empty); an unusable one raises HTTPInvalidHeader and builds no stream'
            try:
                s = req.stream
            except falcon.HTTPInvalidHeader:
                sg.op('stream', 'invalidHeader')
                ctx.oracle(gname, kind == 'unusable' and awaited[0] == 0, None if kind == 'unusable' and awaited[0] == 0 else f'content-length {text!r} ({kind}): req.stream raised HTTPInvalidHeader / awaited receive() {awaited[0]} times', gcase)
                ctx.seen(('a-invalid', text, str(hl)), False)
                return
            sg.op('stream', f'stream rem={s._bytes_remaining} buf={hx(s._buffer)} tell={s.tell()}')
            # built with the declared length: buffer + budget = min(first chunk, n) + (n - that) unless the first event was the final one (budget 0)
            fb = first.get('body', b'') if first['type'] == 'http.request' else b''
            more = bool(first.get('more_body', False)) if first['type'] == 'http.request' else False
            want_buf = fb if cl is None else fb[:cl]
            want_rem = 0 if not more else (2**63 if cl is None else cl - len(want_buf))
            gok = kind != 'unusable' and s._buffer == want_buf and s._bytes_remaining == want_rem
            ctx.oracle(gname, gok, None if gok else f'content-length {text!r} ({kind}): stream built with buffer {s._buffer!r} / budget {s._bytes_remaining}, declared {cl}: expected {want_buf!r} / {want_rem}', gcase)
            if kind == 'unusable':
                ctx.seen(('a-invalid', text, str(hl)), False)
                return
        else:
            s = BoundedStream(receive, first_event=first, content_length=cl)
        newline = f"new {'none' if cl is None else cl} {'none' if first is None else enc(first)} " + ' '.join(enc(e) for e in q)
        sess.case({'via_request': via_req}); sess.op(newline, 'ok')
        # what may ever be returned: bytes of request events up to and incl. the final one / before a disconnect, cut at CL
        recv = b''
        for e in events:
            if e['type'] != 'http.request': break
            recv += e.get('body', b'')
            if not e.get('more_body', False): break
        declared = recv if cl is None else recv[:cl]
        complete = any(e['type'] == 'http.disconnect' or not e.get('more_body', False) for e in events) or (cl is not None and len(recv) >= cl)

        def st():
            return f" tell={s.tell()} eof={'true' if s.eof else 'false'} awaited={awaited[0]}"
        out = b''; hist = []; failed = None; exhausted = False; errored = False

        def emit(line, reply):
            sess.op(line, reply)
            if via_req: sg.op(line, reply)
        for _ in range(rnd.randint(1, 6)):
            if via_req:
                s = req.stream          # the property is accessed again for every operation: the same (cached) object
            op = rnd.choice(['read', 'read', 'readall', 'iter', 'exhaust', 'close', 'iter_inner'])
            ctx.count('asgi_op_' + op)
            last_op = False
            try:
                if op == 'iter_inner':
                    # re-entrant use: while the iteration is parked in the loop body, another read operation runs on the SAME stream,
                    # then the iteration goes on.  Judged by the statement oracle only (the model's histories are sequential), hence the
                    # last operation of the history.
                    j = rnd.randint(1, 2); inner = rnd.choice(['readall', 'read_none', 'read_0', 'exhaust', 'tell'])      # (a sized read that leaves bytes buffered while an iteration is parked: see ASSUMPTIONS)
                    hist.append(['iter-with-inner-op', j, inner]); line = None; last_op = True
                    c = 0
                    async for ch in s:
                        out += ch; c += 1
                        if c == j:
                            if inner == 'readall': out += await s.readall()
                            elif inner == 'read_none': out += await s.read()
                            elif inner == 'read_n':
                                n_ = rnd.choice([1, 2, 5, 100]); d_ = await s.read(n_)
                                if len(d_) > n_: failed = f'read({n_}) returned {len(d_)} bytes'
                                out += d_
                            elif inner == 'read_0': out += await s.read(0)
                            elif inner == 'exhaust':
                                await s.exhaust(); exhausted = True
                            else: s.tell()
                        if not exhausted and not declared.startswith(out):
                            failed = failed or 'returned bytes are not a prefix of the declared body'
                            break
                elif op == 'read':
                    n = rnd.choice([None, -1, 0, 1, 2, 5, 100]); hist.append(['read', n])
                    line = f"read {'none' if n is None else n}"
                    d = await s.read(n); emit(line, 'data ' + hx(d) + st())
                    if n is not None and n >= 0 and len(d) > n: failed = f'read({n}) returned {len(d)} bytes'
                    if type(d) is not bytes: failed = f'read({n}) returned a {type(d).__name__}, not a bytes'
                    out += d
                elif op == 'readall':
                    hist.append(['readall']); line = 'readall'
                    d = await s.readall(); emit(line, 'data ' + hx(d) + st()); out += d
                    if type(d) is not bytes: failed = f'readall() returned a {type(d).__name__}, not a bytes'
                elif op == 'iter':
                    k = rnd.randint(1, 3); hist.append(['iter', k]); line = f'iter {k}'; acc = b''; chunk_types = []

                    async def it():
                        nonlocal acc
                        c = 0
                        async for ch in s:
                            acc += ch; c += 1
                            if type(ch) is not bytes: chunk_types.append(type(ch).__name__)
                            if c >= k: break
                    try:
                        await it()
                    finally:
                        out += acc
                    emit(line, 'data ' + hx(acc) + st())
                    if chunk_types: failed = f'the iteration yielded {chunk_types}, not bytes'
                elif op == 'exhaust':
                    hist.append(['exhaust']); line = 'exhaust'
                    await s.exhaust(); emit(line, 'unit' + st()); exhausted = True
                    if not s.eof: failed = 'eof is False after exhaust()'
                else:
                    hist.append(['close']); line = 'close'; s.close(); emit(line, 'unit' + st())
            except _WouldBlock:
                if line is not None: emit(line, 'BLOCKED')
                if complete: failed = f'{op} blocked on receive() although the server had delivered the end of the body / a disconnect'
                break
            except OperationNotAllowed:
                if line is not None: emit(line, 'notAllowed' + st())
                errored = True
            except ValueError:
                if line is not None: emit(line, 'closedErr' + st())
                errored = True
            if failed is None and not exhausted:
                if not declared.startswith(out): failed = 'returned bytes are not a prefix of the declared body'
                elif s.tell() != len(out): failed = f'tell() = {s.tell()} but {len(out)} bytes were returned' + (' (after close())' if s.closed else '')
            if failed is None and exhausted and s.tell() > len(declared) and not s.closed:
                failed = f'tell() = {s.tell()} exceeds the declared body ({len(declared)})'
            if failed or last_op: break
        if failed is None and not exhausted and not errored and not s.closed and s.eof and complete and out != declared:
            failed = 'eof reported but the declared body was not delivered in full'
        ctx.oracle('asgi: outputs are a prefix of the declared body; read(n) <= n; tell = bytes returned; whole body at eof; never blocks once the end was delivered',
                   failed is None, failed, {'stream': 'asgi', 'events': [enc(e) for e in events], 'content_length': cl, 'first_event_given': first is not None, 'history': hist, 'via_request': via_req})
        ctx.seen(('a', newline, str(hist)), bool(out))
        ctx.count('asgi_disconnect' if disc else 'asgi_no_disconnect')

    async def main():
        for _ in range(ctx.n(8000, 120000)):
            await one()
    asyncio.run(main())
    sess.finish()
    sg.finish()


# ------------------------------------------------------------------ glue only: header text -> the bound the stream is built with

def _glue(ctx):
    """Request-level glue alone (no body operations): random Content-Length TEXTS (up to 25 digits, random insertions of whitespace / signs / underscores /
    separators, duplicates of the header, repeated other headers, X-Content-Length decoys, WebSocket scopes) -> what `req.bounded_stream` / `req.stream` is
    built with, against the Sg model (`wreq`/`bound`, `areq`/`stream`), plus an oracle written from the statement: a 1*DIGIT value is the bound exactly, the
    bound is never negative, a text without any digit declares nothing (WSGI: no body; ASGI: 400), no header at all = 0 (WSGI) / until the final event (ASGI)."""
    import re
    from runner import hx
    import falcon
    import falcon.asgi
    import falcon.testing as ft
    from falcon.errors import UnsupportedError
    rnd = ctx.rng
    ALPH = [' ', '\t', '\n', '\x0b', '\x0c', '\r', '\x1c', '\x1f', '\x85', '\xa0', '+', '-', '_', '.', ',', ';', 'e', 'x', '0', '7', '\x00', '\xb2']

    def text_for():
        x = rnd.random()
        if x < 0.05: return None
        if x < 0.10: return ''
        n = rnd.choice([0, 1, 5, 9, 10, 42, 100, 65536, 2**31, 2**63, 2**64 + 1, 10**24 + 7, rnd.randint(0, 10**rnd.randint(1, 25))])
        t = str(n)
        if x < 0.45: return t
        if x < 0.55: return rnd.choice(['0', '00', '000']) + t
        for _ in range(rnd.randint(1, 3)):
            i = rnd.randint(0, len(t)); t = t[:i] + rnd.choice(ALPH) + t[i:]
        return t

    OTHER = [('transfer-encoding', 'chunked'), ('x-content-length', '999999'), ('content-lengths', '7'), ('content_length', '7'), ('te', 'trailers'), ('expect', '100-continue'),
             ('content-type', 'text/plain'), ('content-type', 'application/json'), ('cookie', 'a=b'), ('cookie', 'c=d'), ('accept', 'a/b'), ('accept', 'c/d'), ('host', 'h'), ('x-y', '1'), ('x-y', '2')]
    digits = re.compile(r'\A[0-9]+\Z')

    # ---- WSGI
    sg = ctx.session('wsgi glue only = Sg model (CONTENT_LENGTH text -> bound)', 'sgdriver')
    oname = 'glue: a 1*DIGIT Content-Length is the bound exactly; the bound is never negative; a text without digits declares nothing; no header = no body (WSGI) / until the final event (ASGI)'
    for _ in range(ctx.n(2500, 40000)):
        text = text_for()
        hdrs = {}
        for hn, hv in rnd.sample(OTHER, rnd.randint(0, 4)):
            hdrs[hn] = hv
        env = ft.create_environ(method=rnd.choice(['POST', 'PUT', 'GET']), path='/', headers=hdrs)
        env.pop('CONTENT_LENGTH', None)
        if text is not None:
            env['CONTENT_LENGTH'] = text
        if rnd.random() < 0.3:
            env['HTTP_CONTENT_LENGTH'] = rnd.choice(['3', '-3', 'x'])        # not the CGI variable: irrelevant
        data = b'abcdefgh'[:rnd.randint(0, 8)]
        env['wsgi.input'] = __import__('io').BytesIO(data)
        req = falcon.Request(env)
        s = req.bounded_stream
        b = s._bytes_remaining
        same = req.bounded_stream is s
        sg.case({'content_length_text': text})
        sg.op(f"wreq {_pairs_hex((k.encode('latin-1'), v.encode('latin-1')) for k, v in env.items() if isinstance(v, str))} {hx(data)} -", 'ok')
        sg.op('bound', f'bound {b}')
        what = None
        if not same: what = 'req.bounded_stream returned a different object on the second access'
        elif not isinstance(b, int) or b < 0: what = f'negative / non-integer bound {b!r}'
        elif text is not None and digits.match(text) and b != int(text): what = f'1*DIGIT value {text!r} gave the bound {b}'
        elif (text is None or not re.search('[0-9]', text)) and b != 0: what = f'{text!r} declares nothing but the bound is {b}'
        ctx.oracle(oname, what is None, what, {'stream': 'wsgi', 'content_length_text': text, 'environ': {k: v for k, v in env.items() if isinstance(v, str)}})
        ctx.seen(('gw', text, str(sorted(hdrs.items()))), b > 0)
        ctx.count('glue_wsgi_' + ('missing' if text is None else 'empty' if text == '' else 'digits' if digits.match(text) else 'other'))
    sg.finish()

    # ---- ASGI
    sg = ctx.session('asgi glue only = Sg model (scope headers -> _asgi_headers -> bound / 400 / unsupported)', 'sgdriver')

    async def receive():
        raise AssertionError('receive() awaited while the stream was only being built')
    for _ in range(ctx.n(2500, 40000)):
        text = text_for()
        hl = [(hn.encode(), hv.encode()) for hn, hv in (rnd.choice(OTHER) for _ in range(rnd.randint(0, 5)))]
        texts = []
        if text is not None:
            if rnd.random() < 0.15:
                texts.append(rnd.choice(['3', '-3', 'x', '', '12']))           # an earlier content-length entry: the last one is what counts
            texts.append(text)
        for t in texts:
            hl.insert(rnd.randint(0, len(hl)), (b'content-length', t.encode('latin-1')))
        if len(texts) == 2:     # keep their relative order: the generated text last
            idx = [i for i, h in enumerate(hl) if h[0] == b'content-length']
            hl[idx[0]], hl[idx[1]] = (b'content-length', texts[0].encode('latin-1')), (b'content-length', texts[1].encode('latin-1'))
        ws = rnd.random() < 0.04
        scope = ft.create_scope(method='POST', path='/')
        scope['headers'] = hl
        if ws: scope['type'] = 'websocket'
        first = None
        if rnd.random() < 0.5:
            first = {'type': 'http.request'}
            if rnd.random() < 0.8: first['body'] = b'abcdefgh'[:rnd.randint(0, 8)]
            if rnd.random() < 0.7: first['more_body'] = rnd.random() < 0.6
        fe = 'none' if first is None else f"R:{'~' if 'body' not in first else hx(first['body'])}:{'n' if 'more_body' not in first else 't' if first['more_body'] else 'f'}"
        req = falcon.asgi.Request(scope, receive, first_event=first)
        sg.case({'content_length_text': text, 'websocket': ws})
        sg.op(f"areq {1 if ws else 0} {fe} {_pairs_hex(hl)}", 'ok')
        what = None; outcome = None; s = None
        try:
            s = req.stream
            outcome = 'stream'
            sg.op('stream', f'stream rem={s._bytes_remaining} buf={hx(s._buffer)} tell={s.tell()}')
            if req.stream is not s or req.bounded_stream is not s: what = 'req.stream / req.bounded_stream returned a different object on the second access'
        except falcon.HTTPInvalidHeader:
            outcome = 'invalidHeader'; sg.op('stream', 'invalidHeader')
        except UnsupportedError:
            outcome = 'unsupported'; sg.op('stream', 'unsupported')
        if ws:
            if outcome != 'unsupported': what = f'WebSocket handshake: req.stream gave {outcome}'
        elif what is None:
            if outcome == 'unsupported': what = 'UnsupportedError on an http scope'
            elif s is not None and (s._bytes_remaining < 0 or s.tell() != 0): what = f'negative budget {s._bytes_remaining} / tell() {s.tell()} at construction'
            elif len(texts) > 1: pass       # two differing content-length entries: which one counts (the last) is the model's business (correspondence), not the statement's
            elif text is not None and digits.match(text):
                if s is None: what = f'1*DIGIT value {text!r} was refused'
                elif first is None and s._bytes_remaining != int(text): what = f'1*DIGIT value {text!r} gave the budget {s._bytes_remaining}'
                elif first is not None and len(s._buffer) + s._bytes_remaining > int(text): what = f'1*DIGIT value {text!r}: buffer {len(s._buffer)} + budget {s._bytes_remaining} exceed it'
            elif text is None:
                if s is None: what = 'no content-length header, but req.stream raised'
                elif first is None and s._bytes_remaining != 2**63: what = f'no content-length header gave the budget {s._bytes_remaining}'
            elif text != '' and not re.search('[0-9]', text) and s is not None: what = f'{text!r} declares nothing but a stream was built (budget {s._bytes_remaining})'
        ctx.oracle(oname, what is None, what, {'stream': 'asgi', 'content_length_text': text, 'headers': hl, 'first_event': first, 'websocket': ws})
        ctx.seen(('ga', text, str(hl), fe, ws), s is not None and (s._bytes_remaining > 0 or bool(s._buffer)))
        ctx.count('glue_asgi_' + (outcome or 'none'))
    sg.finish()

# ------------------------------------------------------------------ transient faults of the server-side source inside a history

def _midop_judged():
    """The three loss classes of the unchanged tree that were reported to the coordinator (see ASSUMPTIONS) are generated and counted always, judged only with C07_MIDOP_FAULTS=1."""
    import os
    return os.environ.get('C07_MIDOP_FAULTS') == '1'


class _GreenletTimeout(BaseException):
    """What gevent.Timeout is: thrown into the reader from outside, not an Exception."""


def _wsgi_faults(ctx):
    """WSGI: wsgi.input.read()/readline() RAISES on chosen call indices (counted over the whole history) WITHOUT consuming anything - a socket timeout, EINTR, gevent.Timeout -
    the application catches it and CONTINUES to use the stream.  Oracle (statement only; `acct` = bytes returned in call order + what exhaust discarded): acct is a prefix of
    body[:CL]; the server stream stands exactly behind acct (nothing taken and not handed out, nothing beyond CL); eof <=> len(acct) = CL; sizes respected; and after the
    history one more read() hands out exactly the rest."""
    import io
    from runner import alarm, Hang, hx
    import falcon
    import falcon.testing as ft
    from falcon.stream import BoundedStream
    rnd = ctx.rng
    EXC = [TimeoutError, OSError, BlockingIOError, InterruptedError, ConnectionResetError, ValueError, _GreenletTimeout]

    class FRaw(io.BytesIO):
        def __init__(s, data, shorts, faults, exc):
            super().__init__(data); s.shorts = list(shorts); s.faults = set(faults); s.exc = exc; s.calls = 0; s.asked = []; s.maxpos = 0; s.fired = []
        def _gate(s, n):
            s.calls += 1
            if s.calls in s.faults:
                s.faults.discard(s.calls); s.fired.append(s.calls)
                raise s.exc('transient fault of wsgi.input (nothing consumed)')
            s.asked.append(n)
        def read(s, n=-1):
            s._gate(n)
            if s.shorts:
                c = s.shorts.pop(0)
                if c:
                    want = len(s.getvalue()) - s.tell() if (n is None or n < 0) else n
                    r = super().read(min(c, want)); s.maxpos = max(s.maxpos, s.tell()); return r
            r = super().read(n); s.maxpos = max(s.maxpos, s.tell()); return r
        def readline(s, n=-1):
            s._gate(n); r = super().readline(n); s.maxpos = max(s.maxpos, s.tell()); return r

    sess = ctx.session('wsgi source faults = Wf model (state after an operation abandoned at a raising wsgi.input call)', 'w7fdriver')
    oname = 'wsgi, source faults: after wsgi.input raised (nothing consumed) and the app went on: outputs still a prefix of body[:CL], nothing lost or duplicated, eof <=> whole body, no over-read, the rest is still delivered'
    for ci in range(ctx.n(5000, 60000)):
        L = rnd.choice([0, 1, 3, 6, 10, 15, 20])
        data = bytes(rnd.choice(b'ab\n\n') for _ in range(L))
        cl = rnd.choice([L, L, L, max(0, L - 2), max(0, L - 5), L + 3])
        shorts = [rnd.choice([0, 0, 1, 2]) for _ in range(rnd.randint(0, 4))]
        faults = sorted(set(rnd.randint(1, rnd.choice([1, 2, 3, 5, 8])) for _ in range(rnd.choice([1, 1, 2, 3]))))
        exc = rnd.choice(EXC)
        raw = FRaw(data, shorts, faults, exc)
        via_req = rnd.random() < 0.33
        if via_req:
            env = ft.create_environ(method='POST', path='/')
            env['CONTENT_LENGTH'] = str(cl); env['wsgi.input'] = raw
            req = falcon.Request(env)
        else:
            s0 = BoundedStream(raw, cl)
        decl = data[:cl]; acct = b''; hist = []; failed = None; nontriv = False; open_class = None; nfault = 0
        sess.case({'via_request': via_req, 'faults': faults}); sess.op(f"new {cl} {hx(data)} {','.join(map(str, shorts)) or '-'}", 'ok')
        fm = lambda n: 'none' if n is None else n      # noqa: E731

        def st():
            return f" rem={s._bytes_remaining} eof={'true' if s.eof else 'false'} asked={raw.asked}"
        ops = []
        for _ in range(rnd.randint(2, 7)):
            op = rnd.choice(['read', 'read', 'read', 'readline', 'readline', 'readlines', 'next', 'iter', 'exhaust'])
            n = {'read': [None, -1, 0, 1, 2, 5, 100], 'readline': [None, -1, 0, 1, 3, 100], 'readlines': [None, -1, 0, 2, 100], 'next': [None], 'iter': [1, 2, 3, 99], 'exhaust': [1, 4, 65536]}[op]
            ops.append((op, rnd.choice(n)))
        for op, n in ops:
            s = req.bounded_stream if via_req else s0
            hist.append([op, n]); c0 = raw.calls; p0 = raw.tell(); part = []; emits = []
            faulted = False
            try:
                with alarm(3):
                    if op == 'read':
                        d = s.read(n); part.append(d); emits.append((f'read {fm(n)}', 'data ' + hx(d) + st()))
                        if n is not None and n >= 0 and len(d) > n: failed = f'read({n}) returned {len(d)} bytes'
                    elif op == 'readline':
                        d = s.readline(n); part.append(d); emits.append((f'readline {fm(n)}', 'data ' + hx(d) + st()))
                        if n is not None and n >= 0 and len(d) > n: failed = f'readline({n}) returned {len(d)} bytes'
                        if b'\n' in d[:-1]: failed = 'readline returned more than one line'
                    elif op == 'readlines':
                        part.extend(s.readlines(n)); emits.append((f'readlines {fm(n)}', ('lines ' + ' '.join(hx(x) for x in part)).replace('lines  ', 'lines ') + st()))
                    elif op == 'next':
                        try:
                            part.append(next(s)); emits.append(('next', 'data ' + hx(part[-1]) + st()))
                        except StopIteration: emits.append(('next', 'stop' + st()))
                    elif op == 'iter':
                        k = 0
                        for line in s:                 # every line is in the application's hands as soon as it is yielded
                            part.append(line); k += 1; emits.append(('next', 'data ' + hx(line) + st()))
                            if k >= n: break
                        else:
                            emits.append(('next', 'stop' + st()))
                    else:
                        s.exhaust(n); emits.append((f'exhaust {n}', 'unit' + st()))
            except Hang:
                failed = f'{op} did not return (hang)'
            except exc:
                faulted = True; nfault += 1; hist[-1].append(f'wsgi.input call #{raw.fired[-1]} raised {exc.__name__}')
                kdone = raw.calls - c0 - 1          # source calls of this operation that had returned before the one that raised
                emits.append(({'read': f'fault read {fm(n)}', 'readline': f'fault readline {fm(n)}', 'next': 'fault next', 'iter': 'fault next',
                               'readlines': f'fault readlines {fm(n)} {kdone}', 'exhaust': f'fault exhaust {n} {kdone}'}[op], 'fault' + st()))
                ctx.count('wsgi_fault_in_' + op); ctx.count('wsgi_fault_at_op_call_' + str(min(raw.calls - c0, 3)) + ('+' if raw.calls - c0 >= 3 else ''))
            except Exception as e:  # noqa
                failed = f'{op} raised {type(e).__name__}: {e}'
            for l_, r_ in emits: sess.op(l_, r_)
            if failed: break
            if any(type(x) is not bytes for x in part): failed = f'{op} handed out {[type(x).__name__ for x in part]}, not bytes'; break
            if op == 'exhaust':
                acct += data[p0:raw.tell()]                 # what exhaust took from the server is discarded, faulted or not
                if not faulted and not s.eof and len(data) >= cl: failed = 'eof is False after exhaust() although the whole declared body was available'
            else:
                acct += b''.join(part)
            if faulted and op == 'readlines' and raw.calls - c0 >= 2:
                # open finding (c): the lines collected before the failing readline() go down with the exception
                open_class = 'wsgi_readlines_fault_after_first_line'; ctx.count('open_finding_class_c_' + open_class)
                if not _midop_judged(): break
            nontriv = nontriv or bool(acct)
            if failed is None:
                if not decl.startswith(acct): failed = 'returned bytes are not a prefix of body[:Content-Length]'
                elif raw.maxpos > cl: failed = f'raw stream consumed to {raw.maxpos} > Content-Length {cl}'
                elif any((a is None or a < 0 or a > cl) for a in raw.asked): failed = f'raw stream asked for {raw.asked} with Content-Length {cl}'
                elif raw.tell() != len(acct): failed = f'wsgi.input stands at {raw.tell()} but {len(acct)} bytes were handed out/discarded (bytes taken from the server and lost)'
                elif s.eof != (len(acct) >= cl): failed = f'eof = {s.eof} after {len(acct)} of {cl} declared bytes' + (' (right after the faulted call: nothing was consumed by it)' if faulted else '')
            if failed: break
        if failed is None and (open_class is None or _midop_judged()):
            raw.faults.clear()
            s = req.bounded_stream if via_req else s0
            try:
                with alarm(3):
                    while True:             # (short reads: read() may need several calls)
                        d = s.read(); sess.op('read none', 'data ' + hx(d) + st())
                        if not d: break
                        acct += d
            except Exception as e:  # noqa
                failed = f'final read() raised {type(e).__name__}: {e}'
            hist.append(['finally: read() until empty'])
            if failed is None and acct != decl: failed = f'after the history, reading on delivered {len(acct)} of {len(decl)} available declared bytes in total: the stream ended early / has a hole'
            elif failed is None and raw.maxpos > cl: failed = f'raw stream consumed to {raw.maxpos} > Content-Length {cl}'
        ctx.oracle(oname, failed is None, failed, {'stream': 'wsgi', 'body': data, 'content_length': cl, 'shorts': shorts, 'fault_at_wsgi_input_calls': faults, 'exception': exc.__name__,
                                                   'history': hist, 'via_request': via_req})
        ctx.seen(('wf', data, cl, str(shorts), str(faults), str(hist)), nontriv and nfault > 0)
        ctx.count('wsgi_fault_case_' + ('no_fault_reached' if nfault == 0 else 'one_fault' if nfault == 1 else 'several_faults'))
    sess.finish()


def _asgi_faults(ctx):
    """ASGI: receive() RAISES once on chosen call indices, or the application's operation is CANCELLED (task.cancel() / asyncio.wait_for) while parked in receive() -
    nothing was delivered by that call - and the application CONTINUES to use the stream.  Oracle (statement only; `acct` = bytes returned in call order, after an exhaust
    everything the server had delivered so far): acct is a prefix of the declared body, tell() = len(acct), read(n) <= n, eof => the whole declared body, receive() is never
    awaited once Content-Length bytes / the final event / a disconnect were delivered, and after the history readall() hands out exactly the rest."""
    import asyncio
    from runner import hx
    import falcon.asgi
    import falcon.testing as ft
    from falcon.asgi.stream import BoundedStream
    from falcon.errors import OperationNotAllowed
    rnd = ctx.rng
    EXC = [TimeoutError, OSError, ConnectionResetError, RuntimeError, asyncio.IncompleteReadError]

    def enc(e):
        if e['type'] == 'http.disconnect': return 'D'
        return f"R:{'~' if 'body' not in e else hx(e['body'])}:{'n' if 'more_body' not in e else ('t' if e['more_body'] else 'f')}"

    class _WouldBlock(BaseException):
        pass

    sess = ctx.session('asgi source faults = Af model (state after an operation abandoned at a raising / cancelled receive())', 'asfdriver')
    oname = 'asgi, source faults: after receive() raised / the read was cancelled while parked in receive() and the app went on: outputs still a prefix of the declared body, no hole, tell = bytes returned, whole body at eof, no receive() beyond the end'

    async def one():
        L = rnd.choice([0, 1, 3, 6, 10, 16])
        body = bytes(rnd.choice(b'abc\n') for _ in range(L))
        evs = []; i = 0
        while i < L:
            k = rnd.choice([0, 1, 2, 3, 5, 10]); evs.append(body[i:i + k]); i += k
        if not evs or rnd.random() < 0.3: evs.append(b'')
        events = []
        for j, c in enumerate(evs):
            e = {'type': 'http.request'}
            if c or rnd.random() < 0.7: e['body'] = c
            if j < len(evs) - 1: e['more_body'] = True
            elif rnd.random() < 0.3: e['more_body'] = False
            events.append(e)
        disc = None
        if rnd.random() < 0.2:
            disc = rnd.randint(1, len(events)); events = events[:disc] + [{'type': 'http.disconnect'}]
            events[disc - 1]['more_body'] = True
        cl = rnd.choice([None, L, L, L, max(0, L - 2), L + 3])
        via_req = rnd.random() < 0.33
        first = events[0] if (via_req or rnd.random() < 0.7) else None
        q = list(events[1:]) if first is not None else list(events)
        plan = {}
        for _ in range(rnd.choice([1, 1, 2, 3])):
            plan[rnd.randint(1, rnd.choice([1, 2, 3, 5, 8]))] = rnd.choice(['raise', 'raise', 'cancel', 'timeout'])
        plan0 = dict(plan); exc = rnd.choice(EXC)
        calls = [0]; parked = [False]; ended = [first is not None and (first['type'] != 'http.request' or not first.get('more_body', False))]
        taken = [len(first.get('body', b'')) if first is not None and first['type'] == 'http.request' else 0]
        overask = []; raised = []

        async def receive():
            calls[0] += 1
            if ended[0] or (cl is not None and taken[0] >= cl):
                overask.append(calls[0])
            kind = plan.pop(calls[0], None)
            if kind == 'raise':
                raised.append(exc('transient fault of receive() (nothing delivered)') if exc is not asyncio.IncompleteReadError else exc(b'', 1))
                raise raised[-1]
            if kind is not None:
                parked[0] = True
                await asyncio.get_running_loop().create_future()       # nothing arrives; the application gives up waiting (this call delivers nothing)
            if not q: raise _WouldBlock()
            e = q.pop(0)
            if e['type'] != 'http.request' or not e.get('more_body', False): ended[0] = True
            if e['type'] == 'http.request': taken[0] += len(e.get('body', b''))
            return e

        async def app_call(coro, style):
            """Run one stream operation the way an application with a deadline would: as a task that is cancelled when it is found parked in receive()
            (style 'cancel'), or under asyncio.wait_for with a deadline that has passed by the time the operation first has to wait (style 'timeout')."""
            if style == 'timeout':
                return await asyncio.wait_for(coro, 1e-9)
            t = asyncio.ensure_future(coro)
            for _ in range(200):
                if t.done() or parked[0]: break
                await asyncio.sleep(0)
            if not t.done(): t.cancel()
            return await t

        if via_req:
            scope = ft.create_scope(method='POST', path='/')
            hl = [h for h in (tuple(x) for x in scope['headers']) if h[0] != b'content-length']
            if cl is not None: hl.append((b'content-length', str(cl).encode()))
            scope['headers'] = hl
            req = falcon.asgi.Request(scope, receive, first_event=first)
        else:
            s0 = BoundedStream(receive, first_event=first, content_length=cl)
        recv = b''
        for e in events:
            if e['type'] != 'http.request': break
            recv += e.get('body', b'')
            if not e.get('more_body', False): break
        declared = recv if cl is None else recv[:cl]
        complete = any(e['type'] == 'http.disconnect' or not e.get('more_body', False) for e in events) or (cl is not None and len(recv) >= cl)
        styles = [k for k in plan.values() if k != 'raise']
        style = 'timeout' if 'timeout' in styles else 'cancel'
        acct = b''; hist = []; failed = None; nfault = 0; open_class = None; blocked = False
        sess.case({'via_request': via_req, 'faults': plan0})
        sess.op(f"new {'none' if cl is None else cl} {'none' if first is None else enc(first)} " + ' '.join(enc(e) for e in q), 'ok')

        def st():
            return f" tell={s.tell()} eof={'true' if s.eof else 'false'} awaited={calls[0]}"

        def deliv():
            return min(taken[0], len(declared))
        for _ in range(rnd.randint(2, 7)):
            s = req.stream if via_req else s0
            op = rnd.choice(['read', 'read', 'read', 'read_all', 'readall', 'iter', 'exhaust'])
            c0 = calls[0]; residue = deliv() - len(acct); part = []; faulted = None; parked[0] = False
            try:
                if op == 'read':
                    n = rnd.choice([0, 1, 2, 5, 100]); hist.append(['read', n]); line = f'read {n}'
                    d = await app_call(s.read(n), style); part.append(d); sess.op(line, 'data ' + hx(d) + st())
                    if len(d) > n: failed = f'read({n}) returned {len(d)} bytes'
                elif op == 'read_all':
                    n = rnd.choice([None, -1]); hist.append(['read', n]); line = f"read {'none' if n is None else n}"
                    part.append(await app_call(s.read(n), style)); sess.op(line, 'data ' + hx(part[-1]) + st())
                elif op == 'readall':
                    hist.append(['readall']); line = 'readall'; part.append(await app_call(s.readall(), style)); sess.op(line, 'data ' + hx(part[-1]) + st())
                elif op == 'iter':
                    k = rnd.choice([1, 2, 3, 99]); hist.append(['iter', k]); line = f'iter {k}'

                    async def it():
                        c = 0
                        async for ch in s:              # every chunk is in the application's hands as soon as it is yielded
                            part.append(ch); c += 1
                            if c >= k: break
                    await app_call(it(), style); sess.op(line, 'data ' + hx(b''.join(part)) + st())
                else:
                    hist.append(['exhaust']); line = 'exhaust'; await app_call(s.exhaust(), style); sess.op(line, 'unit' + st())
                    if not s.eof: failed = 'eof is False after exhaust()'
            except _WouldBlock:
                blocked = True; sess.op(line, 'BLOCKED')
                if complete: failed = f'{op} blocked on receive() although the server had delivered the end of the body / a disconnect'
            except OperationNotAllowed:
                hist[-1].append('OperationNotAllowed'); sess.op(line, 'notAllowed' + st()); ctx.count('asgi_fault_history_iteration_refused_after_aborted_iteration')
            except BaseException as e_:
                if raised and e_ is raised[-1]: faulted = 'raise'
                elif parked[0] and isinstance(e_, asyncio.CancelledError): faulted = 'cancelled while parked in receive()'
                elif parked[0] and isinstance(e_, TimeoutError): faulted = 'wait_for timed out while parked in receive()'
                else: raise
            if faulted:
                nfault += 1; j = calls[0] - c0; sess.op(f'fault {j} {line}', 'fault' + st()); hist[-1].append(f'receive() call #{calls[0]}: {faulted}' + (f' {exc.__name__}' if faulted == 'raise' else ''))
                ctx.count('asgi_fault_in_' + op); ctx.count('asgi_fault_kind_' + faulted.split(' ')[0] + ('_' + faulted.split(' ')[1] if faulted != 'raise' else ''))
                ctx.count('asgi_fault_at_op_call_' + ('1' if j == 1 else '2+') + ('_with_residue' if residue > 0 else ''))
                if op in ('read', 'read_all', 'readall') and j >= 2:
                    open_class = 'b_asgi_read_fault_after_first_receive_of_the_operation'
                elif op in ('read_all', 'readall') and residue > 0:
                    open_class = 'a_asgi_readall_fault_with_buffered_residue'
                if open_class: ctx.count('open_finding_class_' + open_class)
            if failed or blocked: break
            if any(type(x) is not bytes for x in part): failed = f'{op} handed out {[type(x).__name__ for x in part]}, not bytes'; break
            if open_class and not _midop_judged(): break
            acct += b''.join(part)
            if op == 'exhaust' and declared.startswith(acct):
                acct = declared[:max(len(acct), deliv())]                    # what the server had delivered by now is discarded, faulted or not
            if not declared.startswith(acct): failed = 'returned bytes are not a prefix of the declared body'
            elif s.tell() != len(acct): failed = f'tell() = {s.tell()} but {len(acct)} bytes were returned/discarded'
            elif s.eof and complete and acct != declared: failed = f'eof reported after {len(acct)} of {len(declared)} declared bytes'
            elif overask: failed = f'receive() awaited (call #{overask[0]}) after the server had delivered Content-Length bytes / the final event / a disconnect'
            if failed: break
        if failed is None and not blocked and (open_class is None or _midop_judged()):
            plan.clear(); s = req.stream if via_req else s0
            hist.append(['finally: readall()'])
            try:
                d = await s.readall(); acct += d; sess.op('readall', 'data ' + hx(d) + st())
                if acct != declared: failed = f'after the history, readall() completes the output to {len(acct)} of {len(declared)} declared bytes: hole / early end / duplicate'
                elif s.tell() != len(acct) or not s.eof: failed = f'after the final readall(): tell() = {s.tell()}, eof = {s.eof}, {len(acct)} bytes returned'
                elif overask: failed = f'receive() awaited (call #{overask[0]}) after the end of the body'
            except _WouldBlock:
                sess.op('readall', 'BLOCKED')
                if complete: failed = 'final readall() blocked on receive() although the server had delivered the end of the body / a disconnect'
        ctx.oracle(oname, failed is None, failed, {'stream': 'asgi', 'events': [enc(e) for e in events], 'content_length': cl, 'first_event_given': first is not None,
                                                   'fault_at_receive_calls': plan0, 'exception': exc.__name__, 'history': hist, 'via_request': via_req})
        ctx.seen(('af', str([enc(e) for e in events]), cl, first is not None, str(plan0), str(hist)), bool(acct) and nfault > 0)
        ctx.count('asgi_fault_case_' + ('no_fault_reached' if nfault == 0 else 'one_fault' if nfault == 1 else 'several_faults'))

    async def main():
        for _ in range(ctx.n(5000, 60000)):
            await one()
    asyncio.run(main())
    sess.finish()


LEVEL_TEXT = ('Machine-checked refinement proofs (Lean 4): the WSGI BoundedStream model refines a flat cursor over body[:Content-Length] for every history of '
              'read/readline/readlines/next/exhaust, every body, declared length and short-read pattern (history_refines_cursor, never_overreads); the ASGI '
              'BoundedStream model does so for read(n)/readall/exhaust/iteration-with-abandonment over every event shape, chunking and disconnect position. '
              'The glue that computes the declared length from the request is modelled and proved too (Sg): for EVERY Content-Length text the bound handed to the stream is '
              'what the text declares (1*DIGIT and the exactly characterised liberal int() spellings), 0 on WSGI / None or HTTPInvalidHeader on ASGI otherwise, never negative, '
              'independent of all other headers; and the history theorems are instantiated at that bound for the stream obtained THROUGH the request object (lazy caching included), '
              'so the statement holds end to end from the header text (wsgi_/asgi_request_stream_refines_cursor). '
              'The hand-written models are tied to falcon/stream.py, falcon/asgi/stream.py, falcon/request.py and falcon/asgi/request.py on every run by differential correspondences '
              '(same op lines to the real classes and to the compiled models; via falcon.Request / falcon.asgi.Request the header text, environ / scope headers go to the request-level model), '
              'and independent oracles written from the statement decide failing inputs. Transient faults of the server-side source inside a history (wsgi.input / receive() raising once, a read cancelled while parked in receive(), '
              'the application continuing) are generated at every call index, judged by the statement oracle on the domain given in ASSUMPTIONS, and the state after the abandoned operation is compared with the Wf / Af fault models '
              '(first-call faults proved invisible on WSGI).')
LEVEL_NOTE = ('Trusted: Lean kernel + standard axioms; the correspondence harness and oracle; file-object semantics of wsgi.input as modelled; Python int() as modelled by Hp.pyIntW; '
              'the server-made environ / scope. close()/closed-stream and second-iteration guards are carried by correspondence+oracle only.')
TECHNIQUE = 'Lean 4 refinement proof (stream model -> flat cursor) + differential correspondence model vs. real code + statement oracle'
